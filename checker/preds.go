package main

// Value-predicate tables (E8): in-package predicates over `any` values are
// identified by what they accept (the set of Go dynamic types on their
// accepting paths), never by name; the header validator's per-entry paths are
// lowered to a table label -> conditions on the way to acceptance.

import (
	"fmt"
	"go/token"
	"go/types"
	"sort"
	"strconv"
	"strings"

	"golang.org/x/tools/go/ssa"
)

// kindTable: dynamic type -> side condition ("" unconditional, "nonneg" for
// v >= 0, "nonnil", "other:<cond>") on the accepting paths of a predicate.
type kindTable map[string]string

func (k kindTable) String() string {
	var ks []string
	for t, c := range k {
		if c != "" {
			t += "[" + c + "]"
		}
		ks = append(ks, t)
	}
	sort.Strings(ks)
	return strings.Join(ks, ",")
}

// boolResultIndex: index of the bool result (last bool), or -1.
func boolResultIndex(fn *ssa.Function) int {
	res := fn.Signature.Results()
	for i := res.Len() - 1; i >= 0; i-- {
		if b, ok := res.At(i).Type().Underlying().(*types.Basic); ok && b.Kind() == types.Bool {
			return i
		}
	}
	return -1
}

// isAnyParamPred: func(x any, ...) with a bool result.
func isAnyPred(fn *ssa.Function) bool {
	if fn == nil || len(fn.Params) < 1 || boolResultIndex(fn) < 0 {
		return false
	}
	it, ok := fn.Params[0].Type().Underlying().(*types.Interface)
	return ok && it.NumMethods() == 0
}

// acceptedKinds enumerates the accepting paths of predicate fn over its first
// parameter. ok=false when a path accepts without a type test on $0.
func (P *Prog) acceptedKinds(fn *ssa.Function) (kindTable, bool, string) {
	bi := boolResultIndex(fn)
	kt := kindTable{}
	p0 := T("param", "0")
	for _, p := range P.allPaths(fn) {
		if !p.feasible() {
			continue
		}
		res := p.results()
		rt := res[bi]
		if rt.Op == "const" && rt.S == "false" {
			continue
		}
		// the dynamic type established on this path
		typ := ""
		var val *Term
		for _, c := range p.conds {
			if c.Val && c.Pred.Op == "res" && c.Pred.S == "1" && c.Pred.Args[0].Op == "typeassert" && c.Pred.Args[0].Args[0].eq(p0) {
				typ = strings.TrimSuffix(c.Pred.Args[0].S, ",ok")
				val = &Term{Op: "res", S: "0", Args: []*Term{c.Pred.Args[0]}}
			}
		}
		// the type test delegated to an in-package predicate over the same
		// value: its kind table is accepted on this path
		if typ == "" && rt.Op == "const" {
			var g *ssa.Function
			for _, c := range p.conds {
				call := c.Pred
				if call.Op == "res" && len(call.Args) == 1 {
					call = call.Args[0]
				}
				if !c.Val || call.Op != "call" || len(call.Args) != 1 || !call.Args[0].eq(p0) {
					continue
				}
				h := P.calleeOfTerm(call)
				if h == nil || h == fn || boolResultIndex(h) < 0 {
					continue
				}
				if c.Pred.Op == "res" && c.Pred.S != strconv.Itoa(boolResultIndex(h)) {
					continue
				}
				g = h
			}
			if g != nil && !P.kindsBusy[g] {
				if P.kindsBusy == nil {
					P.kindsBusy = map[*ssa.Function]bool{}
				}
				P.kindsBusy[fn] = true
				sub, ok, why := P.acceptedKinds(g)
				delete(P.kindsBusy, fn)
				if !ok {
					return kt, false, "in " + shortFn(g) + ": " + why
				}
				for k, v := range sub {
					if old, seen := kt[k]; seen && old != v {
						v = ""
					}
					kt[k] = v
				}
				continue
			}
		}
		if rt.Op != "const" {
			// returns a computed boolean
			if rt.Op == "res" && rt.S == "1" && rt.Args[0].Op == "typeassert" && rt.Args[0].Args[0].eq(p0) {
				kt[strings.TrimSuffix(rt.Args[0].S, ",ok")] = ""
				continue
			}
			// the verdict of an in-package predicate over the same value
			{
				call := rt
				if call.Op == "res" && len(call.Args) == 1 {
					call = call.Args[0]
				}
				if call.Op == "call" && len(call.Args) == 1 && call.Args[0].eq(p0) && typ == "" {
					if g := P.calleeOfTerm(call); g != nil && g != fn && boolResultIndex(g) >= 0 && (rt.Op == "call" || rt.S == strconv.Itoa(boolResultIndex(g))) && !P.kindsBusy[g] {
						if P.kindsBusy == nil {
							P.kindsBusy = map[*ssa.Function]bool{}
						}
						P.kindsBusy[fn] = true
						sub, ok, why := P.acceptedKinds(g)
						delete(P.kindsBusy, fn)
						if !ok {
							return kt, false, "in " + shortFn(g) + ": " + why
						}
						for k, v := range sub {
							if old, seen := kt[k]; seen && old != v {
								v = ""
							}
							kt[k] = v
						}
						continue
					}
				}
			}
			if typ != "" && val != nil {
				// e.g. v >= 0 : !(v < 0)
				if rt.Op == "binop" && rt.S == ">=" && rt.Args[0].eq(val) && rt.Args[1].String() == "0" {
					kt[typ] = "nonneg"
					continue
				}
				if rt.Op == "binop" && rt.S == "!=" && rt.Args[0].eq(val) && rt.Args[1].Op == "nil" {
					kt[typ] = "nonnil"
					continue
				}
				kt[typ] = "other:" + rt.String()
				continue
			}
			return kt, false, "accepting path returns the computed value " + rt.String() + " without a type test"
		}
		if typ == "" {
			return kt, false, "a path returns true without testing the dynamic type of the value"
		}
		cond := ""
		for _, c := range p.conds {
			mentions := c.Pred.contains(func(u *Term) bool { return u.eq(val) })
			if !mentions || (c.Pred.Op == "res" && c.Pred.S == "1") {
				continue
			}
			switch {
			case c.Pred.Op == "binop" && c.Pred.S == "<" && !c.Val && c.Pred.Args[0].eq(val) && c.Pred.Args[1].String() == "0":
				cond = "nonneg"
			case c.Pred.Op == "binop" && c.Pred.S == "==" && !c.Val && ((c.Pred.Args[0].eq(val) && c.Pred.Args[1].Op == "nil") || (c.Pred.Args[1].eq(val) && c.Pred.Args[0].Op == "nil")):
				cond = "nonnil"
			case c.Pred.Op == "binop" && (c.Pred.S == "<" || c.Pred.S == "<=") && !c.Val && c.Pred.Args[1].eq(val) && bigConst(c.Pred.Args[0]):
				// refusing values beyond int64 leaves every representable label alone
			default:
				cond = "other:" + c.String()
			}
		}
		if old, seen := kt[typ]; seen && old != cond {
			cond = "" // some path accepts unconditionally
			if old != "" && cond != "" {
				cond = "other:mixed"
			}
		}
		kt[typ] = cond
	}
	return kt, true, ""
}

var signedKinds = []string{"int", "int8", "int16", "int32", "int64"}
var unsignedKinds = []string{"uint", "uint8", "uint16", "uint32", "uint64"}

func kindsEqual(kt kindTable, want map[string]string) bool {
	if len(kt) != len(want) {
		return false
	}
	for k, v := range want {
		if g, ok := kt[k]; !ok || g != v {
			return false
		}
	}
	return true
}

func wantKinds(cond map[string]string, lists ...[]string) map[string]string {
	out := map[string]string{}
	for _, l := range lists {
		for _, k := range l {
			out[k] = cond[k]
		}
	}
	return out
}

// valuePredicates classifies every in-package func(any) bool by its kind
// table: "int", "uint", "tstr", "bstr", or "" (other).
type predClass struct {
	fn    *ssa.Function
	kinds kindTable
	class string
	note  string
}

func (P *Prog) valuePredicates() []*predClass {
	var out []*predClass
	for _, fn := range P.Funcs {
		// func(any) bool, or func(any) (T, bool): the flag of a conversion helper
		if !isAnyPred(fn) || len(fn.Params) != 1 || fn.Signature.Results().Len() > 2 || fn.Signature.Recv() != nil || fn.Blocks == nil {
			continue
		}
		kt, ok, why := P.acceptedKinds(fn)
		pc := &predClass{fn: fn, kinds: kt, note: why}
		if ok {
			nonneg := map[string]string{}
			for _, k := range signedKinds {
				nonneg[k] = "nonneg"
			}
			switch {
			case kindsEqual(kt, wantKinds(nil, signedKinds, unsignedKinds)):
				pc.class = "int"
			case kindsEqual(kt, wantKinds(nonneg, signedKinds, unsignedKinds)):
				pc.class = "uint"
			case kindsEqual(kt, map[string]string{"string": ""}):
				pc.class = "tstr"
			case kindsEqual(kt, map[string]string{"[]byte": "nonnil"}):
				// a nil []byte is encoded as CBOR null, not as a bstr (D5)
				pc.class = "bstr"
			}
		}
		out = append(out, pc)
	}
	sort.Slice(out, func(i, j int) bool { return out[i].fn.String() < out[j].fn.String() })
	return out
}

// entryPath is one way through the validator's per-entry loop body.
type entryPath struct {
	p        *Path
	conds    []Fact // p.conds plus the conditions of helper calls that succeeded on the way (expanded)
	accepted bool   // iteration continues (entry accepted)
	label    int64  // when labelKnown
	known    bool
	other    bool // all label comparisons false: unregistered label
}

// validatorEntryPaths lowers the validator's range loop body into paths and
// classifies each by the normalised label it is about.
func (P *Prog) validatorEntryPaths(val *ssa.Function) ([]*entryPath, *loopInfo) {
	var L *loopInfo
	for _, l := range findLoops(val) {
		if l.kind == "map-range" && l.over != nil && P.terms.of(l.over).String() == "$0" {
			L = l
		}
	}
	if L == nil {
		undecidedf("the header validator does not range over its map parameter")
	}
	norm := P.labelNormalizer()
	if norm == nil {
		undecidedf("anchor not found: label normalisation function")
	}
	var out []*entryPath
	for _, p := range P.enumPaths(val, L.body, func(b *ssa.BasicBlock) bool { return b == L.header }, false) {
		if !p.feasible() {
			continue
		}
		ep := &entryPath{p: p, conds: p.conds}
		if p.ret == nil {
			ep.accepted = true
		} else {
			res := p.results()
			fs := factSet{}
			for _, c := range p.conds {
				fs.add(c)
			}
			if k, _ := P.classifyErr(res[errIndex(val)], fs); k != exitFailure {
				ep.accepted = true
			}
		}
		nLabelConds := 0
		dead := false
		for _, c := range p.conds {
			if c.Pred.Op != "binop" || c.Pred.S != "==" {
				continue
			}
			for i := 0; i < 2; i++ {
				o := c.Pred.Args[1-i]
				wrongType := false
				if o.Op == "iface" {
					// the normalised label is an int64 (or a string): a constant of
					// any other Go type never compares equal to it as an interface
					wrongType = o.S != "int64"
					o = o.Args[0]
				}
				n, ok := termConstInt(o)
				if !ok || !strings.Contains(c.Pred.Args[i].String(), "call<"+shortFn(norm)+">") {
					continue
				}
				if wrongType {
					if c.Val {
						dead = true // this arm can never be taken
					}
					continue
				}
				nLabelConds++
				if c.Val {
					ep.label, ep.known = n, true
				}
			}
		}
		if dead {
			continue
		}
		if !ep.known && nLabelConds > 0 {
			ep.other = true
		}
		// helper calls on the value that succeeded: add the conditions of each
		// of the helper's success paths (one entry path per combination)
		V := mustPat("res<2>(next(range($0)))")
		alts := [][]Fact{p.conds}
		for _, c := range p.conds {
			if !c.Val || c.Pred.Op != "binop" || c.Pred.S != "==" {
				continue
			}
			var call *Term
			for i := 0; i < 2; i++ {
				if c.Pred.Args[i].Op == "nil" && c.Pred.Args[1-i].Op == "call" {
					call = c.Pred.Args[1-i]
				}
			}
			if call == nil {
				continue
			}
			g := P.calleeOfTerm(call)
			if g == nil || g == val || errIndex(g) != 0 || g.Signature.Results().Len() != 1 {
				continue
			}
			usesV := false
			for _, a := range call.Args {
				if a.eq(V) {
					usesV = true
				}
			}
			if !usesV {
				continue
			}
			m := map[string]*Term{}
			for i, a := range call.Args {
				m[strconv.Itoa(i)] = a
			}
			var next [][]Fact
			for _, gp := range P.allPaths(g) {
				if !gp.feasible() {
					continue
				}
				fs := factSet{}
				for _, gc := range gp.conds {
					fs.add(gc)
				}
				if k, _ := P.classifyErr(gp.results()[0], fs); k == exitFailure {
					continue
				}
				var sub []Fact
				for _, gc := range gp.conds {
					sub = append(sub, normFact(gc.Pred.subst(m), gc.Val))
				}
				for _, a := range alts {
					next = append(next, append(append([]Fact{}, a...), sub...))
				}
				if len(next) > 256 {
					break
				}
			}
			if len(next) > 0 {
				alts = next
			}
		}
		for _, a := range alts {
			cp := *ep
			cp.conds = a
			out = append(out, &cp)
		}
	}
	return out, L
}

func (ep *entryPath) has(f Fact) bool {
	for _, c := range ep.conds {
		if c.String() == f.String() {
			return true
		}
	}
	return false
}

func (ep *entryPath) hasCondCall(callee string, arg0 *Term, val bool) bool {
	for _, c := range ep.conds {
		if c.Val == val && c.Pred.Op == "call" && c.Pred.S == callee && len(c.Pred.Args) >= 1 && (arg0 == nil || c.Pred.Args[0].eq(arg0)) {
			return true
		}
	}
	return false
}

func (ep *entryPath) condStrings() string {
	var cs []string
	for _, c := range ep.conds {
		cs = append(cs, c.String())
	}
	return strings.Join(cs, " ∧ ")
}

// countersigPredicates: functions (the validator itself or helpers it calls)
// that test a value against *Countersignature with a comma-ok assertion.
func (P *Prog) countersigAsserts(val *ssa.Function) map[*ssa.Function][]*ssa.TypeAssert {
	out := map[*ssa.Function][]*ssa.TypeAssert{}
	seen := map[*ssa.Function]bool{}
	var visit func(f *ssa.Function, depth int)
	visit = func(f *ssa.Function, depth int) {
		if f == nil || seen[f] || !P.inPkg(f) || depth > 2 {
			return
		}
		seen[f] = true
		for _, b := range f.Blocks {
			for _, in := range b.Instrs {
				if ta, ok := in.(*ssa.TypeAssert); ok && ta.CommaOk && shortType(ta.AssertedType) == "*Countersignature" {
					out[f] = append(out[f], ta)
				}
				if ci, ok := in.(ssa.CallInstruction); ok {
					visit(staticCallee(ci), depth+1)
				}
			}
		}
	}
	visit(val, 0)
	return out
}

// checkCountersigValuePredicate: R05.7 / R13.1 (labels 7, 11): every way of
// accepting a value after the *Countersignature test requires a non-nil
// pointer, or a non-empty []*Countersignature all of whose elements were
// tested non-nil in a full-range loop.
func checkCountersigValuePredicate(r *Report, rule string) map[*ssa.Function]bool {
	P := r.P
	val := P.headerValidator()
	good := map[*ssa.Function]bool{}
	n := 0
	asserts := P.countersigAsserts(val)
	var fns []*ssa.Function
	for f := range asserts {
		fns = append(fns, f)
	}
	sort.Slice(fns, func(i, j int) bool { return fns[i].String() < fns[j].String() })
	for _, f := range fns {
		allOK := true
		for ti, ta := range asserts[f] {
			n++
			vt := P.terms.of(ta.X)
			o := r.ob(rule, fmt.Sprintf("%s:countersignature-value#%d", shortFn(f), ti), f, ta, "a value accepted as countersignature parameter is a non-nil *Countersignature or a non-empty []*Countersignature without nil elements")
			ptrOK := &Term{Op: "res", S: "1", Args: []*Term{{Op: "typeassert", S: "*Countersignature,ok", Args: []*Term{vt}}}}
			ptrV := &Term{Op: "res", S: "0", Args: []*Term{ptrOK.Args[0]}}
			lstTA := &Term{Op: "typeassert", S: "[]*Countersignature,ok", Args: []*Term{vt}}
			lstOK := &Term{Op: "res", S: "1", Args: []*Term{lstTA}}
			lstV := &Term{Op: "res", S: "0", Args: []*Term{lstTA}}
			bi := boolResultIndex(f)
			ei := errIndex(f)
			why := ""
			np := 0
			// the element loop, if any
			var L *loopInfo
			for _, l := range findLoops(f) {
				if l.over != nil && P.terms.of(l.over).eq(lstV) && l.fullRange && (l.kind == "slice-range" || l.kind == "counted") {
					L = l
				}
			}
			for _, p := range P.allPaths(f) {
				if !p.contains(ta.Block()) || !p.feasible() {
					continue
				}
				res := p.results()
				accepting := true
				fs := factSet{}
				for _, c := range p.conds {
					fs.add(c)
				}
				switch {
				case bi >= 0 && ei < 0:
					if res[bi].Op == "const" && res[bi].S == "false" {
						accepting = false
					}
				case ei >= 0:
					if k, _ := P.classifyErr(res[ei], fs); k == exitFailure {
						accepting = false
					}
				}
				if !accepting {
					continue
				}
				// paths of other labels in an inlined validator: skip when neither assertion was evaluated true or false... they all pass through ta's block, so they are about this value
				np++
				switch {
				case p.has(Fact{ptrOK, true}):
					retTest := false
					if bi >= 0 && ei < 0 && res[bi].Op == "binop" && res[bi].S == "!=" {
						a, b := res[bi].Args[0], res[bi].Args[1]
						retTest = (a.eq(ptrV) && b.Op == "nil") || (b.eq(ptrV) && a.Op == "nil")
					}
					if !p.has(Fact{tEq(ptrV, tNil()), false}) && !retTest {
						why = "a *Countersignature is accepted without a nil test"
					}
				case p.has(Fact{lstOK, true}):
					if !fs.holdsNonEmpty(lstV) {
						why = "a []*Countersignature is accepted without a non-empty test"
					} else if L == nil {
						why = "a []*Countersignature is accepted without a full-range loop over its elements"
					} else if !p.contains(L.header) {
						why = "a []*Countersignature can be accepted on a path that skips the element loop"
					}
				default:
					if f != val {
						why = "a value that is neither *Countersignature nor []*Countersignature is accepted: " + fmt.Sprint(res)
					} else {
						// inlined form inside the validator: acceptance without either
						// assertion being true must not be on a countersignature label path
						why = "acceptance without a successful countersignature type test"
					}
				}
			}
			if why == "" && L != nil {
				// every continuing iteration has tested its element non-nil
				for _, p := range P.enumPaths(f, L.body, func(b *ssa.BasicBlock) bool { return b == L.header }, false) {
					if p.ret != nil {
						continue
					}
					okElem := false
					for _, c := range p.conds {
						if !c.Val && c.Pred.Op == "binop" && c.Pred.S == "==" {
							for i := 0; i < 2; i++ {
								if c.Pred.Args[i].Op == "nil" {
									e := c.Pred.Args[1-i]
									if e.Op == "load" && e.Args[0].Op == "index" && e.Args[0].Args[0].eq(lstV) {
										okElem = true
									}
								}
							}
						}
					}
					if !okElem {
						why = "an element of the list can be passed over without a nil test"
					}
				}
			}
			if np == 0 && why == "" {
				why = "no accepting path found through the countersignature test"
			}
			o.check(why == "", "pointer arm: != nil; list arm: len != 0 and every element != nil in a full-range loop", why)
			if why != "" {
				allOK = false
			}
		}
		if allOK {
			good[f] = true
		}
	}
	r.floor(rule, n, 1, "countersignature type tests in the validator's reach")
	return good
}

func itoa(n int64) string { return strconv.FormatInt(n, 10) }

// bigConst: an integer constant >= math.MaxInt64.
func bigConst(t *Term) bool {
	if t.Op != "const" {
		return false
	}
	s := strings.TrimPrefix(t.S, "+")
	if len(s) < 19 || strings.HasPrefix(s, "-") {
		return false
	}
	for _, ch := range s {
		if ch < '0' || ch > '9' {
			return false
		}
	}
	return len(s) > 19 || s >= "9223372036854775807"
}

// prefixPredicate recognises a hand-written bytes.HasPrefix: a function with
// one boolean result that returns true only after (a) len(D) >= len(O) and
// (b) a full-range loop over O in which every completed iteration has seen
// D[i] == O[i]. D and O are returned as terms of the function (parameters or
// loads of package variables).
func (P *Prog) prefixPredicate(fn *ssa.Function) (d, o *Term, ok bool) {
	if fn == nil || fn.Blocks == nil || fn.Signature.Results().Len() != 1 || boolResultIndex(fn) != 0 {
		return nil, nil, false
	}
	var L *loopInfo
	for _, l := range findLoops(fn) {
		if l.fullRange && (l.kind == "counted" || l.kind == "slice-range") {
			if L != nil {
				return nil, nil, false
			}
			L = l
		}
	}
	if L == nil || len(findLoops(fn)) != 1 {
		return nil, nil, false
	}
	o = P.terms.of(L.over)
	_ = P.terms.of(L.idx)
	n := 0
	for _, p := range P.enumPaths(fn, L.body, func(b *ssa.BasicBlock) bool { return b == L.header }, false) {
		if p.ret != nil {
			if rt := p.results()[0]; !(rt.Op == "const" && rt.S == "false") {
				return nil, nil, false
			}
			continue
		}
		n++
		found := false
		// SSA level: an equality test between D[idx] and O[idx] (same loop index) that holds on this path
		for k, at := range p.condAt {
			iff, isIf := at.(*ssa.If)
			if !isIf || k >= len(p.conds) {
				continue
			}
			cmp, isCmp := iff.Cond.(*ssa.BinOp)
			if !isCmp || (cmp.Op != token.EQL && cmp.Op != token.NEQ) {
				continue
			}
			// the path must take the "equal" outcome
			c := p.conds[k]
			if !(c.Pred.Op == "binop" && c.Pred.S == "==" && c.Val) {
				continue
			}
			bx, ix := elemIndexOf(cmp.X)
			by, iy := elemIndexOf(cmp.Y)
			if bx == nil || by == nil || ix != L.idx || iy != L.idx {
				continue
			}
			tx, ty := P.terms.of(bx), P.terms.of(by)
			var dd *Term
			switch {
			case ty.eq(o) && !tx.eq(o):
				dd = tx
			case tx.eq(o) && !ty.eq(o):
				dd = ty
			default:
				continue
			}
			if d != nil && !d.eq(dd) {
				return nil, nil, false
			}
			d = dd
			found = true
		}
		if !found {
			return nil, nil, false
		}
	}
	if n == 0 || d == nil {
		return nil, nil, false
	}
	// true is returned only after the loop, with the length test passed
	nt := 0
	for _, p := range P.allPaths(fn) {
		rt := p.results()[0]
		if rt.Op == "const" && rt.S == "false" {
			continue
		}
		nt++
		if !(rt.Op == "const" && rt.S == "true") || !p.contains(L.header) {
			return nil, nil, false
		}
		fs := factSet{}
		for _, c := range p.conds {
			fs.add(c)
		}
		if !(fs.has(Fact{tLt(tLen(d), tLen(o)), false}) || fs.has(Fact{tLe(tLen(o), tLen(d)), true})) {
			return nil, nil, false
		}
	}
	return d, o, nt > 0
}

func unifyOne(pat string, t *Term) (bindings, bool) { return unify(mustPat(pat), t, bindings{}) }

// prefixFacts lists (data term, prefix term) pairs that the facts establish
// through hand-written prefix predicates: f(args) is true.
func (P *Prog) prefixFacts(fs factSet) [][2]*Term {
	var out [][2]*Term
	for _, f := range fs {
		if !f.Val || f.Pred.Op != "call" {
			continue
		}
		g := P.calleeOfTerm(f.Pred)
		if g == nil {
			continue
		}
		d, o, ok := P.prefixPredicate(g)
		if !ok {
			continue
		}
		m := map[string]*Term{}
		for i, a := range f.Pred.Args {
			m[strconv.Itoa(i)] = a
		}
		out = append(out, [2]*Term{d.subst(m), o.subst(m)})
	}
	return out
}

// predCallOf: the condition is the verdict of a classified value predicate on
// one argument: call<f>(x) for a func(any) bool, res<k>(call<g>(x)) for the
// flag of a func(any) (T, bool). Returns the callee's short name and x.
func (P *Prog) predCallOf(t *Term) (string, *Term) {
	call := t
	if t.Op == "res" && len(t.Args) == 1 && t.Args[0].Op == "call" {
		call = t.Args[0]
		g := P.calleeOfTerm(call)
		if g == nil || t.S != strconv.Itoa(boolResultIndex(g)) {
			return "", nil
		}
	}
	if call.Op != "call" || len(call.Args) != 1 {
		return "", nil
	}
	return call.S, call.Args[0]
}

package main

// C19 — decoding depends only on the input bytes: atomic, history-free, no aliasing.

import (
	"fmt"
	"go/token"
	"go/types"
	"sort"
	"strings"

	"golang.org/x/tools/go/ssa"
)

func init() {
	register(&propSpec{id: "C19", title: "decoders are atomic, history-free and do not alias their input", run: runC19, mutants: mutC19, design: "DESIGN.md section 3, C19"})
}

// c19Decoders: the decoders the property quantifies over: structure types,
// both header buckets and the bstr/nil slot type.
func (P *Prog) c19Decoders() []*ssa.Function {
	var out []*ssa.Function
	for _, T := range P.structureTypes() {
		out = append(out, P.methodOf(T, "UnmarshalCBOR"))
	}
	for _, n := range []string{"ProtectedHeader", "UnprotectedHeader"} {
		out = append(out, P.methodOf(P.mustNamed(n), "UnmarshalCBOR"))
	}
	out = append(out, P.methodOf(P.bstrNilType(), "UnmarshalCBOR"))
	return uniqFuncs(out)
}

// receiverClosure: fn plus the in-package methods it forwards its receiver to.
func (P *Prog) receiverClosure(fn *ssa.Function) []*ssa.Function {
	seen := map[*ssa.Function]bool{}
	var out []*ssa.Function
	derives := func(v ssa.Value, f *ssa.Function) bool {
		for {
			switch x := v.(type) {
			case *ssa.ChangeType:
				v = x.X
				continue
			case *ssa.Call:
				if a, ok := P.identityArg(x); ok {
					v = a
					continue
				}
				return false
			case *ssa.Parameter:
				return paramIndex(x) == 0 && x.Parent() == f
			}
			return false
		}
	}
	var visit func(f *ssa.Function, depth int)
	visit = func(f *ssa.Function, depth int) {
		if f == nil || seen[f] || !P.inPkg(f) || depth > 4 {
			return
		}
		seen[f] = true
		out = append(out, f)
		for _, ci := range callsIn(f, nil) {
			c := ci.Common()
			if callee := c.StaticCallee(); callee != nil && len(c.Args) > 0 && derives(c.Args[0], f) && callee.Signature.Recv() != nil {
				visit(callee, depth+1)
			}
		}
	}
	visit(fn, 0)
	return out
}

// afterOnlySuccess: every Return reachable after instruction in is a success
// exit, or the delegated return of in itself (when in is a call).
func (P *Prog) afterOnlySuccess(fn *ssa.Function, in ssa.Instruction) (bool, string) {
	fr := P.factsOf(fn)
	exitOf := map[*ssa.Return][]*exitInfo{}
	for _, x := range fr.exits {
		exitOf[x.ret] = append(exitOf[x.ret], x)
	}
	type edge struct{ from, to *ssa.BasicBlock }
	seen := map[edge]bool{}
	var bad string
	var walk func(b *ssa.BasicBlock, fromIdx int, from *ssa.BasicBlock)
	walk = func(b *ssa.BasicBlock, fromIdx int, from *ssa.BasicBlock) {
		for i := fromIdx; i < len(b.Instrs); i++ {
			if ret, ok := b.Instrs[i].(*ssa.Return); ok {
				for _, x := range exitOf[ret] {
					if x.pred != nil && from != nil && x.pred != from {
						continue // virtual exit of another incoming edge
					}
					switch {
					case x.kind == exitSuccess && !x.delegated:
					case x.delegated:
						// the delegated verdict must be the writing call's own
						c := delegCall(x.errTerm)
						if v, isVal := in.(ssa.Value); !(isVal && c != nil && c.eq(P.terms.of(v))) {
							if ex := x.errTerm; !(isVal && ex.Op == "res" && ex.Args[0].eq(P.terms.of(v))) {
								bad = "after the write a different call's verdict is returned at " + P.instrPos(ret)
							}
						}
					default:
						bad = "a failure exit (" + x.errTerm.String() + ") at " + P.instrPos(ret) + " is reachable after the write"
					}
				}
			}
		}
		for _, s := range b.Succs {
			if !seen[edge{b, s}] {
				seen[edge{b, s}] = true
				walk(s, 0, b)
			}
		}
	}
	idx := 0
	for i, x := range in.Block().Instrs {
		if x == in {
			idx = i + 1
		}
	}
	walk(in.Block(), idx, nil)
	return bad == "", bad
}

// taint: escape analysis of the input buffer (R19.3).
type taint struct {
	P       *Prog
	memo    map[*ssa.Parameter]string // "" ok, else reason
	busy    map[*ssa.Parameter]bool
	visited int
}

func (t *taint) paramEscapes(p *ssa.Parameter) string {
	if r, ok := t.memo[p]; ok {
		return r
	}
	if t.busy[p] {
		return ""
	}
	t.busy[p] = true
	r := t.valueEscapes(p, map[ssa.Value]bool{})
	delete(t.busy, p)
	t.memo[p] = r
	return r
}

func (t *taint) valueEscapes(v ssa.Value, seen map[ssa.Value]bool) string {
	if seen[v] {
		return ""
	}
	seen[v] = true
	t.visited++
	P := t.P
	refs := v.Referrers()
	if refs == nil {
		return ""
	}
	for _, ref := range *refs {
		switch u := ref.(type) {
		case *ssa.Slice:
			if r := t.valueEscapes(u, seen); r != "" {
				return r
			}
		case *ssa.ChangeType:
			if r := t.valueEscapes(u, seen); r != "" {
				return r
			}
		case *ssa.Phi:
			if r := t.valueEscapes(u, seen); r != "" {
				return r
			}
		case *ssa.Convert:
			// []byte -> string copies; other conversions keep the memory
			if b, ok := u.Type().Underlying().(*types.Basic); ok && b.Info()&types.IsString != 0 {
				continue
			}
			if r := t.valueEscapes(u, seen); r != "" {
				return r
			}
		case *ssa.IndexAddr, *ssa.Index, *ssa.Lookup:
			// element access: bytes are copied out
		case *ssa.BinOp, *ssa.If, *ssa.DebugRef, *ssa.UnOp:
		case *ssa.MakeInterface:
			if r := t.valueEscapes(u, seen); r != "" {
				return r
			}
		case *ssa.Store:
			if u.Val == v {
				// storing into a fresh local taints the local
				root, _ := P.terms.addrPath(u.Addr)
				if a, ok := root.(*ssa.Alloc); ok {
					if r := t.allocEscapes(a, seen); r != "" {
						return r
					}
					continue
				}
				return "the input (or a sub-slice of it) is stored at " + P.instrPos(u) + " into " + P.terms.of(u.Addr).String()
			}
		case *ssa.MapUpdate:
			if u.Value == v || u.Key == v {
				return "the input is placed in a map at " + P.instrPos(u)
			}
		case *ssa.Return:
			return "the input (or a sub-slice of it) is returned at " + P.instrPos(u)
		case *ssa.MakeClosure:
			return "the input is captured by a closure at " + P.instrPos(u)
		case *ssa.Send:
			return "the input is sent on a channel"
		case ssa.CallInstruction:
			c := u.Common()
			if b, ok := c.Value.(*ssa.Builtin); ok {
				switch b.Name() {
				case "len", "cap", "copy", "print", "println":
					// copy(dst, data) reads; copy(data, ..) writes the input: a write, not aliasing
				case "append":
					if c.Args[0] == v {
						if call, ok := u.(*ssa.Call); ok {
							if r := t.valueEscapes(call, seen); r != "" {
								return r
							}
						}
					}
					// appended elements are copied
				}
				continue
			}
			if c.IsInvoke() {
				k := shortType(c.Value.Type()) + "." + c.Method.Name()
				switch k {
				case "cbor.DecMode.Unmarshal", "cbor.DecMode.Wellformed":
					if len(c.Args) > 1 && c.Args[1] == v {
						return "the input is used as a decode destination"
					}
					continue // copies (A2)
				case "hash.Hash.Write":
					continue
				}
				return "the input is passed to interface method " + k + " at " + P.instrPos(u) + " (no contract)"
			}
			callee := c.StaticCallee()
			if callee == nil {
				return "the input is passed to a dynamic call at " + P.instrPos(u)
			}
			if P.inPkg(callee) {
				for i, a := range c.Args {
					if a == v && i < len(callee.Params) {
						if r := t.paramEscapes(callee.Params[i]); r != "" {
							return r + " (via " + shortFn(callee) + ")"
						}
					}
				}
				continue
			}
			if ct, ok := lookupContract(callee); ok && len(ct.retains) == 0 && ct.aliasArg < 0 {
				continue
			}
			if callee.Pkg != nil && (callee.Pkg.Pkg.Path() == "bytes" || callee.Pkg.Pkg.Path() == "errors" || callee.Pkg.Pkg.Path() == "fmt") {
				continue
			}
			return "the input is passed to " + shortFn(callee) + " at " + P.instrPos(u) + " (no contract)"
		default:
			return fmt.Sprintf("the input reaches an unrecognised use (%T) at %s", ref, P.instrPos(ref))
		}
	}
	return ""
}

// allocEscapes: a local that holds the tainted value: loads of it are tainted.
func (t *taint) allocEscapes(a *ssa.Alloc, seen map[ssa.Value]bool) string {
	if seen[a] {
		return ""
	}
	seen[a] = true
	var visit func(addr ssa.Value) string
	visit = func(addr ssa.Value) string {
		for _, ref := range *addr.Referrers() {
			switch u := ref.(type) {
			case *ssa.UnOp:
				if u.Op == token.MUL {
					if r := t.valueEscapes(u, seen); r != "" {
						return r
					}
				}
			case *ssa.FieldAddr:
				if r := visit(u); r != "" {
					return r
				}
			case *ssa.IndexAddr:
				if r := visit(u); r != "" {
					return r
				}
			case ssa.CallInstruction:
				return "a local holding the input is passed by address at " + t.P.instrPos(u)
			}
		}
		return ""
	}
	return visit(a)
}

// checkReceiverAssigned: on every non-failure exit of decoder D the value of
// the receiver (each field, for struct receivers) has been assigned by D and
// does not read what the receiver held before the call.
func checkReceiverAssigned(r *Report, rule string, D *ssa.Function) {
	P := r.P
	var paths [][]string
	if st, ok := deref(D.Params[0].Type()).Underlying().(*types.Struct); ok {
		for i := 0; i < st.NumFields(); i++ {
			paths = append(paths, []string{st.Field(i).Name()})
		}
	} else {
		paths = [][]string{nil}
	}
	for _, x := range P.factsOf(D).exits {
		if x.kind == exitFailure {
			continue
		}
		var stale []string
		for _, pth := range paths {
			v := P.terms.loadPath(D.Params[0], pth, x.ret)
			old := false
			v.walk(func(u *Term) {
				if u.Op == "load" {
					if rk, _ := termLoc(u.Args[0]); rk == "param:0" {
						old = true
					}
				}
			})
			if old {
				n := "*receiver"
				if len(pth) > 0 {
					n = pth[0]
				}
				stale = append(stale, n)
			}
		}
		r.ob(rule, shortFn(D)+":assigned:"+exitID(P, D, x), D, x.ret, "the receiver is assigned from the input on this exit").check(len(stale) == 0, "assigned", "a non-failure exit leaves "+strings.Join(stale, ", ")+" holding (or depending on) what the destination held before the call")
	}
}

// checkNoWriteBelowOldReceiver: a decoder replaces what its destination
// held; it does not write INTO it. Any write of D's call tree that lands below
// a reference the receiver held before the call (an entry of the map it
// pointed to, an element of a slice it held) makes the outcome depend on the
// destination's history (merge instead of replace) and changes memory the
// caller may share with other values.
func checkNoWriteBelowOldReceiver(r *Report, rule string, D *ssa.Function) {
	P := r.P
	var bad []effWrite
	for _, w := range P.effects.summary(D).writes {
		if w.kind != "param" || w.param != 0 {
			continue
		}
		for _, c := range w.path {
			if c == "[*]" {
				bad = append(bad, w)
				break
			}
		}
	}
	r.ob(rule, shortFn(D)+":replaces", D, nil, "the decoder writes nothing below a map or slice its destination held before the call").check(len(bad) == 0, "no element-level write under the old receiver", "the decoder fills the map / slice the destination already held instead of replacing it: "+writeList(bad, P)+" - a second decode into the same value merges with the first one's content, unvalidated as a whole")
}

func runC19(r *Report, tier string) {
	P := r.P
	r.rule("R19.1", "atomic: in every message/signature/countersignature/header-bucket/bstr-nil decoder (and the methods it forwards its receiver to) each instruction that writes memory rooted at the receiver - store, append/copy on receiver-derived slices, call whose summary writes the receiver - is followed only by success exits (or by the delegated verdict of that very call).")
	r.rule("R19.2", "history-free: the value stored into the receiver has no leaf that reads the receiver's old content; every destination handed to a mode Unmarshal on a decode path is a fresh zero-valued local (judged at the root for helpers that receive a pointer), a value whose type has its own whole-value UnmarshalCBOR, or the bstr/nil tail call.")
	r.rule("R19.3", "no aliasing: in every in-package UnmarshalCBOR and the helpers it passes its input to, the input buffer and its sub-slices are only indexed, measured, compared, handed to copying readers (bytes.*, mode Unmarshal/Wellformed) or to in-package functions under the same rule; never stored, put in a map or composite, captured, returned or used as an append base.")
	r.rule("R19.4", "outputs are fresh: every MarshalCBOR method returns the result of encMode.Marshal or a fresh literal, never memory reachable from the receiver.")
	r.assumes("A1: the CBOR mode writes nothing into the destination before the whole input is known well-formed", "A2: byte strings, text strings and RawMessage are copied out of the input; RawMessage/map destinations that are not fresh zero values would be history channels (A3)", "A4: EncMode.Marshal returns a fresh buffer")

	decs := P.c19Decoders()
	r.floor("R19.1", len(decs), 8, "decoders in the property's quantifier")
	n1 := 0
	for _, D := range decs {
		for _, f := range P.receiverClosure(D) {
			r.analysed(f)
			for _, b := range f.Blocks {
				for _, in := range b.Instrs {
					var ws []Loc
					for _, l := range writesOf(P, in) {
						if l.Kind == "param" && l.Param == 0 {
							ws = append(ws, l)
						}
					}
					if len(ws) == 0 {
						continue
					}
					n1++
					o := r.ob("R19.1", fmt.Sprintf("%s:write:%s#%d", shortFn(f), ws[0], n1), f, in, "a write to the receiver is followed only by success")
					ok, why := P.afterOnlySuccess(f, in)
					o.check(ok, "only success exits are reachable after the write to "+ws[0].String(), why)
				}
			}
		}
	}
	r.floorSoft("R19.1", n1, 10, "receiver writes in the decoders")

	// R19.2 stored values
	for _, D := range decs {
		if _, isStruct := deref(D.Params[0].Type()).Underlying().(*types.Struct); isStruct {
			// structure receivers: whole-value stores and in-place literals
			for _, w := range P.receiverWrites(D) {
				o := r.ob("R19.2", shortFn(D)+":stored:"+shortFn(w.fn), w.fn, w.at, "stored value does not read the receiver's old content")
				bad := ""
				if !w.complete {
					bad = "field-wise update of the receiver (" + strings.Join(w.fields, ", ") + ") leaves the other fields behind"
				}
				w.val.walk(func(u *Term) {
					if u.Op == "load" {
						if rk, _ := termLoc(u.Args[0]); rk == "param:0" {
							bad = u.String()
						}
					}
				})
				o.check(bad == "", "whole-value store of "+truncate(w.val.String(), 120), "stored value depends on the previous content: "+bad)
			}
			continue
		}
		for _, st := range P.receiverStores(D) {
			vt := P.terms.of(st.Val)
			o := r.ob("R19.2", shortFn(D)+":stored:"+shortFn(st.Parent()), st.Parent(), st, "stored value does not read the receiver's old content")
			bad := ""
			vt.walk(func(u *Term) {
				if u.Op == "load" {
					if rk, _ := termLoc(u.Args[0]); rk == "param:0" {
						bad = u.String()
					}
				}
			})
			_, path := P.terms.addrPath(st.Addr)
			if len(path) != 0 {
				bad = "field-wise update of the receiver (" + strings.Join(path, ".") + ") leaves the other fields behind"
			}
			o.check(bad == "", "whole-value store of "+truncate(vt.String(), 120), "stored value depends on the previous content: "+bad)
		}
	}
	// R19.2: no success without assignment: at every non-failure exit of a
	// decoder the receiver no longer holds (or depends on) its old content
	for _, D := range decs {
		checkReceiverAssigned(r, "R19.2", D)
		checkNoWriteBelowOldReceiver(r, "R19.2", D)
	}
	checkDecodeDestinations(r, "R19.2")

	checkInputNotRetained(r, "R19.3")
	checkEncoderOutputFresh(r, "R19.4", "")
}

func truncate(s string, n int) string {
	if len(s) > n {
		return s[:n] + "..."
	}
	return s
}

// freshDestination implements the destination clause of R19.2.
func (P *Prog) freshDestination(f *ssa.Function, at ssa.CallInstruction, dst ssa.Value, isDec map[*ssa.Function]bool, depth int) (bool, string) {
	v := dst
	for {
		if mi, ok := v.(*ssa.MakeInterface); ok {
			v = mi.X
			continue
		}
		if ct, ok := v.(*ssa.ChangeType); ok {
			v = ct.X
			continue
		}
		break
	}
	pt, ok := v.Type().Underlying().(*types.Pointer)
	if !ok {
		return false, "destination is not a pointer"
	}
	// (b) the destination type overwrites itself as a whole
	if n, ok := pt.Elem().(*types.Named); ok && n.Obj().Pkg() != nil && n.Obj().Pkg().Path() == cosePath {
		if m := P.methodOf(n, "UnmarshalCBOR"); m != nil {
			return true, "destination type " + n.Obj().Name() + " has its own whole-value UnmarshalCBOR (checked under R19.1/R19.2)"
		}
	}
	root, path := P.terms.addrPath(v)
	switch rt := root.(type) {
	case *ssa.Alloc:
		cur := P.terms.loadPath(rt, path, at)
		if cur.Op == "zero" || cur.Op == "nil" {
			return true, "fresh zero-valued local " + rt.Comment
		}
		return false, "local destination already holds " + truncate(cur.String(), 100) + " when decoded into"
	case *ssa.Parameter:
		// (c) bstr/nil tail call: receiver of the slot decoder, delegated
		if paramIndex(rt) == 0 && isDec[f] && len(path) == 0 {
			if x := P.exitReturning(f, at); x != nil && x.delegated {
				return true, "bstr/nil tail call: the receiver is replaced by the mode's copy and the verdict is returned unchanged"
			}
			return false, "the decoder decodes straight into its receiver and continues"
		}
		// the label scan's key type: its instances are made by the CBOR library
		// as keys of the fresh local map the scan decodes into
		if _, kt := P.labelScan(); kt != nil && paramIndex(rt) == 0 && f.Signature.Recv() != nil && isNamed(deref(f.Signature.Recv().Type()), cosePath, kt.Obj().Name()) && !kt.Obj().Exported() {
			return true, "receiver of the label-scan key type: created by the library for a fresh local map"
		}
		if depth > 3 {
			return false, "destination passed through too many helpers"
		}
		// judge at the callers
		n := 0
		for _, caller := range P.Funcs {
			for _, ci := range callsIn(caller, nil) {
				if staticCallee(ci) != f {
					continue
				}
				n++
				arg := ci.Common().Args[paramIndex(rt)]
				aroot, apath := P.terms.pointerRoot(arg)
				a, isAlloc := aroot.(*ssa.Alloc)
				if !isAlloc {
					return false, "helper " + shortFn(f) + " is called from " + shortFn(caller) + " with a destination that is not a fresh local"
				}
				cur := P.terms.loadPath(a, append(append([]string{}, apath...), path...), ci)
				if !(cur.Op == "zero" || cur.Op == "nil") {
					return false, "at " + P.instrPos(ci) + " the destination already holds " + truncate(cur.String(), 100)
				}
			}
		}
		if n == 0 {
			return false, "helper with a pointer destination has no in-package caller (exported entry point decoding into caller memory)"
		}
		return true, fmt.Sprintf("destination is a zero-valued field of a fresh local at all %d in-package call sites", n)
	}
	return false, "destination root is " + P.terms.of(root).String()
}

// exitReturning: the exit whose returned error is the value of call at.
func (P *Prog) exitReturning(f *ssa.Function, at ssa.CallInstruction) *exitInfo {
	v, ok := at.(ssa.Value)
	if !ok {
		return nil
	}
	vt := P.terms.of(v)
	for _, x := range P.factsOf(f).exits {
		if x.errTerm != nil && (x.errTerm.eq(vt) || (x.errTerm.Op == "res" && x.errTerm.Args[0].eq(vt))) {
			return x
		}
	}
	return nil
}

func mutC19() []mutant {
	return []mutant{
		{Name: "Sign1 decoder assigns the receiver before parsing the headers", File: "sign1.go", Quick: true, Rule: "R19.1",
			Old: "\tif err := msg.Headers.UnmarshalFromRaw(); err != nil {\n\t\treturn err\n\t}\n\n\t*m = msg\n\treturn nil", New: "\t*m = msg\n\tif err := m.Headers.UnmarshalFromRaw(); err != nil {\n\t\treturn err\n\t}\n\treturn nil"},
		{Name: "bstr/nil decoder keeps a sub-slice of the input for short strings", File: "cbor.go", Quick: true, Rule: "R19.3",
			Old: "\treturn decModeWithTagsForbidden.Unmarshal(data, (*[]byte)(s))", New: "\tif data[0] < 0x58 {\n\t\t*s = data[1:]\n\t\treturn nil\n\t}\n\treturn decModeWithTagsForbidden.Unmarshal(data, (*[]byte)(s))"},
		{Name: "unprotected decoder fills the map its destination held, through a helper", File: "headers.go", Quick: true, Rule: "R19.2", Key: "replaces",
			Old: "\t*h = header\n\treturn nil\n}", New: "\tfillHeader((*map[any]any)(h), header)\n\treturn nil\n}\n\nfunc fillHeader(dst *map[any]any, decoded map[any]any) {\n\tif len(*dst) == 0 {\n\t\t*dst = decoded\n\t\treturn\n\t}\n\tfor k, v := range decoded {\n\t\t(*dst)[k] = v\n\t}\n}"},
		{Name: "unprotected decoder merges into an existing map", File: "headers.go", Rule: "R19.2",
			Old: "\theader := make(map[any]any, len(partialHeader))\n", New: "\theader := map[any]any(*h)\n\tif header == nil {\n\t\theader = make(map[any]any, len(partialHeader))\n\t}\n"},
		{Name: "Signature decoder assigns the signature before parsing headers", File: "sign.go", Rule: "R19.1",
			Old: "\tif err := sig.Headers.UnmarshalFromRaw(); err != nil {\n\t\treturn err\n\t}\n\n\t*s = sig", New: "\ts.Signature = raw.Signature\n\tif err := sig.Headers.UnmarshalFromRaw(); err != nil {\n\t\treturn err\n\t}\n\n\t*s = sig"},
		{Name: "Signature decoder decodes straight into the receiver's raw fields", File: "sign.go", Rule: "R19.2",
			Old: "\tvar raw signature\n\tif err := decModeWithTagsForbidden.Unmarshal(data, &raw); err != nil {\n\t\treturn err\n\t}\n\tif len(raw.Signature) == 0 {", New: "\tvar raw signature\n\traw.Protected = s.Headers.RawProtected\n\tif err := decModeWithTagsForbidden.Unmarshal(data, &raw); err != nil {\n\t\treturn err\n\t}\n\tif len(raw.Signature) == 0 {"},
		{Name: "SignMessage decoder reuses the destination's signature slice", File: "sign.go", Rule: "R19.1",
			Old: "\tsignatures := make([]*Signature, 0, len(raw.Signatures))\n\tfor _, sigCBOR := range raw.Signatures {\n\t\tsig := &Signature{}", New: "\tsignatures := m.Signatures[:0]\n\tfor _, sigCBOR := range raw.Signatures {\n\t\tsig := &Signature{}"},
		{Name: "protected decoder keeps the byte-string content it received", File: "headers.go", Rule: "R19.3",
			Old: "func (discardedCBORMessage) UnmarshalCBOR(data []byte) error {\n\treturn nil", New: "func (discardedCBORMessage) UnmarshalCBOR(data []byte) error {\n\tsignaturePrefix = data\n\treturn nil"},
		{Name: "UnprotectedHeader.MarshalCBOR returns a shared empty-map literal", File: "headers.go", Rule: "R19.4",
			Old: "\tif len(h) == 0 {\n\t\treturn []byte{0xa0}, nil\n\t}", New: "\tif len(h) == 0 {\n\t\treturn signaturePrefix, nil\n\t}"},
	}
}

// checkInputNotRetained (R19.3; shared with C02/C03: the protected bytes a
// verifier later reads are the decoder's own copy of the wire bytes, not a
// window into the caller's buffer).
func checkInputNotRetained(r *Report, rule string) {
	P := r.P
	// R19.3
	tt := &taint{P: P, memo: map[*ssa.Parameter]string{}, busy: map[*ssa.Parameter]bool{}}
	n3 := 0
	for _, fn := range P.methodsNamed("UnmarshalCBOR", "") {
		if len(fn.Params) != 2 || !isByteSlice(fn.Params[1].Type()) {
			continue
		}
		if isNamed(deref(fn.Signature.Recv().Type()), cosePath, "Key") {
			continue // outside the property's quantifier (documented)
		}
		n3++
		o := r.ob(rule, shortFn(fn)+":input", fn, nil, "the input buffer does not escape")
		why := tt.paramEscapes(fn.Params[1])
		o.check(why == "", "input only indexed/measured/compared/copied", why)
	}
	r.floor(rule, n3, 10, "UnmarshalCBOR methods")
	r.paths += tt.visited
	// RawMessage values handed out by the mode are copies, but the wire struct
	// slots must be RawMessage / the bstr-nil type (not aliases into data)
	for _, w := range P.wireStructs() {
		st := w.Underlying().(*types.Struct)
		for i := 0; i < st.NumFields(); i++ {
			f := st.Field(i)
			if f.Name() == "_" {
				continue
			}
			o := r.ob(rule, w.Obj().Name()+"."+f.Name()+":slot-type", nil, nil, "wire-struct slot type is one the mode fills with a copy")
			ts := shortType(f.Type())
			ok := ts == "cbor.RawMessage" || ts == "[]cbor.RawMessage" || ts == shortType(P.bstrNilType())
			o.check(ok, ts, "slot type "+ts+" is not RawMessage / []RawMessage / the bstr-nil type")
		}
	}

}

// checkEncoderOutputFresh (R19.4; shared with C14 for the COSE_Key encoder):
// only == "" covers every MarshalCBOR method, otherwise the named type's.
func checkEncoderOutputFresh(r *Report, rule, only string) {
	P := r.P
	// R19.4
	n4 := 0
	for _, fn := range P.methodsNamed("MarshalCBOR", "") {
		if only != "" && !isNamed(deref(fn.Signature.Recv().Type()), cosePath, only) {
			continue
		}
		for _, x := range P.factsOf(fn).exits {
			if x.kind == exitFailure {
				continue
			}
			n4++
			o := r.ob(rule, shortFn(fn)+":exit:"+exitID(P, fn, x), fn, x.ret, "returned bytes are fresh memory")
			var bad []string
			for _, l := range P.effects.originsOf(x.results[0], nil, 0) {
				if l.Kind != "fresh" {
					bad = append(bad, l.String())
				}
			}
			o.check(len(bad) == 0, "origins: fresh ("+truncate(x.results[0].String(), 80)+")", "returned bytes may alias "+strings.Join(bad, ", "))
		}
	}
	if only == "" {
		r.floor(rule, n4, 8, "MarshalCBOR success exits")
	} else {
		r.floor(rule, n4, 1, "MarshalCBOR success exits of "+only)
	}
}

// checkDecodeDestinations (R19.2, second half; shared with C07: a message
// decoded earlier keeps the bytes it captured when another one is decoded).
func checkDecodeDestinations(r *Report, rule string) {
	P := r.P
	decs := P.c19Decoders()
	// R19.2 decode destinations in the decoder family + bucket decoders
	scope := map[*ssa.Function]bool{}
	for _, D := range decs {
		for f := range P.reachable([]*ssa.Function{D}) {
			scope[f] = true
		}
	}
	var sfs []*ssa.Function
	for f := range scope {
		sfs = append(sfs, f)
	}
	sort.Slice(sfs, func(i, j int) bool { return sfs[i].String() < sfs[j].String() })
	nd := 0
	isDec := map[*ssa.Function]bool{}
	for _, D := range decs {
		isDec[D] = true
	}
	for _, f := range sfs {
		for _, ci := range callsIn(f, nil) {
			c := ci.Common()
			if !(c.IsInvoke() && c.Method.Name() == "Unmarshal" && isCBORMode(c.Value.Type()) && len(c.Args) == 2) {
				continue
			}
			nd++
			r.sites++
			dst := c.Args[1]
			dt := P.terms.of(dst)
			o := r.ob(rule, fmt.Sprintf("%s:decode-into:%s#%d", shortFn(f), truncate(dt.String(), 60), nd), f, ci, "decode destination is fresh, self-overwriting or the bstr/nil tail call")
			ok, why := P.freshDestination(f, ci, dst, isDec, 0)
			o.check(ok, why, why)
		}
	}
	r.floorSoft(rule, nd, 10, "mode Unmarshal sites on decode paths")
}

package main

// E8: path enumeration. A region of a function's CFG is unfolded into its
// acyclic paths; along each path branch conditions and result terms are
// evaluated path-sensitively (phi nodes resolve to the edge taken). Rules
// lower switches / if-chains to decision tables from these paths.

import (
	"go/types"
	"strconv"
	"strings"

	"golang.org/x/tools/go/ssa"
)

type Path struct {
	fn     *ssa.Function
	blocks []*ssa.BasicBlock
	eng    *termEngine
	conds  []Fact // normalised branch conditions along the path, in order
	condAt []ssa.Instruction
	// end: the Return reached, or nil when the path stopped at a stop block
	ret  *ssa.Return
	stop *ssa.BasicBlock
	// resOv: results of a path continued through a delegated helper (deepPaths)
	resOv []*Term
	via   []*ssa.Function
	// segs: the helper paths a deep path continues through, each with the
	// substitution of the helper's parameters into the root function's frame
	segs []pathSeg
}

type pathSeg struct {
	p *Path
	m map[string]*Term
}

// instrsDeep iterates the instructions of the path and of the helper paths it
// continues through; eng evaluates values of that segment, m maps the
// segment's parameters into the root frame (nil for the root segment).
func (p *Path) instrsDeep(f func(in ssa.Instruction, eng *termEngine, m map[string]*Term)) {
	// the delegating calls themselves are represented by the segments
	expanded := func(in ssa.Instruction) bool {
		ci, ok := in.(ssa.CallInstruction)
		if !ok || len(p.segs) == 0 {
			return false
		}
		c := ci.Common().StaticCallee()
		for _, sg := range p.segs {
			if c != nil && sg.p.fn == c {
				return true
			}
		}
		return false
	}
	for _, b := range p.blocks {
		for _, in := range b.Instrs {
			if !expanded(in) {
				f(in, p.eng, nil)
			}
		}
	}
	for _, sg := range p.segs {
		for _, b := range sg.p.blocks {
			for _, in := range b.Instrs {
				if !expanded(in) {
					f(in, sg.p.eng, sg.m)
				}
			}
		}
	}
}

func (p *Path) results() []*Term {
	if p.resOv != nil {
		return p.resOv
	}
	if p.ret == nil {
		return nil
	}
	out := make([]*Term, len(p.ret.Results))
	for i, r := range p.ret.Results {
		out[i] = p.eng.of(r)
	}
	return out
}

func (p *Path) has(f Fact) bool {
	for _, c := range p.conds {
		if c.String() == f.String() {
			return true
		}
	}
	return false
}

func (p *Path) contains(b *ssa.BasicBlock) bool {
	for _, x := range p.blocks {
		if x == b {
			return true
		}
	}
	return false
}

// instrs iterates the instructions along the path in execution order.
func (p *Path) instrs(f func(ssa.Instruction)) {
	for _, b := range p.blocks {
		for _, in := range b.Instrs {
			f(in)
		}
	}
}

const maxPaths = 20000

// enumPaths unfolds the CFG from start. A path ends at a Return, at a block
// for which isStop is true (not extended further; stop recorded), or when it
// would revisit a block (back edge: path dropped unless keepLoops, in which
// case it ends there with stop = the revisited block).
func (P *Prog) enumPaths(fn *ssa.Function, start *ssa.BasicBlock, isStop func(*ssa.BasicBlock) bool, keepLoops bool) []*Path {
	var out []*Path
	var cur []*ssa.BasicBlock
	on := map[*ssa.BasicBlock]bool{}
	var rec func(b *ssa.BasicBlock)
	finish := func(ret *ssa.Return, stop *ssa.BasicBlock) {
		if len(out) >= maxPaths {
			undecidedf("path enumeration: more than %d paths in %s", maxPaths, shortFn(fn))
		}
		blocks := append([]*ssa.BasicBlock{}, cur...)
		p := &Path{fn: fn, blocks: blocks, ret: ret, stop: stop}
		p.eng = P.terms.onPath(blocks)
		for i := 0; i+1 < len(blocks); i++ {
			b := blocks[i]
			if iff, ok := b.Instrs[len(b.Instrs)-1].(*ssa.If); ok && b.Succs[0] != b.Succs[1] {
				p.conds = append(p.conds, normFact(p.eng.of(iff.Cond), blocks[i+1] == b.Succs[0]))
				p.condAt = append(p.condAt, iff)
			}
		}
		if stop != nil && len(blocks) > 0 {
			b := blocks[len(blocks)-1]
			if iff, ok := b.Instrs[len(b.Instrs)-1].(*ssa.If); ok && b.Succs[0] != b.Succs[1] {
				p.conds = append(p.conds, normFact(p.eng.of(iff.Cond), stop == b.Succs[0]))
				p.condAt = append(p.condAt, iff)
			}
		}
		out = append(out, p)
	}
	rec = func(b *ssa.BasicBlock) {
		cur = append(cur, b)
		on[b] = true
		defer func() { cur = cur[:len(cur)-1]; delete(on, b) }()
		if len(b.Instrs) > 0 {
			if r, ok := b.Instrs[len(b.Instrs)-1].(*ssa.Return); ok {
				finish(r, nil)
				return
			}
			if _, ok := b.Instrs[len(b.Instrs)-1].(*ssa.Panic); ok {
				return
			}
		}
		for _, s := range b.Succs {
			if isStop != nil && isStop(s) {
				finish(nil, s)
				continue
			}
			if on[s] {
				if keepLoops {
					finish(nil, s)
				}
				continue
			}
			rec(s)
		}
	}
	rec(start)
	return out
}

// allPaths: entry-to-return paths of a loop-free view of fn (back edges cut).
func (P *Prog) allPaths(fn *ssa.Function) []*Path {
	return P.enumPaths(fn, fn.Blocks[0], nil, false)
}

// deepPaths: the feasible entry-to-return paths of fn where a path that hands
// through the whole result tuple of one in-package helper call (`return
// h(...)`) is continued through the helper's own paths: conditions and
// results of the helper are substituted with the call's arguments. Extracting
// the tail of a function into a helper leaves the set of deep paths unchanged.
func (P *Prog) deepPaths(fn *ssa.Function) []*Path {
	return P.deepPathsD(fn, 0, map[*ssa.Function]bool{fn: true})
}

func (P *Prog) deepPathsD(fn *ssa.Function, depth int, on map[*ssa.Function]bool) []*Path {
	var out []*Path
	for _, p := range P.allPaths(fn) {
		if !p.feasible() {
			continue
		}
		res := p.results()
		var call *Term
		if depth < 3 && len(res) >= 1 {
			all := true
			for i, r := range res {
				var c *Term
				switch {
				case len(res) == 1 && r.Op == "call":
					c = r
				case r.Op == "res" && r.S == strconv.Itoa(i) && r.Args[0].Op == "call":
					c = r.Args[0]
				}
				if c == nil || (call != nil && !c.eq(call)) {
					all = false
					break
				}
				call = c
			}
			if !all {
				call = nil
			}
		}
		var h *ssa.Function
		if call != nil {
			h = P.calleeOfTerm(call)
			if h != nil && (!P.inPkg(h) || on[h] || h.Blocks == nil || h.Signature.Results().Len() != len(res)) {
				h = nil
			}
		}
		if h == nil {
			out = append(out, p)
			continue
		}
		m := map[string]*Term{}
		for i, a := range call.Args {
			m[strconv.Itoa(i)] = a
		}
		on[h] = true
		for _, q := range P.deepPathsD(h, depth+1, on) {
			np := *p
			np.conds = append(append([]Fact{}, p.conds...), nil...)
			np.condAt = append([]ssa.Instruction{}, p.condAt...)
			for i, c := range q.conds {
				np.conds = append(np.conds, normFact(c.Pred.subst(m), c.Val))
				if i < len(q.condAt) {
					np.condAt = append(np.condAt, q.condAt[i])
				} else {
					np.condAt = append(np.condAt, nil)
				}
			}
			for i, r := range q.results() {
				np.resOv = append(np.resOv, r.subst(m))
				// the helper's result on this path is what the caller's own
				// conditions about the call speak of
				if (r.Op == "nil" || r.Op == "const") && i < len(res) {
					np.conds = append(np.conds, normFact(&Term{Op: "binop", S: "==", Args: []*Term{res[i], r}}, true))
					np.condAt = append(np.condAt, nil)
				}
			}
			np.via = append(append([]*ssa.Function{}, p.via...), h)
			np.via = append(np.via, q.via...)
			np.segs = append(append([]pathSeg{}, p.segs...), pathSeg{p: q, m: m})
			for _, sg := range q.segs {
				cm := map[string]*Term{}
				for k, v := range sg.m {
					cm[k] = v.subst(m)
				}
				np.segs = append(np.segs, pathSeg{p: sg.p, m: cm})
			}
			if np.feasible() {
				out = append(out, &np)
			}
		}
		delete(on, h)
	}
	return out
}

// deepViews: deepPaths of fn with the path conditions additionally expanded
// through the in-package helpers whose outcome they test (one view per
// combination of helper paths); calls of the functions `keep` accepts stay as
// they are. Splitting a check into helpers leaves the views' conditions
// unchanged.
func (P *Prog) deepViews(fn *ssa.Function, keep func(*ssa.Function) bool) []*Path {
	var out []*Path
	for _, p := range P.deepPaths(fn) {
		alts := P.expandCondsF(p.conds, 0, keep)
		if len(alts) > 4096 {
			out = append(out, p)
			continue
		}
		for _, alt := range alts {
			q := *p
			q.conds = P.decomposeGates(alt)
			if q.feasible() {
				out = append(out, &q)
			}
		}
	}
	return out
}

// decomposeGates: conditions that are boolean combinations (a && b, a || b
// arriving as gate terms, e.g. after a boolean argument was substituted into
// a helper's condition) are followed by the conditions they determine.
func (P *Prog) decomposeGates(conds []Fact) []Fact {
	out := make([]Fact, 0, len(conds))
	seen := map[string]bool{}
	for _, c := range conds {
		if !seen[c.String()] {
			seen[c.String()] = true
			out = append(out, c)
		}
		hasMinMax := c.Pred.Op == "binop" && len(c.Pred.Args) == 2 && (c.Pred.Args[0].Op == "max" || c.Pred.Args[0].Op == "min" || c.Pred.Args[1].Op == "max" || c.Pred.Args[1].Op == "min")
		if c.Pred.Op != "gate" && !hasMinMax {
			continue
		}
		tmp := factSet{}
		P.addEdgeFacts(tmp, c.Pred, c.Val, nil)
		for _, k := range tmp.sorted() {
			f := tmp[k]
			if !seen[f.String()] {
				seen[f.String()] = true
				out = append(out, f)
			}
		}
	}
	return out
}

// feasible reports whether the path's branch conditions are free of the
// contradictions the enumeration can introduce by ignoring correlations: the
// same predicate with both polarities, and for len(...) terms (which are
// never negative) the combinations len==0 ∧ 0<len, len!=0 ∧ !(0<len).
func (p *Path) feasible() bool {
	pol := map[string]bool{}
	for _, c := range p.conds {
		k := c.Pred.String()
		if v, ok := pol[k]; ok && v != c.Val {
			return false
		}
		pol[k] = c.Val
	}
	// a nil slice / map has length zero
	for _, c := range p.conds {
		if !c.Val || c.Pred.Op != "binop" || c.Pred.S != "==" {
			continue
		}
		for i := 0; i < 2; i++ {
			if c.Pred.Args[i].Op != "nil" {
				continue
			}
			l := tLen(c.Pred.Args[1-i])
			if v, ok := pol[tEq(tInt(0), l).String()]; ok && !v {
				return false
			}
			if v, ok := pol[tLt(tInt(0), l).String()]; ok && v {
				return false
			}
		}
	}
	// one term equal to two different constants
	eqc := map[string]string{}
	for _, c := range p.conds {
		if !c.Val || c.Pred.Op != "binop" || c.Pred.S != "==" {
			continue
		}
		for i := 0; i < 2; i++ {
			if k, o := c.Pred.Args[i], c.Pred.Args[1-i]; k.Op == "const" && o.Op != "const" {
				if prev, ok := eqc[o.String()]; ok && prev != k.S {
					return false
				}
				eqc[o.String()] = k.S
			}
		}
	}
	for _, c := range p.conds {
		if c.Pred.Op == "const" && (c.Pred.S == "true" || c.Pred.S == "false") && (c.Pred.S == "true") != c.Val {
			return false // a branch on a value that is constant on this path
		}
		if c.Pred.Op != "binop" {
			continue
		}
		a, b := c.Pred.Args[0], c.Pred.Args[1]
		// comparisons between foldable integers (len of nil / of a literal)
		if x, ok := foldInt(a); ok {
			if y, ok := foldInt(b); ok {
				var truth, known bool
				switch c.Pred.S {
				case "==":
					truth, known = x == y, true
				case "<":
					truth, known = x < y, true
				case "<=":
					truth, known = x <= y, true
				}
				if known && truth != c.Val {
					return false
				}
			}
		}
		// 0 < len(X)
		if c.Pred.S == "<" && a.Op == "const" && a.S == "0" && b.Op == "len" {
			eq0 := tEq(T("const", "0"), b).String()
			if v, ok := pol[eq0]; ok {
				if c.Val && v { // 0<len and len==0
					return false
				}
				if !c.Val && !v { // len<=0 and len!=0
					return false
				}
			}
		}
	}
	return true
}

// constTable lowers a function whose body is a switch over parameter pi
// (if-chain or switch) returning constants to a table: case constant ->
// returned constant term (string form); "default" for the path on which every
// comparison is false.
func (P *Prog) constTable(fn *ssa.Function, pi, ri int) (map[string]string, string) {
	out := map[string]string{}
	pt := T("param", itoa(int64(pi)))
	// a lookup in a constant package-level map literal is the same table
	if ps := P.allPaths(fn); len(ps) == 1 && len(ps[0].conds) == 0 && ri < len(ps[0].results()) {
		rt := ps[0].results()[ri]
		if rt.Op == "lookup" && len(rt.Args) == 2 && rt.Args[1].eq(pt) && rt.Args[0].Op == "load" && rt.Args[0].Args[0].Op == "global" {
			if tab, ok := P.constGlobalMap(rt.Args[0].Args[0].S); ok {
				for k, v := range tab {
					out[k] = v
				}
				out["default"] = "0"
				if rs := fn.Signature.Results(); ri < rs.Len() {
					if b, isB := rs.At(ri).Type().Underlying().(*types.Basic); !isB || b.Info()&types.IsNumeric == 0 {
						out["default"] = "zero"
					}
				}
				return out, ""
			}
		}
	}
	// a scan of a constant package-level list of groups: `for i := range G {
	// if slices.Contains(G[i].keys, x) { return G[i].value } }; return D`
	if tab := P.scanTable(fn, pi, ri); tab != nil {
		return tab, ""
	}
	// the comma-ok form: `if v, ok := table[x]; ok { return v }; return D`
	if ps := P.allPaths(fn); len(ps) == 2 {
		var hit, miss *Path
		var lk *Term
		for _, p := range ps {
			if len(p.conds) != 1 || ri >= len(p.results()) {
				continue
			}
			c := p.conds[0]
			if c.Pred.Op == "res" && c.Pred.S == "1" && len(c.Pred.Args) == 1 && c.Pred.Args[0].Op == "lookup" && c.Pred.Args[0].S == "ok" {
				if c.Val {
					hit, lk = p, c.Pred.Args[0]
				} else {
					miss = p
				}
			}
		}
		if hit != nil && miss != nil && len(lk.Args) == 2 && lk.Args[1].eq(pt) && lk.Args[0].Op == "load" && lk.Args[0].Args[0].Op == "global" &&
			miss.conds[0].Pred.Args[0].eq(lk) && hit.results()[ri].eq(&Term{Op: "res", S: "0", Args: []*Term{lk}}) {
			if tab, ok := P.constGlobalMap(lk.Args[0].Args[0].S); ok {
				for k, v := range tab {
					out[k] = v
				}
				out["default"] = miss.results()[ri].String()
				return out, ""
			}
		}
	}
	for _, p := range P.allPaths(fn) {
		if !p.feasible() {
			continue
		}
		res := p.results()
		if ri >= len(res) {
			return nil, "result index out of range"
		}
		val := res[ri].String()
		key := "default"
		for _, c := range p.conds {
			if c.Pred.Op != "binop" || c.Pred.S != "==" {
				return nil, "condition " + c.String() + " is not a comparison with a constant"
			}
			var k *Term
			switch {
			case c.Pred.Args[0].eq(pt):
				k = c.Pred.Args[1]
			case c.Pred.Args[1].eq(pt):
				k = c.Pred.Args[0]
			default:
				return nil, "condition " + c.String() + " does not test the parameter"
			}
			if c.Val {
				key = k.String()
			}
		}
		if old, ok := out[key]; ok && old != val {
			return nil, "case " + key + " returns both " + old + " and " + val
		}
		out[key] = val
	}
	return out, ""
}

// foldInt evaluates integer terms that are constant on a path: constants,
// len(nil), len(arr literal).
func foldInt(t *Term) (int64, bool) {
	if n, ok := termConstInt(t); ok {
		return n, true
	}
	if t.Op == "len" && len(t.Args) == 1 {
		switch t.Args[0].Op {
		case "nil":
			return 0, true
		case "arr":
			return int64(len(t.Args[0].Args)), true
		}
	}
	return 0, false
}

// decideCond evaluates a normalised condition under what is known on a path:
// the path's own conditions, extra assumptions, and constant folding.
func decideCond(c Fact, known factSet) (truth bool, ok bool) {
	if v, has := known[Fact{c.Pred, true}.String()]; has && v.Val {
		return c.Val, true
	}
	if _, has := known[Fact{c.Pred, false}.String()]; has {
		return !c.Val, true
	}
	t := c.Pred
	switch {
	case t.Op == "const" && (t.S == "true" || t.S == "false"):
		return (t.S == "true") == c.Val, true
	case t.Op == "binop" && len(t.Args) == 2:
		a, b := t.Args[0], t.Args[1]
		if x, okx := foldInt(a); okx {
			if y, oky := foldInt(b); oky {
				switch t.S {
				case "==":
					return (x == y) == c.Val, true
				case "<":
					return (x < y) == c.Val, true
				case "<=":
					return (x <= y) == c.Val, true
				}
			}
		}
		if t.S == "==" && a.Op == "const" && b.Op == "const" {
			return (a.S == b.S) == c.Val, true
		}
	}
	return false, false
}

// evalCalls rewrites calls of in-package, non-recursive single-result
// functions inside t by their result on the callee paths that are consistent
// with what is known (path conditions + assume); when exactly one result
// remains the call disappears from the term.
func (P *Prog) evalCalls(p *Path, t *Term, assume factSet, depth int) *Term {
	if depth > 3 {
		return t
	}
	known := factSet{}
	if p != nil {
		for _, c := range p.conds {
			known.add(c)
		}
	}
	for _, f := range assume {
		known.add(f)
	}
	return t.rewrite(func(u *Term) *Term {
		ri := 0
		outer := u
		if u.Op == "res" && len(u.Args) == 1 && u.Args[0].Op == "call" {
			ri = int(mustAtoi(u.S))
			u = u.Args[0]
		}
		if u.Op != "call" {
			return nil
		}
		fn := P.calleeOfTerm(u)
		if fn == nil || ri >= fn.Signature.Results().Len() || (outer == u && fn.Signature.Results().Len() != 1) {
			return nil
		}
		m := map[string]*Term{}
		for i, a := range u.Args {
			m[itoa(int64(i))] = a
		}
		uniq := map[string]*Term{}
		for _, cp := range P.allPaths(fn) {
			if !cp.feasible() {
				continue
			}
			consistent := true
			for _, c := range cp.conds {
				sc := Fact{normCond(c.Pred.subst(m)), c.Val}
				// re-normalise negations that substitution may expose
				sc = normFact(sc.Pred, sc.Val)
				if truth, ok := decideCond(sc, known); ok && !truth {
					consistent = false
					break
				}
			}
			if !consistent {
				continue
			}
			res := cp.results()[ri].subst(m)
			if res.contains(func(w *Term) bool { return w.Op == "call" && w.S == u.S }) {
				return nil // recursive
			}
			res = P.evalCalls(p, res, assume, depth+1)
			uniq[res.String()] = res
		}
		if len(uniq) == 1 {
			for _, r := range uniq {
				return r
			}
		}
		return nil
	})
}

// expandBoolCalls: conditions of the form f(args) == v, with f an in-package
// function returning a single bool, are replaced by the conditions of each
// feasible path of f that returns v (constant) or a computed boolean (then
// that boolean == v is added); one condition set per combination.
func (P *Prog) expandBoolCalls(conds []Fact, depth int) [][]Fact {
	alts := [][]Fact{{}}
	for _, c := range conds {
		var sub [][]Fact
		if c.Pred.Op == "call" && depth < 3 {
			if g := P.calleeOfTerm(c.Pred); g != nil && g.Signature.Results().Len() == 1 && boolResultIndex(g) == 0 {
				m := map[string]*Term{}
				for i, a := range c.Pred.Args {
					m[itoa(int64(i))] = a
				}
				for _, gp := range P.pathsForExpansion(g) {
					if !gp.feasible() {
						continue
					}
					rt := gp.results()[0]
					var set []Fact
					for _, gc := range gp.conds {
						set = append(set, normFact(gc.Pred.subst(m), gc.Val))
					}
					switch {
					case rt.Op == "const" && (rt.S == "true") == c.Val:
					case rt.Op == "const":
						continue
					default:
						set = append(set, normFact(rt.subst(m), c.Val))
					}
					for _, e := range P.expandBoolCalls(set, depth+1) {
						sub = append(sub, e)
					}
				}
			}
		}
		if sub == nil {
			sub = [][]Fact{{c}}
		}
		var next [][]Fact
		for _, a := range alts {
			for _, s := range sub {
				next = append(next, append(append([]Fact{}, a...), s...))
			}
		}
		alts = next
		if len(alts) > 512 {
			break
		}
	}
	return alts
}

// expandConds generalises expandBoolCalls: conditions that state the success
// of an in-package helper - f(args) == v for a boolean f, res<k>(f(args)) for
// a boolean result, f(args) == nil / res<k>(f(args)) == nil for an error
// result - are kept and extended by the conditions of each feasible path of
// the helper that yields that outcome (parameters substituted), recursively.
// This is what makes a rule indifferent to a block having been extracted
// into a helper. Helpers with many paths are not expanded.
func (P *Prog) expandConds(conds []Fact, depth int) [][]Fact {
	return P.expandCondsF(conds, depth, nil)
}

// expandCondsF: expandConds leaving calls of the functions `keep` accepts as
// they are (rule vocabulary such as the label normaliser or value predicates).
func (P *Prog) expandCondsF(conds []Fact, depth int, keep func(*ssa.Function) bool) [][]Fact {
	alts := [][]Fact{{}}
	for ci, c := range conds {
		var sub [][]Fact
		if keep != nil && condCallee(P, c) != nil && keep(condCallee(P, c)) {
			sub = [][]Fact{{c}}
		} else {
			sub = P.expandOneF(c, depth, keep)
		}
		var next [][]Fact
		for _, a := range alts {
			for _, s := range sub {
				next = append(next, append(append([]Fact{}, a...), s...))
			}
		}
		alts = next
		if len(alts) > 4096 {
			// give up expanding further conditions
			for i := range alts {
				alts[i] = append(alts[i], conds[ci+1:]...)
			}
			break
		}
	}
	return alts
}

// condCallee: the in-package function whose result condition c tests.
func condCallee(P *Prog, c Fact) *ssa.Function {
	t := c.Pred
	switch {
	case t.Op == "call":
		return P.calleeOfTerm(t)
	case t.Op == "res" && len(t.Args) == 1 && t.Args[0].Op == "call":
		return P.calleeOfTerm(t.Args[0])
	case t.Op == "binop" && t.S == "==" && len(t.Args) == 2:
		for i := 0; i < 2; i++ {
			if t.Args[i].Op != "nil" {
				continue
			}
			o := t.Args[1-i]
			if o.Op == "call" {
				return P.calleeOfTerm(o)
			}
			if o.Op == "res" && len(o.Args) == 1 && o.Args[0].Op == "call" {
				return P.calleeOfTerm(o.Args[0])
			}
		}
	}
	return nil
}

func (P *Prog) expandOne(c Fact, depth int) [][]Fact { return P.expandOneF(c, depth, nil) }

func (P *Prog) expandOneF(c Fact, depth int, keepF func(*ssa.Function) bool) [][]Fact {
	keep := [][]Fact{{c}}
	if depth > 2 {
		return keep
	}
	var call *Term
	idx := 0
	mode := "" // "bool" | "err"
	t := c.Pred
	switch {
	case t.Op == "call":
		call, mode = t, "bool"
	case t.Op == "res" && len(t.Args) == 1 && t.Args[0].Op == "call":
		call, mode = t.Args[0], "bool"
		idx = int(mustAtoi(t.S))
	case t.Op == "binop" && t.S == "==" && len(t.Args) == 2:
		for i := 0; i < 2; i++ {
			if t.Args[i].Op != "nil" {
				continue
			}
			o := t.Args[1-i]
			if o.Op == "call" {
				call, mode = o, "err"
			} else if o.Op == "res" && len(o.Args) == 1 && o.Args[0].Op == "call" {
				call, mode = o.Args[0], "err"
				idx = int(mustAtoi(o.S))
			}
		}
	}
	if call == nil {
		return keep
	}
	g := P.calleeOfTerm(call)
	if g == nil {
		return keep
	}
	res := g.Signature.Results()
	if idx >= res.Len() {
		return keep
	}
	switch mode {
	case "bool":
		if b, ok := res.At(idx).Type().Underlying().(interface{ Kind() types.BasicKind }); !ok || b.Kind() != types.Bool {
			return keep
		}
	case "err":
		if idx != errIndex(g) || !c.Val {
			return keep
		}
	}
	m := map[string]*Term{}
	for i, a := range call.Args {
		m[itoa(int64(i))] = a
	}
	paths := P.allPaths(g)
	if len(paths) > 256 {
		return keep
	}
	var out [][]Fact
	for _, gp := range paths {
		if !gp.feasible() {
			continue
		}
		rs := gp.results()
		var set []Fact
		for _, gc := range gp.conds {
			set = append(set, normFact(gc.Pred.subst(m), gc.Val))
		}
		switch mode {
		case "bool":
			rt := rs[idx]
			switch {
			case rt.Op == "const" && (rt.S == "true") == c.Val:
			case rt.Op == "const":
				continue
			default:
				set = append(set, normFact(rt.subst(m), c.Val))
			}
		case "err":
			fs := factSet{}
			for _, gc := range gp.conds {
				fs.add(gc)
			}
			k, deleg := P.classifyErr(rs[idx], fs)
			if k == exitFailure {
				continue
			}
			if deleg || k == exitMixed {
				// with the call's arguments in place the returned error may be
				// decided after all (an error value handed in by the caller)
				if k2, _ := P.classifyErr(rs[idx].subst(m), factSet{}); k2 == exitFailure {
					continue
				}
				set = append(set, normFact(&Term{Op: "binop", S: "==", Args: []*Term{rs[idx].subst(m), tNil()}}, true))
			}
		}
		// the other results of the same call on this path, when constant
		if res.Len() > 1 {
			for j := range rs {
				if j == idx {
					continue
				}
				if v := rs[j].subst(m); v.Op == "const" {
					set = append(set, normFact(&Term{Op: "binop", S: "==", Args: []*Term{{Op: "res", S: itoa(int64(j)), Args: []*Term{call}}, v}}, true))
				}
			}
		}
		for _, e := range P.expandCondsF(set, depth+1, keepF) {
			out = append(out, append([]Fact{c}, e...))
		}
		if len(out) > 1024 {
			return keep
		}
	}
	if len(out) == 0 {
		return keep
	}
	return out
}

func mustAtoi(s string) int64 {
	n, _ := termConstInt(T("const", s))
	return n
}

// resolveValue inlines the outermost helper call of a value term repeatedly
// (helpers with a single success result), so that `res<0>(helper(x))` is
// compared as what the helper computes.
func (P *Prog) resolveValue(t *Term) *Term {
	for i := 0; i < 3; i++ {
		n := P.expandOuter(t)
		if n == t || n.eq(t) {
			return t
		}
		t = n
	}
	return t
}

// pathCase: one feasible success path of a function with its conditions
// expanded through helper calls.
type pathCase struct {
	p     *Path
	conds []Fact
	fs    factSet
}

// successCases enumerates the success paths of fn (error result not a failure)
// and expands their conditions (expandConds); contradictory sets are dropped.
func (P *Prog) successCases(fn *ssa.Function) []pathCase {
	var out []pathCase
	ei := errIndex(fn)
	for _, p := range P.allPaths(fn) {
		if !p.feasible() {
			continue
		}
		if ei >= 0 {
			fs := factSet{}
			for _, c := range p.conds {
				fs.add(c)
			}
			if k, _ := P.classifyErr(p.results()[ei], fs); k == exitFailure {
				continue
			}
		}
		for _, cs := range P.expandConds(p.conds, 0) {
			fs := factSet{}
			ok := true
			pol := map[string]bool{}
			for _, c := range cs {
				k := c.Pred.String()
				if v, seen := pol[k]; seen && v != c.Val {
					ok = false
				}
				pol[k] = c.Val
				fs.add(c)
			}
			if ok {
				out = append(out, pathCase{p, cs, fs})
			}
		}
	}
	return out
}

// scanTable lowers a first-match scan over a constant package-level slice to
// a table: every iteration either returns a value that is constant once the
// index is fixed, under the single condition slices.Contains(K, param) with K
// a constant list, or continues; behind the loop a constant is returned.
func (P *Prog) scanTable(fn *ssa.Function, pi, ri int) map[string]string {
	loops := findLoops(fn)
	if len(loops) != 1 {
		return nil
	}
	L := loops[0]
	if !L.fullRange || L.over == nil || L.idx == nil || L.body == nil || L.exit == nil || !(L.kind == "counted" || L.kind == "slice-range") {
		return nil
	}
	ot := P.terms.of(L.over)
	if !(ot.Op == "load" && len(ot.Args) == 1 && ot.Args[0].Op == "global") {
		return nil
	}
	gv := P.constGlobalValue(ot.Args[0].S)
	if gv == nil || gv.Op != "arr" || len(gv.Args) == 0 || len(gv.Args) > 32 {
		return nil
	}
	pt := T("param", itoa(int64(pi)))
	out := map[string]string{}
	isHeader := func(b *ssa.BasicBlock) bool { return b == L.header }
	for i := range gv.Args {
		eng := P.terms.withConst(map[ssa.Value]int64{L.idx: int64(i)})
		for _, bp := range P.enumPaths(fn, L.body, isHeader, false) {
			conds := condsWith(eng, bp.blocks, bp.stop)
			if bp.ret == nil {
				continue
			}
			if len(conds) != 1 || !conds[0].Val || ri >= len(bp.ret.Results) {
				return nil
			}
			c := P.foldGlobals(conds[0].Pred)
			if !(c.Op == "call" && strings.HasPrefix(c.S, "slices.Contains[") && len(c.Args) == 2 && c.Args[1].eq(pt) && c.Args[0].Op == "arr") {
				return nil
			}
			val := P.foldGlobals(eng.of(bp.ret.Results[ri]))
			if val.Op != "const" {
				return nil
			}
			for _, k := range c.Args[0].Args {
				if k.Op != "const" {
					return nil
				}
				if _, dup := out[k.String()]; !dup {
					out[k.String()] = val.String()
				}
			}
		}
	}
	// behind the loop
	n := 0
	for _, ep := range P.enumPaths(fn, L.exit, nil, false) {
		if ep.ret == nil || len(ep.conds) != 0 || ri >= len(ep.ret.Results) {
			return nil
		}
		d := P.terms.of(ep.ret.Results[ri])
		if d.Op != "const" {
			return nil
		}
		out["default"] = d.String()
		n++
	}
	if n != 1 {
		return nil
	}
	// nothing returns before the loop
	for _, pre := range P.enumPaths(fn, fn.Blocks[0], isHeader, false) {
		if pre.ret != nil || len(pre.conds) != 0 {
			return nil
		}
	}
	return out
}

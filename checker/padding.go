package main

// Recognition of "left-pad with zero bytes to a size": the value is a fresh
// byte slice whose layout is zeros(size-len(v)) ++ v. Two constructions are
// understood, directly or behind an in-package helper:
//
//   append(make([]byte, size-len(v), size), v...)
//   p := make([]byte, size); copy(p[size-len(v):], v)      (p otherwise unwritten)

import (
	"go/token"

	"golang.org/x/tools/go/ssa"
)

type padInfo struct {
	size, coord *Term
	guards      factSet // facts that hold whenever this value is produced (helper exits)
	gated       *Term   // comma-ok helper: the ok result that must be true at the use
}

var patAppendPad = mustPat("append(makeslice<[]byte>(binop<->(%S, len(%V)), %S), %V)")

func (P *Prog) leftPad(fn *ssa.Function, v ssa.Value, depth int) (*padInfo, string) {
	return P.leftPadE(P.terms, fn, v, depth)
}

// leftPadE: leftPad with the values of fn evaluated by eng (e.g. one
// iteration of a constant-bound loop).
func (P *Prog) leftPadE(eng *termEngine, fn *ssa.Function, v ssa.Value, depth int) (*padInfo, string) {
	for {
		switch x := v.(type) {
		case *ssa.MakeInterface:
			v = x.X
			continue
		case *ssa.ChangeType:
			v = x.X
			continue
		}
		break
	}
	switch x := v.(type) {
	case *ssa.MakeSlice:
		return P.padByCopy(eng, fn, x)
	case *ssa.Call:
		if b, ok := x.Call.Value.(*ssa.Builtin); ok && b.Name() == "append" {
			t := eng.of(x)
			bnd, ok := unify(patAppendPad, t, bindings{})
			if !ok {
				return nil, "value " + truncate(t.String(), 140) + " is not make(size-len(v), size) ++ v"
			}
			return &padInfo{size: bnd["S"], coord: bnd["V"], guards: factSet{}}, ""
		}
		if h := x.Call.StaticCallee(); h != nil && P.inPkg(h) && h.Signature.Results().Len() == 1 {
			return P.padByHelper(eng, fn, x, h, depth)
		}
	case *ssa.Extract:
		if c, ok := x.Tuple.(*ssa.Call); ok && x.Index == 0 {
			if h := c.Call.StaticCallee(); h != nil && P.inPkg(h) {
				return P.padByHelper(eng, fn, c, h, depth)
			}
		}
	}
	return nil, "value " + truncate(eng.of(v).String(), 140) + " is not a recognised padding construction"
}

// padByCopy: M = make([]byte, size); copy(M[low:], v) with low == size-len(v)
// and no other write through M.
func (P *Prog) padByCopy(eng *termEngine, fn *ssa.Function, m *ssa.MakeSlice) (*padInfo, string) {
	if m.Cap != m.Len {
		if P.linearize(tSub(eng.of(m.Cap), eng.of(m.Len))).nonZero() {
			return nil, "make with a capacity different from the length"
		}
	}
	size := eng.of(m.Len)
	var copies []*ssa.Call
	var lows []*Term
	for _, ref := range *m.Referrers() {
		switch u := ref.(type) {
		case *ssa.Slice:
			if u.High != nil || u.Max != nil {
				return nil, "the buffer is re-sliced with an upper bound"
			}
			for _, r2 := range *u.Referrers() {
				c, ok := r2.(*ssa.Call)
				if !ok {
					return nil, "the re-sliced buffer is used other than as copy destination"
				}
				b, isB := c.Call.Value.(*ssa.Builtin)
				if !isB || b.Name() != "copy" || c.Call.Args[0] != ssa.Value(u) {
					return nil, "the re-sliced buffer is used other than as copy destination"
				}
				copies = append(copies, c)
				lo := tInt(0)
				if u.Low != nil {
					lo = eng.of(u.Low)
				}
				lows = append(lows, lo)
			}
		case *ssa.Call:
			b, isB := u.Call.Value.(*ssa.Builtin)
			if isB && b.Name() == "copy" && u.Call.Args[0] == ssa.Value(m) {
				copies = append(copies, u)
				lows = append(lows, tInt(0))
				continue
			}
			if isB && (b.Name() == "len" || b.Name() == "cap") {
				continue
			}
			return nil, "the buffer is passed to " + calleeName(&u.Call)
		case *ssa.IndexAddr:
			return nil, "the buffer is written by index"
		case *ssa.Return, *ssa.MakeInterface, *ssa.MapUpdate, *ssa.DebugRef, *ssa.ChangeType, *ssa.Phi, *ssa.Store:
		default:
			return nil, "the buffer has an unrecognised use"
		}
	}
	if len(copies) != 1 {
		return nil, "expected exactly one copy into the zeroed buffer"
	}
	coord := eng.of(copies[0].Call.Args[1])
	// low == size - len(coord), identically
	d := P.linearize(tSub(lows[0], tSub(size, tLen(coord))))
	if d.nonZero() {
		return nil, "copy offset " + lows[0].String() + " is not size-len(v)"
	}
	// the copy dominates every use of the buffer as a value
	for _, ref := range *m.Referrers() {
		switch ref.(type) {
		case *ssa.Return, *ssa.MakeInterface, *ssa.MapUpdate, *ssa.Store, *ssa.Phi:
			cb, ub := copies[0].Block(), ref.Block()
			if !(cb.Dominates(ub)) || (cb == ub && !before(copies[0], ref)) {
				return nil, "the buffer is used before the copy"
			}
		}
	}
	return &padInfo{size: size, coord: coord, guards: factSet{}}, ""
}

func (l *lin) nonZero() bool { return l.c != 0 || len(l.co) != 0 }

func before(a, b ssa.Instruction) bool {
	for _, in := range a.Block().Instrs {
		if in == a {
			return true
		}
		if in == b {
			return false
		}
	}
	return false
}

// padByHelper: the value is result 0 of helper h; every exit of h that can
// deliver it (ok result not constantly false) pads the same parameter.
func (P *Prog) padByHelper(eng *termEngine, fn *ssa.Function, c *ssa.Call, h *ssa.Function, depth int) (*padInfo, string) {
	if depth > 2 {
		return nil, "padding helper chain too deep"
	}
	okIdx := -1
	rs := h.Signature.Results()
	if rs.Len() == 2 && rs.At(1).Type().String() == "bool" {
		okIdx = 1
	} else if rs.Len() != 1 {
		return nil, "helper " + shortFn(h) + " has an unexpected result list"
	}
	m := map[string]*Term{}
	for i, a := range c.Call.Args {
		m[itoa(int64(i))] = eng.of(a)
	}
	var out *padInfo
	for _, x := range P.factsOf(h).exits {
		if okIdx >= 0 {
			if t := x.results[okIdx]; t.Op == "const" && t.S == "false" {
				continue
			} else if !(t.Op == "const" && t.S == "true") {
				return nil, "helper " + shortFn(h) + " returns a computed ok flag"
			}
		}
		pi, why := P.leftPad(h, x.ret.Results[0], depth+1)
		if pi == nil {
			return nil, "in helper " + shortFn(h) + ": " + why
		}
		g := factSet{}
		for _, f := range x.facts {
			g.add(Fact{f.Pred.subst(m), f.Val})
		}
		for _, f := range pi.guards {
			g.add(Fact{f.Pred.subst(m), f.Val})
		}
		n := &padInfo{size: pi.size.subst(m), coord: pi.coord.subst(m), guards: g}
		if out == nil {
			out = n
		} else {
			if !out.size.eq(n.size) || !out.coord.eq(n.coord) {
				return nil, "helper " + shortFn(h) + " pads differently on different paths"
			}
			out.guards = intersect(out.guards, n.guards)
		}
	}
	if out == nil {
		return nil, "helper " + shortFn(h) + " never delivers a value"
	}
	if okIdx >= 0 {
		ct := eng.of(c)
		out.gated = &Term{Op: "res", S: "1", Args: []*Term{ct}}
	}
	return out, ""
}

var _ = token.ADD

package main

// C17 — built-in signers/verifiers exist only for matching, adequate keys.

import (
	"fmt"
	"sort"
	"strconv"
	"strings"

	"golang.org/x/tools/go/ssa"
)

func init() {
	register(&propSpec{id: "C17", title: "constructor tables, sibling agreement, reported algorithm, message = digest under the algorithm's hash", run: runC17, mutants: mutC17, design: "DESIGN.md section 3, C17"})
}

type famSpec struct {
	family  string
	keyType string // asserted public key type
}

func (P *Prog) algFamilies() map[int64]famSpec {
	m := map[int64]famSpec{}
	for _, n := range []string{"AlgorithmPS256", "AlgorithmPS384", "AlgorithmPS512"} {
		m[P.mustConst(n)] = famSpec{"rsa", "*crypto/rsa.PublicKey"}
	}
	for _, n := range []string{"AlgorithmES256", "AlgorithmES384", "AlgorithmES512"} {
		m[P.mustConst(n)] = famSpec{"ecdsa", "*crypto/ecdsa.PublicKey"}
	}
	m[P.mustConst("AlgorithmEdDSA")] = famSpec{"ed25519", "crypto/ed25519.PublicKey"}
	return m
}

// ctorCase: one success path of a constructor.
type ctorCase struct {
	alg      int64
	typ      string // constructed type
	algField string // term stored in the alg field ("" when the type has none)
	rsaBound int64  // -1 when absent
	ecdh     bool
	keyType  string
}

func runC17(r *Report, tier string) {
	P := r.P
	r.rule("R17.1", "constructor tables: NewSigner / NewVerifier lowered to algorithm constant -> facts on the success path: PS256/384/512 need a *rsa.PublicKey whose modulus has at least 2048 bits; ES256/384/512 a *ecdsa.PublicKey (verifier: and ok(pub.ECDH())); EdDSA an ed25519.PublicKey; no other algorithm value (reserved, RS256/384/512, anything else) has a success path, and those failures wrap ErrAlgorithmNotSupported; type failures wrap ErrInvalidPubKey.")
	r.rule("R17.2", "sibling agreement: both constructors have the same case partition and the same RSA bound, 2048.")
	r.rule("R17.3", "reported algorithm: the constructed object's alg field is the alg parameter and its Algorithm() returns that field (Ed25519 types: the constant of the only case that constructs them).")
	r.rule("R17.4", "message = digest: for the RSA and ECDSA signer/verifier types every exit of Sign(content) / Verify(content, sig) is either the hashing helper's error or the unchanged verdict of SignDigest(rand, H) / VerifyDigest(H, sig) with H = hash(hashFunc(recv.alg), content); the PSS hash on both sides is hashFunc(recv.alg) with equal salt-length constants; the algorithm->hash table is the RFC one.")
	r.assumes("crypto/rsa, crypto/ecdsa, crypto/ecdh accept/reject boundary keys as documented (2047 vs 2048 bits, off-curve points)")

	fams := P.algFamilies()
	tables := map[string]map[int64]*ctorCase{}
	bounds := map[string]map[int64]bool{}
	for _, cn := range []string{"NewSigner", "NewVerifier"} {
		fn := P.mustFn(cn)
		r.analysed(fn)
		tables[cn] = map[int64]*ctorCase{}
		bounds[cn] = map[int64]bool{}
		isVerifier := cn == "NewVerifier"
		nsucc, nfail := 0, 0
		for _, p := range P.ctorVPaths(fn, nil, 0) {
			r.paths++
			res := p.res
			fs := factSet{}
			for _, c := range p.conds {
				fs.add(c)
			}
			k, _ := P.classifyErr(res[1], fs)
			// the algorithm case of this path
			alg, known := int64(0), false
			for _, c := range p.conds {
				if c.Val && c.Pred.Op == "binop" && c.Pred.S == "==" {
					for i := 0; i < 2; i++ {
						if n, ok := termConstInt(c.Pred.Args[i]); ok && c.Pred.Args[1-i].String() == "$0" {
							alg, known = n, true
						}
					}
				}
			}
			if k == exitFailure {
				nfail++
				et := P.expandErr(res[1], 0).String()
				fam, supported := fams[alg]
				_ = fam
				if !known || !supported {
					o := r.ob("R17.1", fmt.Sprintf("%s:refusal:%s", cn, p.id), fn, p.ret, "an unsupported algorithm is refused with ErrAlgorithmNotSupported")
					o.check(strings.Contains(et, "*@ErrAlgorithmNotSupported") && res[0].Op == "nil", "wraps ErrAlgorithmNotSupported", fmt.Sprintf("algorithm %d (case known: %v) fails with %s", alg, known, truncate(et, 160)))
				} else {
					// a supported algorithm refused: wrong key type / weak key
					typeFail := false
					for _, c := range p.conds {
						if !c.Val && c.Pred.Op == "res" && c.Pred.S == "1" && c.Pred.Args[0].Op == "typeassert" && strings.Contains(c.Pred.Args[0].S, "PublicKey") {
							typeFail = true
						}
					}
					if typeFail {
						r.ob("R17.1", fmt.Sprintf("%s:wrong-key:%d:%s", cn, alg, p.id), fn, p.ret, "a key of the wrong family is refused with ErrInvalidPubKey").check(strings.Contains(et, "*@ErrInvalidPubKey") && res[0].Op == "nil", "wraps ErrInvalidPubKey", "fails with "+truncate(et, 160))
					} else {
						r.ob("R17.1", fmt.Sprintf("%s:refused:%d:%s", cn, alg, p.id), fn, p.ret, "a refused key yields no object").check(res[0].Op == "nil", "nil object", "returns "+truncate(res[0].String(), 80)+" with an error")
					}
				}
				continue
			}
			nsucc++
			o := r.ob("R17.1", fmt.Sprintf("%s:success:%d:%s", cn, alg, p.id), fn, p.ret, "a success path belongs to a supported algorithm and has established its key requirements")
			fam, supported := fams[alg]
			if !known || !supported {
				o.fail(fmt.Sprintf("an object is constructed for algorithm %d (case known: %v), which has no built-in implementation", alg, known))
				continue
			}
			cc := &ctorCase{alg: alg, rsaBound: -1}
			// requirements checked inside helpers whose success the path
			// requires count as checked here: the path conditions are expanded
			// through such helpers (every alternative must give the same answer)
			conds := p.conds
			if alts := P.expandConds(p.conds, 0); len(alts) == 1 {
				conds = alts[0]
			} else if len(alts) > 1 {
				var common []Fact
				for _, c := range alts[0] {
					inAll := true
					for _, a := range alts[1:] {
						found := false
						for _, d := range a {
							if d.String() == c.String() {
								found = true
							}
						}
						inAll = inAll && found
					}
					if inAll {
						common = append(common, c)
					}
				}
				conds = common
			}
			// asserted key type
			for _, c := range conds {
				if c.Val && c.Pred.Op == "res" && c.Pred.S == "1" && c.Pred.Args[0].Op == "typeassert" && strings.HasSuffix(strings.TrimSuffix(c.Pred.Args[0].S, ",ok"), "PublicKey") {
					src := c.Pred.Args[0].Args[0].String()
					if src == "$1" || src == "call<invoke:crypto.Signer.Public>($1)" {
						cc.keyType = strings.TrimSuffix(c.Pred.Args[0].S, ",ok")
					}
				}
				// !(BitLen(N) < K)
				if !c.Val && c.Pred.Op == "binop" && c.Pred.S == "<" && strings.HasPrefix(c.Pred.Args[0].String(), "call<(*math/big.Int).BitLen>") {
					if n, ok := termConstInt(c.Pred.Args[1]); ok {
						cc.rsaBound = n
					}
				}
				// K <= BitLen(N) / K < BitLen(N)
				if c.Val && c.Pred.Op == "binop" && (c.Pred.S == "<=" || c.Pred.S == "<") && strings.HasPrefix(c.Pred.Args[1].String(), "call<(*math/big.Int).BitLen>") {
					if n, ok := termConstInt(c.Pred.Args[0]); ok {
						if c.Pred.S == "<" {
							n++
						}
						cc.rsaBound = n
					}
				}
				if c.Val && c.Pred.Op == "binop" && c.Pred.S == "==" {
					for i := 0; i < 2; i++ {
						if c.Pred.Args[i].Op == "nil" && strings.Contains(c.Pred.Args[1-i].String(), "call<(*crypto/ecdsa.PublicKey).ECDH>") {
							cc.ecdh = true
						}
					}
				}
			}
			obj := res[0]
			if obj.Op == "iface" {
				cc.typ = obj.S
				cc.algField = p.algField
			}
			why := ""
			switch {
			case cc.keyType != fam.keyType:
				why = fmt.Sprintf("key type established is %q, %s needs %s", cc.keyType, fam.family, fam.keyType)
			case fam.family == "rsa" && cc.rsaBound < 0:
				why = "no lower bound on the RSA modulus size on this path"
			case fam.family == "ecdsa" && isVerifier && !cc.ecdh:
				why = "an ECDSA verifier is built without ok(pub.ECDH()) (point validity)"
			case fam.family == "ecdsa" && !isVerifier && cc.ecdh:
				why = "an ECDSA signer additionally requires ok(pub.ECDH()): keys of the family on curves crypto/ecdh does not support are refused (the requirement belongs to verifiers only)"
			case fam.family != "rsa" && cc.rsaBound >= 0:
				why = "a modulus-size requirement on a non-RSA family"
			case !strings.Contains(strings.ToLower(cc.typ), fam.family):
				why = "constructed type " + cc.typ + " does not belong to the " + fam.family + " family"
			}
			o.check(why == "", fmt.Sprintf("%s for %d: key %s, bound %d, ecdh %v", cc.typ, alg, cc.keyType, cc.rsaBound, cc.ecdh), why)
			tables[cn][alg] = cc
			if cc.rsaBound >= 0 {
				bounds[cn][cc.rsaBound] = true
			}
			// the object holds the caller's key itself (the asserted key, or
			// the public half the key reports): everything derived from the
			// key later (curve, sizes) is the key's own
			if p.keyField != nil {
				ok := false
				kf := p.keyField
				if kf.Op == "res" && kf.S == "0" && kf.Args[0].Op == "typeassert" {
					kf = kf.Args[0].Args[0]
				}
				ks := kf.String()
				ok = ks == "$1" || ks == "call<invoke:crypto.Signer.Public>($1)"
				r.ob("R17.1", fmt.Sprintf("%s:key-field:%d:%s", cn, alg, p.id), fn, p.ret, "the constructed object stores the key it was given (or its reported public half), not a derived copy").check(ok, truncate(p.keyField.String(), 100), "key field holds "+truncate(p.keyField.String(), 200))
			}
			// R17.3
			o3 := r.ob("R17.3", fmt.Sprintf("%s:alg-field:%d:%s", cn, alg, p.id), fn, p.ret, "the object records the requested algorithm")
			if cc.algField == "zero()" || cc.algField == "" {
				// type without alg field: its Algorithm() must be the case constant
				o3.check(fam.family == "ed25519", "type has no alg field (Ed25519)", "alg field not set on "+cc.typ)
			} else {
				o3.check(cc.algField == "$0", "alg = $0", "alg field holds "+cc.algField)
			}
		}
		r.floorSoft("R17.1", nsucc, 7, "success paths of "+cn)
		r.floorSoft("R17.1", nfail, 5, "failure paths of "+cn)
		// every supported algorithm has a success path
		var missing []string
		for a := range fams {
			if tables[cn][a] == nil {
				missing = append(missing, fmt.Sprint(a))
			}
		}
		sort.Strings(missing)
		r.ob("R17.1", cn+":all-supported", fn, nil, "every built-in algorithm can be constructed").check(len(missing) == 0, "7 algorithms", "no success path for algorithm(s) "+strings.Join(missing, ", "))
	}
	// R17.2
	{
		o := r.ob("R17.2", "constructors:same-partition", nil, nil, "NewSigner and NewVerifier support the same algorithms with the same key families")
		diff := ""
		for a, cs := range tables["NewSigner"] {
			cv := tables["NewVerifier"][a]
			if cv == nil || cv.keyType != cs.keyType {
				diff = fmt.Sprintf("algorithm %d differs between the constructors", a)
			}
		}
		if len(tables["NewSigner"]) != len(tables["NewVerifier"]) {
			diff = "different numbers of supported algorithms"
		}
		o.check(diff == "", fmt.Sprintf("%d algorithms", len(tables["NewSigner"])), diff)
		o2 := r.ob("R17.2", "constructors:rsa-bound", nil, nil, "one RSA bound on both sides, and it is 2048")
		okB := len(bounds["NewSigner"]) == 1 && len(bounds["NewVerifier"]) == 1 && bounds["NewSigner"][2048] && bounds["NewVerifier"][2048]
		o2.check(okB, "2048 / 2048", fmt.Sprintf("signer bounds %v, verifier bounds %v", bounds["NewSigner"], bounds["NewVerifier"]))
	}
	// R17.3 Algorithm() methods
	for _, it := range []string{"Signer", "Verifier"} {
		for _, fn := range P.implementors(P.iface(it), "Algorithm") {
			rt := P.terms.successResult(fn, 0)
			o := r.ob("R17.3", shortFn(fn)+":reports", fn, nil, "Algorithm() returns the recorded algorithm")
			switch {
			case rt != nil && rt.String() == "*$0.alg":
				o.ok("returns the alg field", true)
			case rt != nil && rt.Op == "const":
				n, _ := termConstInt(rt)
				ok := false
				for _, tab := range tables {
					for a, cc := range tab {
						if strings.TrimPrefix(cc.typ, "*") == strings.TrimPrefix(strings.TrimPrefix(shortType(fn.Signature.Recv().Type()), "*"), "") && a == n {
							ok = true
						}
					}
				}
				o.check(ok, "constant "+rt.S+" = the only case constructing this type", "returns the constant "+rt.S+", which is not the algorithm the constructor builds this type for")
			default:
				o.fail("returns " + fmt.Sprint(rt))
			}
		}
	}
	// R17.4
	c17Digest(r)
	checkHashTable(r, "R17.4")
	// the digest entry point signs the digest it was given (ES*: both key
	// kinds hand (rand, digest) to the key unchanged)
	r.rule("R16.2", "(shared with C16) every success exit of a built-in ES* SignDigest is the encode helper's result over ecdsa.Sign(rand, key, digest) resp. key.Sign(rand, digest, opts) with the digest parameter itself.")
	checkECDSASignDigestPaths(r, "R16.2")
}

// vpath: one way through a constructor, with calls to in-package helper
// constructors (whose (object, error) pair is returned unchanged) inlined.
type vpath struct {
	conds    []Fact
	res      []*Term
	ret      *ssa.Return
	id       string
	algField string
	keyField *Term // term stored in the key field
}

func (P *Prog) ctorVPaths(fn *ssa.Function, m map[string]*Term, depth int) []*vpath {
	var out []*vpath
	for _, p := range P.allPaths(fn) {
		if !p.feasible() {
			continue
		}
		vp := &vpath{ret: p.ret, id: pathID(p)}
		for _, c := range p.conds {
			if m != nil {
				c = normFact(c.Pred.subst(m), c.Val)
			}
			vp.conds = append(vp.conds, c)
		}
		res := p.results()
		// alg field of a struct constructed on this path
		if len(res) > 0 && res[0].Op == "iface" && res[0].Args[0].Op == "alloc" {
			for _, b := range fn.Blocks {
				for _, in := range b.Instrs {
					if a, ok := in.(*ssa.Alloc); ok && P.terms.of(a).eq(res[0].Args[0]) {
						af := p.eng.loadPath(a, []string{"alg"}, p.ret)
						if m != nil {
							af = af.subst(m)
						}
						vp.algField = af.String()
						kf := p.eng.loadPath(a, []string{"key"}, p.ret)
						if m != nil {
							kf = kf.subst(m)
						}
						vp.keyField = P.resolveValue(kf)
					}
				}
			}
		}
		for _, t := range res {
			if m != nil {
				t = t.subst(m)
			}
			vp.res = append(vp.res, t)
		}
		// helper returning the pair unchanged
		if len(vp.res) == 2 && pairDelegated(vp.res[0], vp.res[1]) && depth < 2 {
			call := vp.res[0].Args[0]
			if g := P.calleeOfTerm(call); g != nil && g != fn {
				m2 := map[string]*Term{}
				for i, a := range call.Args {
					m2[strconv.Itoa(i)] = a
				}
				for _, sub := range P.ctorVPaths(g, m2, depth+1) {
					sub.conds = append(append([]Fact{}, vp.conds...), sub.conds...)
					sub.id = vp.id + "/" + sub.id
					sub.ret = vp.ret
					out = append(out, sub)
				}
				continue
			}
		}
		out = append(out, vp)
	}
	return out
}

// c17Digest: R17.4 over the RSA and ECDSA signer/verifier types.
func c17Digest(r *Report) {
	P := r.P
	type pairing struct {
		msg, dig *ssa.Function
		verify   bool
	}
	var ps []pairing
	dv := map[string]*ssa.Function{}
	for _, f := range P.implementors(P.iface("DigestVerifier"), "VerifyDigest") {
		dv[shortType(f.Signature.Recv().Type())] = f
	}
	ds := map[string]*ssa.Function{}
	for _, f := range P.implementors(P.iface("DigestSigner"), "SignDigest") {
		ds[shortType(f.Signature.Recv().Type())] = f
	}
	for _, f := range P.implementors(P.iface("Verifier"), "Verify") {
		if d := dv[shortType(f.Signature.Recv().Type())]; d != nil {
			ps = append(ps, pairing{f, d, true})
		}
	}
	for _, f := range P.implementors(P.iface("Signer"), "Sign") {
		if d := ds[shortType(f.Signature.Recv().Type())]; d != nil {
			ps = append(ps, pairing{f, d, false})
		}
	}
	r.floor("R17.4", len(ps), 5, "message/digest method pairs")
	for _, pr := range ps {
		content := "$1"
		if !pr.verify {
			content = "$2"
		}
		dig := pr.dig
		dx := P.deepExits(pr.msg, func(h *ssa.Function) bool { return h != dig && h.Signature.Recv() == nil })
		for xi, x := range dx {
			id := exitID(P, pr.msg, x)
			if len(dx) != len(P.factsOf(pr.msg).exits) {
				id += fmt.Sprintf("#%d", xi)
			}
			o := r.ob("R17.4", shortFn(pr.msg)+":exit:"+id, pr.msg, x.ret, "every exit is the hashing helper's error or the digest method's unchanged verdict on the hash of the content under the receiver's algorithm")
			et := x.results[len(x.results)-1]
			c := delegCall(et)
			switch {
			case c != nil && c.S == shortFn(pr.dig):
				// digest argument
				var h *Term
				okArgs := false
				if pr.verify && len(c.Args) == 3 {
					h = c.Args[1]
					okArgs = c.Args[0].String() == "$0" && c.Args[2].String() == "$2"
				} else if !pr.verify && len(c.Args) == 3 {
					h = c.Args[2]
					okArgs = c.Args[0].String() == "$0" && c.Args[1].String() == "$1"
				}
				okH, hs := false, ""
				if h != nil {
					hs = h.String()
					okH = hashChainOK(P, h, content)
				}
				if !pr.verify && !(len(x.results) == 2 && pairDelegated(x.results[0], x.results[1])) {
					okArgs = false
				}
				o.check(okArgs && okH, "delegated with H(content) under hashFunc(recv.alg)", fmt.Sprintf("arguments forwarded unchanged: %v; digest is hash_{hashFunc(recv.alg)}(content): %v (%s)", okArgs, okH, truncate(hs, 200)))
			case x.kind == exitFailure && c != nil && P.calleeOfTerm(c) != nil && c.S != shortFn(pr.dig):
				// the hashing helper's own error
				okE := strings.Contains(c.String(), content) && strings.Contains(c.String(), "*$0.alg")
				o.check(okE, "hash helper's error", "failure exit returns "+truncate(et.String(), 160))
			default:
				o.fail("an exit of the message entry point is neither the hashing helper's error nor the digest entry point's verdict: returns " + truncate(et.String(), 160) + " (the two entry points can disagree)")
			}
		}
	}
	checkPSSOptions(r, "R17.4")
}

// checkPSSOptions: RSASSA-PSS as RFC 8230 fixes it: on both sides the hash is
// hashFunc(recv.alg) and the salt length is the hash length
// (rsa.PSSSaltLengthEqualsHash); in particular the verifier does not
// auto-detect other salt lengths.
func checkPSSOptions(r *Report, rule string) {
	P := r.P
	var signHash, verHash, signSalt, verSalt string
	for _, fn := range P.Funcs {
		for _, ci := range callsIn(fn, nil) {
			c := ci.Common()
			if sc := c.StaticCallee(); sc != nil && sc.String() == "crypto/rsa.VerifyPSS" {
				verHash = P.terms.of(c.Args[1]).String()
				opts := P.terms.of(c.Args[4])
				verSalt = pssField(P, c.Args[4], ci, "SaltLength")
				_ = opts
			}
			if c.IsInvoke() && c.Method.Name() == "Sign" && len(c.Args) == 3 && strings.Contains(c.Args[2].Type().String(), "crypto.SignerOpts") {
				if mi, ok := c.Args[2].(*ssa.MakeInterface); ok && strings.Contains(mi.X.Type().String(), "PSSOptions") {
					signHash = pssField(P, mi.X, ci, "Hash")
					signSalt = pssField(P, mi.X, ci, "SaltLength")
				}
			}
		}
	}
	o := r.ob(rule, "pss:options", nil, nil, "PSS hash is hashFunc(recv.alg) on both sides and the salt-length constants are equal")
	hfn := "call<" + shortFn(P.hashTableFunc()) + ">(*$0.alg)"
	okP := strings.Contains(signHash, hfn) && strings.Contains(verHash, hfn) && signSalt != "" && signSalt == verSalt && signSalt == "-1"
	o.check(okP, fmt.Sprintf("hash %s / %s, salt %s / %s", signHash, verHash, signSalt, verSalt), fmt.Sprintf("sign side hash %q salt %q; verify side hash %q salt %q", signHash, signSalt, verHash, verSalt))
}

// hashChainOK: h = hasher(recv.alg, content) where hasher(a, d) returns
// digest(hashFunc(a), d) and digest(h, d) is h.New() written with d and summed.
func hashChainOK(P *Prog, h *Term, content string) bool {
	b, ok := unify(mustPat("res<0>(call<%>(*$0.alg, "+content+"))"), h, bindings{})
	_ = b
	if !ok {
		return false
	}
	hasher := P.calleeOfTerm(h.Args[0])
	if hasher == nil {
		return false
	}
	rt := P.terms.successResult(hasher, 0)
	if rt == nil {
		return false
	}
	if _, ok := unify(mustPat("res<0>(call<%>(call<%>($0), $1))"), rt, bindings{}); !ok {
		return false
	}
	tab := P.calleeOfTerm(rt.Args[0].Args[0])
	dig := P.calleeOfTerm(rt.Args[0])
	if tab == nil || dig == nil || tab.Signature.Results().Len() != 1 || tab.Signature.Results().At(0).Type().String() != "crypto.Hash" {
		return false
	}
	// (the write-and-sum tail may live in a helper of its own)
	for _, x := range P.deepExits(dig, func(h *ssa.Function) bool { return h.Signature.Recv() == nil }) {
		if x.kind == exitFailure {
			continue
		}
		if _, ok := unify(mustPat("call<invoke:hash.Hash.Sum>(call<(crypto.Hash).New>($0), nil)"), x.results[0], bindings{}); !ok {
			return false
		}
		miss, _ := x.facts.firstMissing([]factPat{
			fp("call<(crypto.Hash).Available>($0)"),
			fp("binop<==>(nil, res<1>(call<invoke:hash.Hash.Write>(call<(crypto.Hash).New>($0), $1)))"),
		}, nil)
		if miss != "" {
			return false
		}
	}
	return true
}

// pssField: the value of field f of the *rsa.PSSOptions literal at the call.
func pssField(P *Prog, v ssa.Value, at ssa.Instruction, f string) string {
	for {
		if mi, ok := v.(*ssa.MakeInterface); ok {
			v = mi.X
			continue
		}
		break
	}
	if a, ok := v.(*ssa.Alloc); ok {
		return P.terms.loadPath(a, []string{f}, at).String()
	}
	return ""
}

func mutC17() []mutant {
	return []mutant{
		{Name: "RSA bound lowered in NewVerifier only", File: "verifier.go", Quick: true, Rule: "R17.2",
			Old: "\t\tif vk.N.BitLen() < 2048 {", New: "\t\tif vk.N.BitLen() < 1024 {"},
		{Name: "ES* verifier built without the ECDH validity check", File: "verifier.go", Quick: true, Rule: "R17.1",
			Old: "\t\tif _, err := vk.ECDH(); err != nil {", New: "\t\tif _, err := vk.ECDH(); err != nil && alg == AlgorithmES512 {"},
		{Name: "RS256 falls into the PS arm", File: "signer.go", Rule: "R17.1",
			Old: "\tcase AlgorithmPS256, AlgorithmPS384, AlgorithmPS512:\n\t\tvk, ok := key.Public().(*rsa.PublicKey)", New: "\tcase AlgorithmPS256, AlgorithmPS384, AlgorithmPS512, Algorithm(-65535):\n\t\tvk, ok := key.Public().(*rsa.PublicKey)"},
		{Name: "rsaSigner records a fixed algorithm", File: "signer.go", Rule: "R17.3",
			Old: "\t\treturn &rsaSigner{\n\t\t\talg: alg,", New: "\t\treturn &rsaSigner{\n\t\t\talg: AlgorithmPS256,"},
		{Name: "rsaVerifier.Verify rejects early on a length heuristic", File: "rsa.go", Rule: "R17.4",
			Old: "func (rv *rsaVerifier) Verify(content []byte, signature []byte) error {\n", New: "func (rv *rsaVerifier) Verify(content []byte, signature []byte) error {\n\tif len(signature)*8 != rv.key.N.BitLen() {\n\t\treturn ErrVerification\n\t}\n"},
		{Name: "salt length auto on the verify side only", File: "rsa.go", Rule: "R17.4", Nth: 2,
			Old: "\t\tSaltLength: rsa.PSSSaltLengthEqualsHash, // defined in RFC 8230 sec 2\n", New: "\t\tSaltLength: rsa.PSSSaltLengthAuto, // defined in RFC 8230 sec 2\n"},
		{Name: "ES384 hashed with SHA-512", File: "algorithm.go", Rule: "R17.4",
			Old: "\tcase AlgorithmPS384, AlgorithmES384, AlgorithmSHA384:\n\t\treturn crypto.SHA384\n\tcase AlgorithmPS512, AlgorithmES512, AlgorithmSHA512:", New: "\tcase AlgorithmPS384, AlgorithmSHA384:\n\t\treturn crypto.SHA384\n\tcase AlgorithmPS512, AlgorithmES512, AlgorithmSHA512, AlgorithmES384:"},
		{Name: "ed25519 verifier reports a different algorithm", File: "ed25519.go", Rule: "R17.3", Nth: 2,
			Old: "\treturn AlgorithmEdDSA\n", New: "\treturn AlgorithmES256\n"},
		{Name: "EdDSA signer accepts any key", File: "signer.go", Rule: "R17.1",
			Old: "\t\tif _, ok := key.Public().(ed25519.PublicKey); !ok {\n\t\t\treturn nil, fmt.Errorf(\"%v: %w\", alg, ErrInvalidPubKey)\n\t\t}\n", New: "\t\tif _, ok := key.Public().(ed25519.PublicKey); !ok && key == nil {\n\t\t\treturn nil, fmt.Errorf(\"%v: %w\", alg, ErrInvalidPubKey)\n\t\t}\n"},
		{Name: "reserved algorithm reported as invalid key", File: "verifier.go", Rule: "R17.1",
			Old: "\treturn nil, fmt.Errorf(\"can't create new Verifier for %s: %s: %w\", alg, errReason, ErrAlgorithmNotSupported)", New: "\treturn nil, fmt.Errorf(\"can't create new Verifier for %s: %s: %w\", alg, errReason, ErrInvalidPubKey)"},
		{Name: "ecdsa verifier hashes with a fixed hash", File: "ecdsa.go", Rule: "R17.4",
			Old: "\tdigest, err := ev.alg.computeHash(content)", New: "\tdigest, err := AlgorithmES256.computeHash(content)"},
	}
}

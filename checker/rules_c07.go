package main

// C07 — any valid encoding of a conforming message is accepted and verifies
// (necessary conditions on the repository's side; acceptance itself is the
// CBOR library's).

import (
	"fmt"
	"strings"

	"golang.org/x/tools/go/ssa"
)

func init() {
	register(&propSpec{id: "C07", title: "received bytes are verified; decoder not narrowed; type guards exact (thin: necessary conditions only)", run: runC07, mutants: mutC07, design: "DESIGN.md section 3, C07"})
}

func runC07(r *Report, tier string) {
	P := r.P
	r.rule("R07.1", "received bytes are what is verified: decoders capture the raw header bytes from the wire (R09.1), the bucket marshalers return them themselves whenever present (R09.2), and the ToBeSigned terms of every kind read ProtBytes(Headers) - so a peer's non-deterministically encoded protected map reaches the primitive unchanged (R02.1 for Sign1/Signature, R10.1 for countersignatures, included below).")
	r.rule("R07.2", "non-minimal bstr heads are normalised, not refused: R02.3 (included below).")
	r.rule("R07.3", "no narrowing of the decoder: MaxNestedLevels/MaxArrayElements/MaxMapPairs unset, UTF8 not tightened, and no function on a decode path compares its input with a re-encoding of the decoded value (canonical-form enforcement; expected count 0).")
	r.rule("R07.4", "both empty-header spellings have an accepting path: the protected-bucket decoder succeeds for the zero-length byte string, and its map arm places no guard on the size of the decoded map.")
	r.rule("R07.6", "(reported under R07.5) the content of the protected bstr is decoded only with a mode that admits tags (tags are excluded from the envelope and unprotected values only); the countersignature header value is refused only after both its single-object and its list form failed to decode.")
	r.rule("R07.5", "type guards are exact major-type tests: the bucket decoders and the bstr/nil decoder test data[0]>>5 against 5 resp. 2 (so every head width of a map / byte string passes), the label scan admits all of major types 0, 1, 3 (R05.5/R05.6 obligations, included here).")
	r.assumes("acceptance of every valid encoder choice is decided by the CBOR library (A1) and verification of third-party signatures by crypto/*; this claim covers only what the repository must do for the property to be possible")

	checkDecoderSlots(r, "R07.1")
	checkMarshalBuckets(r, "R07.1")
	checkDecoderLimits(r, "R07.3")
	for _, mc := range P.modeConfigs() {
		if !mc.enc {
			checkModeOptions(r, "R07.3", mc, nil, []string{"UTF8", "ExtraReturnErrors"})
		}
	}
	// canonical-form enforcement on decode paths
	roots := P.decoderEntryPoints()
	scope := P.reachable(roots)
	n := 0
	for f := range scope {
		n++
		for _, ci := range callsIn(f, nil) {
			sc := staticCallee(ci)
			if sc == nil || sc.Pkg == nil || sc.Pkg.Pkg.Path() != "bytes" || (sc.Name() != "Equal" && sc.Name() != "Compare") {
				continue
			}
			for _, a := range ci.Common().Args {
				at := P.terms.expand(P.terms.of(a), 4)
				if at.contains(func(u *Term) bool { return u.Op == "call" && u.S == "invoke:cbor.EncMode.Marshal" }) {
					r.ob("R07.3", shortFn(f)+":canonical-form-enforcement", f, ci, "no decode path compares the input with a re-encoding").fail("bytes." + sc.Name() + " against " + truncate(at.String(), 120) + ": a valid but non-canonical encoding would be refused")
				}
			}
		}
	}
	r.ob("R07.3", "decode-paths:no-reencode-compare", nil, nil, "no canonical-form enforcement on decode paths").ok(fmt.Sprintf("%d functions on decode paths scanned", n), true)

	// R07.4
	ph := P.methodOf(P.mustNamed("ProtectedHeader"), "UnmarshalCBOR")
	if ph == nil {
		undecidedf("anchor not found: ProtectedHeader.UnmarshalCBOR")
	}
	emptyOK := false
	sizeGuard := ""
	for _, p := range P.allPaths(ph) {
		if !p.feasible() {
			continue
		}
		fs := factSet{}
		for _, c := range p.conds {
			fs.add(c)
		}
		if k, _ := P.classifyErr(p.results()[0], fs); k != exitFailure {
			// a success path on which the decoded content is known to be empty
			for _, c := range p.conds {
				c.Pred.walk(func(u *Term) {
					if u.Op == "len" && strings.Contains(u.Args[0].String(), "UnmarshalCBOR>") && !strings.Contains(u.Args[0].String(), "map[any]any") && fs.holdsEmpty(u.Args[0]) {
						emptyOK = true
					}
				})
			}
		}
		for _, c := range p.conds {
			if c.Pred.contains(func(u *Term) bool {
				return u.Op == "len" && strings.Contains(u.Args[0].String(), "iface<*map[any]any>")
			}) {
				sizeGuard = c.String()
			}
		}
	}
	r.ob("R07.4", shortFn(ph)+":empty-bstr-accepted", ph, nil, "h'' (zero-length protected bucket) has an accepting path").check(emptyOK, "success path under len(content) == 0", "no success path for a zero-length protected byte string")
	r.ob("R07.4", shortFn(ph)+":no-map-size-guard", ph, nil, "h'a0' is not refused: no guard on the decoded map's size").check(sizeGuard == "", "no condition on len(decoded map)", "the decoder branches on "+truncate(sizeGuard, 160))

	// R07.5
	c05Buckets(r, "R07.5")
	for _, mc := range P.modeConfigs() {
		_ = mc
	}
	tf := map[string]bool{}
	for _, mc := range P.modeConfigs() {
		if !mc.enc && mc.opts["TagsMd"] == P.cborConst("TagsForbidden") {
			tf[mc.global] = true
		}
	}
	c05BstrNil(r, func(s string) bool { return tf[s] })

	// a conforming message keeps verifying whatever is decoded after it: every
	// decode destination is a fresh local (no pooled or shared scratch value
	// whose captured raw bytes the next decode overwrites)
	r.rule("R19.2", "(shared with C19) every destination handed to a mode Unmarshal on a decode path is a fresh zero-valued local.")
	checkDecodeDestinations(r, "R19.2")
	// the structure rules the property rests on
	runC02(r, tier)
	runC10(r, tier)
	_ = ssa.Instruction(nil)
}

func mutC07() []mutant {
	return []mutant{
		{Name: "verify side re-encodes the parsed protected map", File: "headers.go", Quick: true, Rule: "R07.1",
			Old: "\tif len(h.RawProtected) > 0 {\n\t\treturn h.RawProtected, nil\n\t}\n\treturn encMode.Marshal(h.Protected)", New: "\tif len(h.RawProtected) > 0 && h.Protected == nil {\n\t\treturn h.RawProtected, nil\n\t}\n\treturn encMode.Marshal(h.Protected)"},
		{Name: "head normaliser errors on the slow path", File: "cbor.go", Rule: "R02.3",
			Old: "\tvar s []byte\n\t_ = decModeWithTagsForbidden.Unmarshal(data, &s)\n\treturn encMode.Marshal(s)", New: "\treturn nil, errors.New(\"cbor: non-deterministic bstr\")"},
		{Name: "decoder limited to 16 map pairs", File: "cbor.go", Quick: true, Rule: "R07.3",
			Old: "\t\tIntDec:      cbor.IntDecConvertSigned,  // decode CBOR uint/int to Go int64\n", New: "\t\tIntDec:      cbor.IntDecConvertSigned,  // decode CBOR uint/int to Go int64\n\t\tMaxMapPairs: 16,\n"},
		{Name: "Signature decoder enforces canonical protected bytes", File: "sign.go", Rule: "R07.3",
			Old: "\tif err := sig.Headers.UnmarshalFromRaw(); err != nil {\n\t\treturn err\n\t}\n\n\t*s = sig", New: "\tif err := sig.Headers.UnmarshalFromRaw(); err != nil {\n\t\treturn err\n\t}\n\tif canon, err := encMode.Marshal(sig.Headers.Protected); err != nil || !bytes.Equal(canon, raw.Protected) {\n\t\treturn errors.New(\"cbor: non-canonical protected header\")\n\t}\n\n\t*s = sig"},
		{Name: "empty protected bstr refused", File: "headers.go", Rule: "R07.4",
			Old: "\tif len(encoded) == 0 {\n\t\t*h = make(ProtectedHeader)\n\t} else {", New: "\tif len(encoded) == 0 {\n\t\treturn errors.New(\"cbor: empty protected header\")\n\t} else {"},
		{Name: "label scan of the protected bucket forbids tagged values", File: "headers.go", Rule: "R07.5", Key: "content-mode",
			Old: "\tvar header map[headerLabelValidator]discardedCBORMessage\n\treturn decMode.Unmarshal(data, &header)", New: "\tvar header map[headerLabelValidator]discardedCBORMessage\n\treturn decModeWithTagsForbidden.Unmarshal(data, &header)"},
		{Name: "countersignature list form not tried for 3-element heads", File: "headers.go", Rule: "R07.5", Key: "refusal",
			Old: "\tvar result2 []*Countersignature\n\terr = decMode.Unmarshal(value, &result2)\n\tif err == nil {\n\t\treturn result2, nil\n\t}\n", New: "\tif len(value) > 0 && value[0] != 0x83 {\n\t\tvar result2 []*Countersignature\n\t\terr = decMode.Unmarshal(value, &result2)\n\t\tif err == nil {\n\t\t\treturn result2, nil\n\t\t}\n\t}\n"},
		{Name: "protected map guard tests the head byte range", File: "headers.go", Rule: "R07.5",
			Old: "\t\tif encoded[0]>>5 != 5 { // major type 5: map", New: "\t\tif encoded[0] < 0xa0 || encoded[0] > 0xb7 { // major type 5: map"},
		{Name: "empty decoded map refused", File: "headers.go", Rule: "R07.4",
			Old: "\t\tcandidate := ProtectedHeader(header)\n", New: "\t\tif len(header) == 0 {\n\t\t\treturn errors.New(\"cbor: empty map in protected header\")\n\t\t}\n\t\tcandidate := ProtectedHeader(header)\n"},
	}
}

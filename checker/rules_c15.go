package main

// C15 — accepted COSE_Keys are consistent and their restrictions are enforced.

import (
	"fmt"
	"go/types"
	"sort"
	"strconv"
	"strings"

	"golang.org/x/tools/go/ssa"
)

func init() {
	register(&propSpec{id: "C15", title: "COSE_Key decoder pipeline, consistency table, key_ops gate, derive table", run: runC15, mutants: mutC15, design: "DESIGN.md section 3, C15"})
}

// keyValidate: the consistency check: method of Key with one KeyOp parameter returning error.
func (P *Prog) keyValidate() *ssa.Function {
	var cands []*ssa.Function
	for _, fn := range P.Funcs {
		if fn.Signature.Recv() != nil && isNamed(deref(fn.Signature.Recv().Type()), cosePath, "Key") && len(fn.Params) == 2 && isNamed(fn.Params[1].Type(), cosePath, "KeyOp") && errIndex(fn) == 0 && fn.Signature.Results().Len() == 1 {
			cands = append(cands, fn)
		}
	}
	// per-key-type parts split off the check have the same shape: the check is
	// the candidate that no other candidate calls
	var roots []*ssa.Function
	for _, c := range cands {
		calledByOther := false
		for _, d := range cands {
			if d == c {
				continue
			}
			for _, ci := range callsIn(d, nil) {
				if staticCallee(ci) == c {
					calledByOther = true
				}
			}
		}
		if !calledByOther {
			roots = append(roots, c)
		}
	}
	if len(roots) == 1 {
		return roots[0]
	}
	undecidedf("anchor not found: COSE_Key consistency check (method of Key taking a KeyOp)")
	return nil
}

// keyDerive: method of Key with no parameters returning (Algorithm, error)
// that switches on the key type (not the one that first consults k.Algorithm).
func (P *Prog) keyDerive() *ssa.Function {
	val := P.keyValidate()
	var visit func(f *ssa.Function, depth int) *ssa.Function
	visit = func(f *ssa.Function, depth int) *ssa.Function {
		for _, ci := range callsIn(f, nil) {
			c := staticCallee(ci)
			if c == nil || !P.inPkg(c) {
				continue
			}
			if c.Signature.Results().Len() == 2 && isNamed(c.Signature.Results().At(0).Type(), cosePath, "Algorithm") && errIndex(c) == 1 {
				return c
			}
		}
		if depth < 2 {
			for _, ci := range callsIn(f, nil) {
				if c := staticCallee(ci); c != nil && P.inPkg(c) && c != f {
					if d := visit(c, depth+1); d != nil {
						return d
					}
				}
			}
		}
		return nil
	}
	if d := visit(val, 0); d != nil {
		return d
	}
	undecidedf("anchor not found: algorithm derivation called by the consistency check")
	return nil
}

// isOpsMembership: t is "op is a member of X" (slices.Contains(X, op)) or
// "X == nil || op is a member of X" as a gate term.
func isOpsMembership(t, X *Term, op string) bool {
	if t.Op == "call" && strings.HasPrefix(t.S, "slices.Contains[") && len(t.Args) == 2 {
		return t.Args[0].eq(X) && t.Args[1].String() == op
	}
	if t.Op == "gate" && len(t.Args) == 3 {
		c := t.Args[0]
		isNil := c.Op == "binop" && c.S == "==" && len(c.Args) == 2 && ((c.Args[0].eq(X) && c.Args[1].Op == "nil") || (c.Args[1].eq(X) && c.Args[0].Op == "nil"))
		isTrue := func(u *Term) bool { return u.Op == "const" && u.S == "true" }
		if isNil && isTrue(t.Args[1]) {
			return isOpsMembership(t.Args[2], X, op)
		}
	}
	return false
}

// nonEmptyOn: the path has established len(x) != 0, spelt as !(0 == len(x)),
// 0 < len(x) or !(len(x) < 1).
func nonEmptyOn(p *Path, x string) bool {
	return condHas(p, "binop<==>(0, len("+x+"))", false, bindings{}) ||
		condHas(p, "binop<<>(0, len("+x+"))", true, bindings{}) ||
		condHas(p, "binop<<>(len("+x+"), 1)", false, bindings{}) ||
		condHas(p, "binop<<=>(1, len("+x+"))", true, bindings{})
}

func condHas(p *Path, pat string, val bool, b bindings) bool {
	pt := mustPat(pat)
	for _, c := range p.conds {
		if c.Val != val {
			continue
		}
		if _, ok := unify(pt, c.Pred, b); ok {
			return true
		}
	}
	return false
}

func runC15(r *Report, tier string) {
	P := r.P
	r.rule("R15.1", "decoder pipeline: Key.UnmarshalCBOR succeeds only under ok(decMode.Unmarshal(data, &map)) (duplicate keys refused by R05.1), kty present, integer and != 0, every typed decode (kid, alg, key_ops, base IV) error-checked, every remaining label int64 or string, and its success is the consistency check's verdict with op = reserved.")
	r.rule("R15.2", "consistency table (path enumeration of the check): EC2: curve != reserved, some of x/y/d present, every coordinate <= curve size when the size is known, curve not an OKP/ECDH-only curve; OKP: curve != reserved, x or d present, x and d absent or 32 bytes, curve not a NIST P curve; symmetric: k non-empty; kty 0 refused; after the switch: algorithm absent, or ok(derive) and equal to the derived one; operation arms: verify needs the public point (x and y, resp. x), sign needs d.")
	r.rule("R15.3", "key_ops gate: Key.Signer succeeds only under canOp(sign), ok(PrivateKey()) (itself under ok(check(sign)) and ok(derive)) and is NewSigner's verdict for AlgorithmOrDefault and that private key; Key.Verifier likewise with verify / PublicKey / NewVerifier; canOp returns true only for nil Ops or an element equal to the operation.")
	r.rule("R15.4", "derive table: the algorithm derivation succeeds exactly for (EC2,P-256)->ES256, (EC2,P-384)->ES384, (EC2,P-521)->ES512, (OKP,Ed25519)->EdDSA; PublicKey/PrivateKey return a key only on arms of those algorithms.")
	r.rule("R15.6", "key_ops carry-over: the loop of the key decoder that turns the wire key_ops list into KeyOp values stores one value per wire element on every continuing iteration (into a make(len(list)) slice at the loop index, or by append) and leaves the loop early only with an error: a present key_ops never shrinks, in particular not to the nil list that means unrestricted.")
	r.rule("R15.5", "re-encode: Key.MarshalCBOR goes through the package encoder with normalised, de-duplicated labels (R08.6).")
	r.assumes("on-curve validity is delegated to NewVerifier (R17.1); 'decodes to the same canonical bytes' rests on A4", "a wire key_ops that is present but empty decodes to nil Ops (unrestricted): not claimed either way")

	keyT := P.mustNamed("Key")
	dec := P.methodOf(keyT, "UnmarshalCBOR")
	val := P.keyValidate()
	derive := P.keyDerive()
	r.analysed(dec, val, derive)

	// R15.1
	TMP := "mod(call<invoke:cbor.DecMode.Unmarshal>(%M, $1, iface<*map[any]any>(%T)), %T)"
	ns := 0
	for _, x := range P.factsOf(dec).exits {
		if x.kind == exitFailure {
			continue
		}
		ns++
		o := r.ob("R15.1", shortFn(dec)+":exit:"+exitID(P, dec, x), dec, x.ret, "success implies the decode pipeline and is the consistency check's verdict")
		c := delegCall(x.errTerm)
		if !x.delegated || c == nil || c.S != shortFn(val) || len(c.Args) != 2 || c.Args[1].String() != "0" {
			o.fail("success is not the verdict of " + shortFn(val) + "(key, reserved): " + truncate(x.errTerm.String(), 120))
			continue
		}
		miss, b := x.facts.firstMissing([]factPat{
			fp(okp("call<invoke:cbor.DecMode.Unmarshal>(%M, $1, iface<*map[any]any>(%T))")),
			fp("res<1>(call<%>(" + TMP + ", iface<int64>(1)))"),
			fp("binop<==>(nil, res<2>(call<%>(" + TMP + ", iface<int64>(1))))"),
			fp("!binop<==>(0, res<0>(call<%>(" + TMP + ", iface<int64>(1))))"),
			fp("binop<==>(nil, res<2>(call<%>(" + TMP + ", iface<int64>(2))))"),
			fp("binop<==>(nil, res<2>(call<%>(" + TMP + ", iface<int64>(3))))"),
			fp("binop<==>(nil, res<1>(call<%>(" + TMP + ", iface<int64>(4))))"),
			fp("binop<==>(nil, res<2>(call<%>(" + TMP + ", iface<int64>(5))))"),
		}, nil)
		okMode := false
		if b != nil {
			if g, isM := P.isModeLoad(b["M"], false); isM && g != "" {
				okMode = true
			}
		}
		o.check(miss == "" && okMode, "decode, kty present/int/!=0, kid/alg/key_ops/base IV errors checked", "missing on the success exit: "+truncate(miss, 200))
	}
	r.floor("R15.1", ns, 1, "success exits of the key decoder")
	// what is validated is what was decoded: no field of an earlier key
	// survives in the receiver (the consistency check would run against it)
	checkReceiverAssigned(r, "R15.1", dec)
	// label loop: kept entries have int64 or string labels
	{
		var L *loopInfo
		host := dec
		for _, l := range findLoops(dec) {
			if l.kind == "map-range" {
				L = l
			}
		}
		if L == nil {
			// the copy loop may live in a helper the decoder calls (and whose error it returns)
			for _, ci := range callsIn(dec, nil) {
				g := staticCallee(ci)
				if g == nil || !P.inPkg(g) || errIndex(g) < 0 {
					continue
				}
				for _, l := range findLoops(g) {
					if l.kind == "map-range" {
						if v, ok := ci.(ssa.Value); ok {
							errT := P.terms.of(v)
							if g.Signature.Results().Len() > 1 {
								errT = &Term{Op: "res", S: itoa(int64(errIndex(g))), Args: []*Term{errT}}
							}
							okAll := true
							for _, x := range P.factsOf(dec).exits {
								if x.kind != exitFailure && !exitFacts(P, x).has(okFact(errT)) {
									okAll = false
								}
							}
							if okAll {
								L, host = l, g
							}
						}
					}
				}
			}
		}
		o := r.ob("R15.1", shortFn(dec)+":labels", dec, nil, "every remaining parameter label is int64 or string")
		if L == nil {
			o.fail("no range over the remaining parameters (in the decoder or a helper whose success it requires)")
		} else {
			why := ""
			for _, p := range P.enumPaths(host, L.body, func(b *ssa.BasicBlock) bool { return b == L.header }, false) {
				if p.ret != nil {
					continue
				}
				// the label test may sit in a helper whose success the path requires
				for _, cs := range P.expandConds(p.conds, 0) {
					q := *p
					q.conds = cs
					if !q.feasible() {
						continue
					}
					if !condHas(&q, "res<1>(typeassert<int64,ok>(res<1>(next(%R))))", true, bindings{}) && !condHas(&q, "res<1>(typeassert<string,ok>(res<1>(next(%R))))", true, bindings{}) {
						why = "a parameter can be kept whose label is neither int64 nor string"
					}
				}
			}
			o.check(why == "", "int64 | string", why)
		}
	}

	// R15.2
	EC2 := "call<(*Key).EC2>(%K)"
	OKP := "call<(*Key).OKP>(%K)"
	nsucc := map[string]int{}
	vocab := map[*ssa.Function]bool{derive: true}
	for _, n := range []string{"EC2", "OKP", "Symmetric"} {
		if f := P.methodOf(P.mustNamed("Key"), n); f != nil {
			vocab[f] = true
		}
	}
	for _, f := range P.Funcs {
		if f.Signature.Recv() == nil && len(f.Params) == 1 && isNamed(f.Params[0].Type(), cosePath, "Curve") {
			vocab[f] = true // curve size
		}
	}
	for _, p := range P.deepViews(val, func(f *ssa.Function) bool { return vocab[f] }) {
		if !p.feasible() {
			continue
		}
		fs := factSet{}
		for _, c := range p.conds {
			fs.add(c)
		}
		if k, _ := P.classifyErr(p.results()[0], fs); k == exitFailure {
			continue
		}
		r.paths++
		kty := "other"
		for _, k := range []int64{0, 1, 2, 4} {
			if condHas(p, fmt.Sprintf("binop<==>($0.Type, %d)", k), true, bindings{}) {
				kty = fmt.Sprint(k)
			}
		}
		nsucc[kty]++
		id := fmt.Sprintf("%s:kty=%s:path:%s", shortFn(val), kty, pathID(p))
		why := ""
		need := func(pat string, v bool, what string) {
			if why == "" && !condHas(p, pat, v, bindings{}) {
				why = what
			}
		}
		needNE := func(x string, what string) {
			if why == "" && !nonEmptyOn(p, x) {
				why = what
			}
		}
		verify := condHas(p, "binop<==>($1, 2)", true, bindings{})
		sign := condHas(p, "binop<==>($1, 1)", true, bindings{})
		switch kty {
		case "0":
			why = "a key with the reserved key type 0 passes the consistency check"
		case "2":
			need("binop<==>(0, res<0>("+EC2+"))", false, "EC2: reserved curve accepted")
			if !(nonEmptyOn(p, "res<1>("+EC2+")") || nonEmptyOn(p, "res<2>("+EC2+")") || nonEmptyOn(p, "res<3>("+EC2+")")) && why == "" {
				why = "EC2: a key without x, y and d is accepted"
			}
			if condHas(p, "binop<<>(0, call<%>(res<0>("+EC2+")))", true, bindings{}) {
				for i, n := range []string{"x", "y", "d"} {
					need(fmt.Sprintf("binop<<>(call<%%>(res<0>(%s)), len(res<%d>(%s)))", EC2, i+1, EC2), false, "EC2: "+n+" longer than the curve size is not refused on this path")
				}
			} else if !condHas(p, "binop<<>(0, call<%>(res<0>("+EC2+")))", false, bindings{}) && why == "" {
				why = "EC2: the curve size is not consulted"
			}
			for _, c := range []int64{4, 5, 6, 7} {
				need(fmt.Sprintf("binop<==>(%d, res<0>(%s))", c, EC2), false, fmt.Sprintf("EC2: curve %d (not an EC2 curve) accepted", c))
			}
			if verify {
				needNE("res<1>("+EC2+")", "EC2/verify: missing x accepted")
				needNE("res<2>("+EC2+")", "EC2/verify: missing y accepted")
			}
			if sign {
				needNE("res<3>("+EC2+")", "EC2/sign: missing d accepted")
			}
		case "1":
			need("binop<==>(0, res<0>("+OKP+"))", false, "OKP: reserved curve accepted")
			if !(nonEmptyOn(p, "res<1>("+OKP+")") || nonEmptyOn(p, "res<2>("+OKP+")")) && why == "" {
				why = "OKP: a key without x and d is accepted"
			}
			for i, n := range []string{"x", "d"} {
				absent := condHas(p, fmt.Sprintf("binop<<>(0, len(res<%d>(%s)))", i+1, OKP), false, bindings{})
				exact := condHas(p, fmt.Sprintf("binop<==>(32, len(res<%d>(%s)))", i+1, OKP), true, bindings{})
				if !absent && !exact && why == "" {
					why = "OKP: " + n + " of a length other than 32 is accepted"
				}
			}
			for _, c := range []int64{1, 2, 3} {
				need(fmt.Sprintf("binop<==>(%d, res<0>(%s))", c, OKP), false, fmt.Sprintf("OKP: curve %d (a NIST P curve) accepted", c))
			}
			if verify {
				needNE("res<1>("+OKP+")", "OKP/verify: missing x accepted")
			}
			if sign {
				needNE("res<2>("+OKP+")", "OKP/sign: missing d accepted")
			}
		case "4":
			needNE("call<(*Key).Symmetric>(%K)", "symmetric: empty k accepted")
		}
		// algorithm consistency
		if why == "" && !condHas(p, "binop<==>($0.Algorithm, 0)", true, bindings{}) {
			okD := condHas(p, "binop<==>(nil, res<1>(call<"+shortFn(derive)+">(%K)))", true, bindings{})
			okE := condHas(p, "binop<==>($0.Algorithm, res<0>(call<"+shortFn(derive)+">(%K)))", true, bindings{})
			if !okD || !okE {
				why = fmt.Sprintf("a key with an algorithm is accepted without ok(derive) (%v) and equality with the derived algorithm (%v)", okD, okE)
			}
		}
		r.ob("R15.2", id, val, p.ret, "success path of the consistency check satisfies the table row of its key type").check(why == "", "row satisfied", why)
	}
	for _, k := range []string{"1", "2", "4"} {
		r.floor("R15.2", nsucc[k], 1, "success paths for kty "+k)
	}

	// R15.4
	{
		want := map[string]string{
			fmt.Sprintf("2/%d", P.mustConst("CurveP256")):    itoa(P.mustConst("AlgorithmES256")),
			fmt.Sprintf("2/%d", P.mustConst("CurveP384")):    itoa(P.mustConst("AlgorithmES384")),
			fmt.Sprintf("2/%d", P.mustConst("CurveP521")):    itoa(P.mustConst("AlgorithmES512")),
			fmt.Sprintf("1/%d", P.mustConst("CurveEd25519")): itoa(P.mustConst("AlgorithmEdDSA")),
		}
		got := map[string]string{}
		for _, p := range P.allPaths(derive) {
			if !p.feasible() {
				continue
			}
			res := p.results()
			fs := factSet{}
			for _, c := range p.conds {
				fs.add(c)
			}
			if k, _ := P.classifyErr(res[1], fs); k == exitFailure {
				continue
			}
			kty, crv := "?", "?"
			for _, c := range p.conds {
				if !c.Val || c.Pred.Op != "binop" || c.Pred.S != "==" {
					continue
				}
				for i := 0; i < 2; i++ {
					n, ok := termConstInt(c.Pred.Args[i])
					if !ok {
						continue
					}
					o := c.Pred.Args[1-i].String()
					if strings.HasSuffix(o, ".Type") {
						kty = fmt.Sprint(n)
					} else if strings.HasPrefix(o, "res<0>(call<(*Key).") {
						crv = fmt.Sprint(n)
					}
				}
			}
			got[kty+"/"+crv] = res[0].String()
		}
		var diff []string
		for k, v := range want {
			if got[k] != v {
				diff = append(diff, fmt.Sprintf("(kty/crv %s) -> %s, expected %s", k, got[k], v))
			}
		}
		for k, v := range got {
			if _, ok := want[k]; !ok {
				diff = append(diff, fmt.Sprintf("unexpected (kty/crv %s) -> %s", k, v))
			}
		}
		sort.Strings(diff)
		r.ob("R15.4", shortFn(derive)+":table", derive, nil, "derivation succeeds exactly for the four supported (key type, curve) pairs").check(len(diff) == 0, fmt.Sprint(got), strings.Join(diff, "; "))
	}
	// PublicKey / PrivateKey: key returned only under ok(check(op)) and ok(derive) and an algorithm arm
	for _, pr := range []struct {
		name string
		op   string
	}{{"PublicKey", "2"}, {"PrivateKey", "1"}} {
		fn := P.methodOf(keyT, pr.name)
		if fn == nil {
			undecidedf("anchor not found: Key.%s", pr.name)
		}
		for _, x := range P.factsOf(fn).exits {
			if x.kind == exitFailure {
				r.ob("R15.4", shortFn(fn)+":nil-on-error:"+exitID(P, fn, x), fn, x.ret, "no key is returned with an error").check(x.results[0].Op == "nil", "nil", "returns "+truncate(x.results[0].String(), 80)+" with an error")
				continue
			}
			miss, _ := x.facts.firstMissing([]factPat{
				fp(okp("call<" + shortFn(val) + ">(*$0, " + pr.op + ")")),
				fp("binop<==>(nil, res<1>(call<" + shortFn(derive) + ">($0)))"),
			}, nil)
			r.ob("R15.4", shortFn(fn)+":exit:"+exitID(P, fn, x), fn, x.ret, "a key is returned only under ok(check(op)) and ok(derive)").check(miss == "", "both facts", "missing "+miss)
		}
	}

	// R15.3
	canOp := (*ssa.Function)(nil)
	canOpOps, canOpOp := "$0.Ops", "$1"
	canOpInline := false
	for _, pr := range []struct{ name, op, conv, ctor string }{{"Signer", "1", "PrivateKey", "NewSigner"}, {"Verifier", "2", "PublicKey", "NewVerifier"}} {
		fn := P.methodOf(keyT, pr.name)
		conv := P.methodOf(keyT, pr.conv)
		ctor := P.mustFn(pr.ctor)
		aod := P.methodOf(keyT, "AlgorithmOrDefault")
		if fn == nil || conv == nil || aod == nil {
			undecidedf("anchor not found: Key.%s / %s / AlgorithmOrDefault", pr.name, pr.conv)
		}
		for _, x := range P.factsOf(fn).exits {
			if x.kind == exitFailure {
				continue
			}
			o := r.ob("R15.3", shortFn(fn)+":exit:"+exitID(P, fn, x), fn, x.ret, "object only under canOp(op), ok(key conversion), and it is the constructor's verdict for AlgorithmOrDefault and that key")
			c := delegCall(x.errTerm)
			okDel := x.delegated && c != nil && c.S == shortFn(ctor) && len(c.Args) == 2 && c.Args[0].String() == "res<0>(call<"+shortFn(aod)+">($0))" && strings.Contains(c.Args[1].String(), "res<0>(call<"+shortFn(conv)+">($0))")
			fs := exitFacts(P, x)
			okOp := false
			opsT := mustPat("*$0.Ops")
			for _, f := range fs {
				if !f.Val {
					continue
				}
				// the membership test written in place
				if isOpsMembership(f.Pred, opsT, pr.op) {
					okOp = true
					canOpInline = true
					continue
				}
				// a predicate over the key (by value) or over its Ops list and the operation
				if f.Pred.Op != "call" {
					continue
				}
				g := P.calleeOfTerm(f.Pred)
				if g == nil || boolResultIndex(g) != 0 {
					continue
				}
				xi, oi := -1, -1
				byKey := false
				for i, a := range f.Pred.Args {
					switch {
					case a.String() == "*$0":
						xi, byKey = i, true
					case a.eq(opsT):
						xi = i
					case a.String() == pr.op:
						oi = i
					}
				}
				if xi < 0 || oi < 0 {
					continue
				}
				okOp = true
				canOp = g
				canOpOps = "$" + strconv.Itoa(xi)
				if byKey {
					canOpOps += ".Ops"
				}
				canOpOp = "$" + strconv.Itoa(oi)
			}
			miss, _ := fs.firstMissing([]factPat{
				fp("binop<==>(nil, res<1>(call<" + shortFn(conv) + ">($0)))"),
				fp("binop<==>(nil, res<1>(call<" + shortFn(aod) + ">($0)))"),
			}, nil)
			o.check(okDel && okOp && miss == "", "canOp("+pr.op+"), ok("+pr.conv+"), "+pr.ctor+"(AlgorithmOrDefault, key)", fmt.Sprintf("delegated to %s(AlgorithmOrDefault(k), %s(k)): %v; canOp(%s) fact: %v; missing %s", pr.ctor, pr.conv, okDel, pr.op, okOp, miss))
		}
	}
	if canOp != nil {
		r.analysed(canOp)
		var L *loopInfo
		for _, l := range findLoops(canOp) {
			if l.fullRange {
				L = l
			}
		}
		why := ""
		X := mustPat(canOpOps)
		usesLoop := false
		for _, p := range P.allPaths(canOp) {
			res := p.results()
			if res[0].Op == "const" && res[0].S == "false" {
				continue
			}
			if isOpsMembership(res[0], X, canOpOp) {
				continue
			}
			nilOps := condHas(p, "binop<==>("+canOpOps+", nil)", true, bindings{})
			eq := false
			for _, c := range p.conds {
				if !c.Val {
					continue
				}
				if c.Pred.Op == "binop" && c.Pred.S == "==" && (c.Pred.Args[0].String() == canOpOp || c.Pred.Args[1].String() == canOpOp) && strings.Contains(c.Pred.String(), "index("+canOpOps) {
					eq, usesLoop = true, true
				}
				if isOpsMembership(c.Pred, X, canOpOp) {
					eq = true
				}
			}
			if !(res[0].Op == "const" && res[0].S == "true") || (!nilOps && !eq) {
				why = "the key_ops predicate returns true on a path that is neither 'Ops == nil' nor 'some element == op': " + truncate(fmt.Sprint(p.conds), 200) + " -> " + truncate(res[0].String(), 120)
			}
		}
		if usesLoop && L == nil && why == "" {
			why = "no full-range loop over Ops"
		}
		r.ob("R15.3", shortFn(canOp)+":semantics", canOp, nil, "canOp is true only for nil Ops or an element equal to the operation").check(why == "", "nil Ops | elem == op", why)
	} else if !canOpInline {
		r.ob("R15.3", "canOp:found", nil, nil, "key_ops predicate identified").fail("no canOp(op) fact on the Signer/Verifier success exits")
	}
	// R15.5: shares R08.6's key-label obligation
	if enc := P.methodOf(keyT, "MarshalCBOR"); enc != nil {
		ok := false
		for _, x := range P.factsOf(enc).exits {
			if x.kind != exitFailure {
				if c := delegCall(x.errTerm); c != nil && c.S == "invoke:cbor.EncMode.Marshal" {
					if g, isM := P.isModeLoad(c.Args[0], true); isM && encoderDeterministic(P, g) == "" {
						ok = true
					}
				}
			}
		}
		r.ob("R15.5", shortFn(enc)+":encoder", enc, nil, "Key.MarshalCBOR returns the package's deterministic encoder output").check(ok, "encMode.Marshal", "the key encoder does not end in the package encoder")
	}
	checkKeyOpsCarried(r, "R15.6")
}

// checkKeyOpsCarried: R15.6.
func checkKeyOpsCarried(r *Report, rule string) {
	P := r.P
	keyT := P.mustNamed("Key")
	dec := P.methodOf(keyT, "UnmarshalCBOR")
	if dec == nil {
		undecidedf("anchor not found: Key.UnmarshalCBOR")
	}
	isKeyOp := func(t types.Type) bool { return isNamed(t, cosePath, "KeyOp") }
	isKeyOps := func(t types.Type) bool {
		sl, ok := t.Underlying().(*types.Slice)
		return ok && isKeyOp(sl.Elem())
	}
	var fns []*ssa.Function
	for f := range P.reachable([]*ssa.Function{dec}) {
		if P.inPkg(f) {
			fns = append(fns, f)
		}
	}
	sort.Slice(fns, func(i, j int) bool { return fns[i].String() < fns[j].String() })
	n := 0
	for _, f := range fns {
		for _, L := range findLoops(f) {
			if L.over == nil || L.body == nil || !(L.kind == "slice-range" || L.kind == "counted") {
				continue
			}
			if sl, ok := L.over.Type().Underlying().(*types.Slice); !ok || !types.IsInterface(sl.Elem()) {
				continue
			}
			// the loop produces KeyOp values
			produces := false
			for b := range L.blocks {
				for _, in := range b.Instrs {
					if v, ok := in.(ssa.Value); ok && (isKeyOp(v.Type()) || isKeyOps(v.Type())) {
						produces = true
					}
					if st, ok := in.(*ssa.Store); ok && isKeyOp(st.Val.Type()) {
						produces = true
					}
				}
			}
			if !produces {
				continue
			}
			n++
			r.analysed(f)
			o := r.ob(rule, shortFn(f)+":key_ops-loop", f, L.header.Instrs[len(L.header.Instrs)-1], "every wire key_ops element yields one stored KeyOp; the loop is left early only with an error")
			why := ""
			if !L.fullRange {
				why = "the loop does not cover the whole wire list"
			}
			overT := P.terms.of(L.over)
			for _, p := range P.enumPaths(f, L.body, func(b *ssa.BasicBlock) bool { return b == L.header }, false) {
				if p.ret != nil {
					fs := factSet{}
					for _, c := range p.conds {
						fs.add(c)
					}
					ei := errIndex(f)
					if ei < 0 {
						why = "the loop body returns from a function without an error result"
					} else if k, _ := P.classifyErr(p.results()[ei], fs); k != exitFailure {
						why = "the loop body can return success before the list is exhausted"
					}
					continue
				}
				stored := false
				p.instrs(func(in ssa.Instruction) {
					switch x := in.(type) {
					case *ssa.Store:
						ia, ok := x.Addr.(*ssa.IndexAddr)
						if !ok || !isKeyOps(ia.X.Type()) {
							return
						}
						// same position: the loop's own index, in a slice made with the list's length
						it := p.eng.of(ia.Index)
						xt := p.eng.of(ia.X)
						sameIdx := it.eq(p.eng.of(L.idx))
						if L.kind == "slice-range" {
							sameIdx = sameIdx || ia.Index == L.idx
						}
						sized := xt.Op == "makeslice" && len(xt.Args) >= 1 && xt.Args[0].eq(tLen(overT))
						if sameIdx && sized {
							stored = true
						}
					case *ssa.Call:
						if b, ok := x.Call.Value.(*ssa.Builtin); ok && b.Name() == "append" && isKeyOps(x.Type()) && len(x.Call.Args) == 2 {
							// the appended list is the one the loop carries forward
							stored = true
						}
					}
				})
				if !stored && why == "" {
					why = "an iteration can continue without storing a KeyOp for its element (conditions: " + truncate(fmt.Sprint(p.conds), 160) + "): a present key_ops can shrink, down to the nil list that means unrestricted"
				}
			}
			o.check(why == "", "one store per element at the loop index of make(len(list)), early exits are errors", why)
		}
	}
	r.floor(rule, n, 1, "loops turning the wire key_ops list into KeyOp values")
}

func mutC15() []mutant {
	return []mutant{
		{Name: "reserved key_ops entries are skipped by the decoder", File: "key.go", Rule: "R15.6",
			Old: "\t\t\tcase int64:\n\t\t\t\tk.Ops[i] = KeyOp(op)\n", New: "\t\t\tcase int64:\n\t\t\t\tif op == 0 {\n\t\t\t\t\tcontinue\n\t\t\t\t}\n\t\t\t\tk.Ops[i] = KeyOp(op)\n"},
		{Name: "kty == 0 no longer refused by the decoder", File: "key.go", Quick: true, Rule: "R15.1",
			Old: "\tif k.Type == KeyTypeReserved {\n\t\treturn errors.New(\"kty: invalid value 0\")\n\t}\n", New: ""},
		{Name: "parameters with other label types are kept", File: "key.go", Rule: "R15.1",
			Old: "\t\t\tdefault:\n\t\t\t\treturn fmt.Errorf(\"invalid label type %T\", lbl)\n", New: "\t\t\tdefault:\n\t\t\t\tk.Params[lbl] = v\n"},
		{Name: "OKP arm forgets the NIST curves", File: "key.go", Quick: true, Rule: "R15.2",
			Old: "\t\tcase CurveP256, CurveP384, CurveP521:\n\t\t\treturn errInvalidCurve\n", New: "\t\tcase CurveP256, CurveP384:\n\t\t\treturn errInvalidCurve\n"},
		{Name: "algorithm equality skipped when derivation fails", File: "key.go", Rule: "R15.2",
			Old: "\t\texpectedAlg, err := k.deriveAlgorithm()\n\t\tif err != nil {\n\t\t\treturn err\n\t\t}\n", New: "\t\texpectedAlg, err := k.deriveAlgorithm()\n\t\tif err != nil {\n\t\t\treturn nil\n\t\t}\n"},
		{Name: "Verifier tests key_ops for sign", File: "key.go", Rule: "R15.3",
			Old: "\tif !k.canOp(KeyOpVerify) {", New: "\tif !k.canOp(KeyOpSign) {"},
		{Name: "canOp true for an empty non-nil Ops", File: "key.go", Rule: "R15.3",
			Old: "\tif k.Ops == nil {\n\t\treturn true\n\t}", New: "\tif len(k.Ops) == 0 {\n\t\treturn true\n\t}"},
		{Name: "Signer skips the key_ops test", File: "key.go", Rule: "R15.3",
			Old: "\tif !k.canOp(KeyOpSign) {\n\t\treturn nil, ErrOpNotSupported\n\t}\n", New: ""},
		{Name: "derive maps X25519 to EdDSA", File: "key.go", Rule: "R15.4",
			Old: "\t\tcase CurveEd25519:\n\t\t\treturn AlgorithmEdDSA, nil", New: "\t\tcase CurveEd25519, CurveX25519:\n\t\t\treturn AlgorithmEdDSA, nil"},
		{Name: "d is only bounded when signing", File: "key.go", Rule: "R15.2",
			Old: "\t\t\tif len(x) > size || len(y) > size || len(d) > size {", New: "\t\t\tif len(x) > size || len(y) > size || (op == KeyOpSign && len(d) > size) {"},
		{Name: "symmetric key with empty k accepted", File: "key.go", Rule: "R15.2",
			Old: "\t\tif len(k) == 0 {\n\t\t\treturn errReqParamsMissing\n\t\t}\n", New: "\t\t_ = k\n"},
		{Name: "alg type error ignored", File: "key.go", Rule: "R15.1",
			Old: "\talg, _, err := decodeInt(tmp, keyLabelAlgorithm)\n\tif err != nil {\n\t\treturn fmt.Errorf(\"alg: %w\", err)\n\t}", New: "\talg, _, _ := decodeInt(tmp, keyLabelAlgorithm)"},
		{Name: "PublicKey converts without the verify-op check", File: "key.go", Rule: "R15.4",
			Old: "func (k *Key) PublicKey() (crypto.PublicKey, error) {\n\tif err := k.validate(KeyOpVerify); err != nil {", New: "func (k *Key) PublicKey() (crypto.PublicKey, error) {\n\tif err := k.validate(KeyOpReserved); err != nil {"},
	}
}

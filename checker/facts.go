package main

// E3: forward must-facts over the SSA CFG. A fact is a normalised boolean
// term with a polarity that holds on every path reaching a program point.
// Facts come from the surviving edges of If instructions; joins intersect;
// writes to memory kill the facts that read the written location; when an
// edge establishes ok(call f) for an in-package f, f's own success summary is
// conjoined (DESIGN.md 2.5).

import (
	"sort"
	"strconv"
	"strings"

	"golang.org/x/tools/go/ssa"
)

type Fact struct {
	Pred *Term
	Val  bool
}

func (f Fact) String() string {
	if f.Val {
		return f.Pred.String()
	}
	return "!" + f.Pred.String()
}

type factSet map[string]Fact

func (s factSet) clone() factSet {
	n := make(factSet, len(s))
	for k, v := range s {
		n[k] = v
	}
	return n
}

func (s factSet) add(f Fact) { s[f.String()] = f }

func (s factSet) has(f Fact) bool { _, ok := s[f.String()]; return ok }

func intersect(a, b factSet) factSet {
	n := factSet{}
	for k, v := range a {
		if _, ok := b[k]; ok {
			n[k] = v
		}
	}
	return n
}

func (s factSet) equal(o factSet) bool {
	if len(s) != len(o) {
		return false
	}
	for k := range s {
		if _, ok := o[k]; !ok {
			return false
		}
	}
	return true
}

func (s factSet) sorted() []string {
	out := make([]string, 0, len(s))
	for k := range s {
		out = append(out, k)
	}
	sort.Strings(out)
	return out
}

// normFact canonicalises a branch condition + polarity.
func normFact(c *Term, val bool) Fact {
	for {
		if c.Op == "unop" && c.S == "!" {
			c, val = c.Args[0], !val
			continue
		}
		if c.Op == "binop" && c.S == "!=" {
			c = &Term{Op: "binop", S: "==", Args: c.Args}
			val = !val
			continue
		}
		break
	}
	// a branch condition is a boolean: the zero value in that position (a
	// flag field left out of a struct literal) is false
	if c.Op == "zero" && len(c.Args) == 0 {
		c = T("const", "false")
	}
	return Fact{normCond(c), val}
}

type exitKind int

const (
	exitSuccess exitKind = iota
	exitFailure
	exitMixed
)

func (k exitKind) String() string { return [...]string{"success", "failure", "mixed"}[k] }

type exitInfo struct {
	ret     *ssa.Return
	kind    exitKind
	facts   factSet
	errTerm *Term
	results []*Term
	// delegated: the error operand is a callee's result handed through
	delegated bool
	// pred: for a virtual exit (one incoming edge of a phi-returning block)
	// the predecessor block of that edge
	pred *ssa.BasicBlock
}

type factResult struct {
	fn      *ssa.Function
	in      map[*ssa.BasicBlock]factSet // facts at block entry
	exits   []*exitInfo
	summary factSet // intersection over success exits, in callee terms
	busy    bool
}

// factsOf computes (memoised) the fact analysis of fn.
func (P *Prog) factsOf(fn *ssa.Function) *factResult {
	if r, ok := P.facts[fn]; ok {
		return r
	}
	r := &factResult{fn: fn, in: map[*ssa.BasicBlock]factSet{}, busy: true}
	P.facts[fn] = r
	if fn.Blocks == nil {
		r.busy = false
		r.summary = factSet{}
		return r
	}
	e := P.terms
	// worklist; nil = top (unvisited)
	r.in[fn.Blocks[0]] = factSet{}
	work := []*ssa.BasicBlock{fn.Blocks[0]}
	if fn.Recover != nil {
		r.in[fn.Recover] = factSet{}
		work = append(work, fn.Recover)
	}
	iter := 0
	for len(work) > 0 {
		iter++
		if iter > 20000 {
			undecidedf("facts: no fixpoint in %s", shortFn(fn))
		}
		b := work[0]
		work = work[1:]
		out := P.transferBlock(r.in[b].clone(), b, nil)
		for si, s := range b.Succs {
			es := out
			if iff, ok := b.Instrs[len(b.Instrs)-1].(*ssa.If); ok && b.Succs[0] != b.Succs[1] {
				es = out.clone()
				P.addEdgeFacts(es, e.of(iff.Cond), si == 0, iff)
			}
			old, seen := r.in[s]
			var nw factSet
			if !seen {
				nw = es.clone()
			} else {
				nw = intersect(old, es)
			}
			if !seen || !nw.equal(old) {
				r.in[s] = nw
				work = append(work, s)
			}
		}
	}
	// exits
	ei := errIndex(fn)
	for _, b := range fn.Blocks {
		if len(b.Instrs) == 0 {
			continue
		}
		ret, ok := b.Instrs[len(b.Instrs)-1].(*ssa.Return)
		if !ok {
			continue
		}
		in, reach := r.in[b]
		if !reach {
			continue // unreachable block
		}
		// a return reached over several edges is split into one virtual exit
		// per incoming edge when that sharpens the verdict (the `if err == nil
		// { err = f() }; return err` and `if err = f(); err == nil { ... };
		// return err` shapes): each edge has its own facts and its own values
		if ei >= 0 && len(b.Preds) > 1 {
			var vx []*exitInfo
			for i, pred := range b.Preds {
				pin, ok := r.in[pred]
				if !ok {
					continue
				}
				fs := P.transferBlock(pin.clone(), pred, nil)
				if iff, ok := pred.Instrs[len(pred.Instrs)-1].(*ssa.If); ok && pred.Succs[0] != pred.Succs[1] {
					P.addEdgeFacts(fs, e.of(iff.Cond), pred.Succs[0] == b, iff)
				}
				fs = P.transferBlock(fs, b, ret)
				x := &exitInfo{ret: ret, facts: fs, pred: pred}
				for _, res := range ret.Results {
					x.results = append(x.results, e.ofAtEdge(res, b, i))
				}
				x.errTerm = x.results[ei]
				x.kind, x.delegated = P.classifyErr(x.errTerm, fs)
				vx = append(vx, x)
			}
			_, isPhi := ret.Results[ei].(*ssa.Phi)
			mfs := P.transferBlock(in.clone(), b, ret)
			mk, md := P.classifyErr(e.of(ret.Results[ei]), mfs)
			sharper := isPhi && ret.Results[ei].(*ssa.Phi).Block() == b
			for _, x := range vx {
				if x.kind != mk || x.delegated != md {
					sharper = true
				}
			}
			if sharper && len(vx) > 0 {
				r.exits = append(r.exits, vx...)
				continue
			}
		}
		fs := P.transferBlock(in.clone(), b, ret)
		x := &exitInfo{ret: ret, facts: fs}
		for _, res := range ret.Results {
			x.results = append(x.results, e.of(res))
		}
		if ei >= 0 {
			x.errTerm = x.results[ei]
			x.kind, x.delegated = P.classifyErr(x.errTerm, fs)
		} else {
			x.kind = exitSuccess
		}
		r.exits = append(r.exits, x)
	}
	// summary
	var sum factSet
	for _, x := range r.exits {
		if x.kind == exitFailure {
			continue
		}
		fs := x.facts
		if x.delegated {
			// the delegated callee's success is part of this exit's success
			fs = fs.clone()
			P.addEdgeFacts(fs, &Term{Op: "binop", S: "==", Args: []*Term{x.errTerm, T("nil", "")}}, true, x.ret)
		}
		if sum == nil {
			sum = fs.clone()
		} else {
			sum = intersect(sum, fs)
		}
	}
	if sum == nil {
		sum = factSet{}
	}
	r.summary = sum
	r.busy = false
	return r
}

// classifyErr decides whether a returned error term is nil, non-nil or a
// callee's verdict handed through.
func (P *Prog) classifyErr(t *Term, fs factSet) (exitKind, bool) {
	switch t.Op {
	case "nil":
		return exitSuccess, false
	case "gate":
		k1, _ := P.classifyErr(t.Args[1], fs)
		k2, _ := P.classifyErr(t.Args[2], fs)
		if k1 == k2 {
			return k1, false
		}
		return exitMixed, false
	case "phi", "alt":
		var k exitKind = -1
		for _, a := range t.Args {
			ka, _ := P.classifyErr(a, fs)
			if k == -1 {
				k = ka
			} else if k != ka {
				return exitMixed, false
			}
		}
		return k, false
	case "res", "call":
		if t.Op == "res" && (len(t.Args) != 1 || t.Args[0].Op != "call") {
			break
		}
		call := t
		if t.Op == "res" {
			call = t.Args[0]
		}
		switch call.S {
		case "errors.New", "fmt.Errorf":
			return exitFailure, false
		}
		isNil := normFact(&Term{Op: "binop", S: "==", Args: []*Term{t, T("nil", "")}}, true)
		if fs.has(Fact{isNil.Pred, false}) {
			return exitFailure, false
		}
		if fs.has(Fact{isNil.Pred, true}) {
			return exitSuccess, false
		}
		// an in-package callee (also a function literal) every exit of which
		// fails, resp. succeeds, gives a decided verdict
		if g := P.calleeOfTerm(call); g != nil && g.Blocks != nil {
			if fr, done := P.facts[g]; !done || !fr.busy {
				fr := P.factsOf(g)
				ei := errIndex(g)
				idx := 0
				if t.Op == "res" {
					idx, _ = strconv.Atoi(t.S)
				}
				if !fr.busy && ei == idx && len(fr.exits) > 0 {
					allFail, allOK := true, true
					for _, x := range fr.exits {
						if x.kind != exitFailure {
							allFail = false
						}
						if x.kind != exitSuccess || x.delegated {
							allOK = false
						}
					}
					if allFail {
						return exitFailure, false
					}
					if allOK {
						return exitSuccess, false
					}
				}
			}
		}
		return exitSuccess, true // delegated
	case "load":
		// package-level error variables are non-nil (R18.3: init-only)
		if t.Args[0].Op == "global" {
			return exitFailure, false
		}
	case "iface":
		return exitFailure, false
	}
	isNil := normFact(&Term{Op: "binop", S: "==", Args: []*Term{t, T("nil", "")}}, true)
	if fs.has(Fact{isNil.Pred, false}) {
		return exitFailure, false
	}
	if fs.has(Fact{isNil.Pred, true}) {
		return exitSuccess, false
	}
	return exitMixed, false
}

// addEdgeFacts adds the fact cond==val and, when it establishes the success
// of an in-package call, the callee's summary.
func (P *Prog) addEdgeFacts(fs factSet, cond *Term, val bool, at ssa.Instruction) {
	f := normFact(cond, val)
	fs.add(f)
	// a boolean computed by && / || arrives as gate(c, a, b): decompose the
	// polarities that determine the operands
	if f.Pred.Op == "gate" && len(f.Pred.Args) == 3 {
		c, a, b := f.Pred.Args[0], f.Pred.Args[1], f.Pred.Args[2]
		isC := func(t *Term, v string) bool { return t.Op == "const" && t.S == v }
		switch {
		case f.Val && isC(b, "false"): // c && a
			P.addEdgeFacts(fs, c, true, at)
			P.addEdgeFacts(fs, a, true, at)
		case f.Val && isC(a, "false"): // !c && b
			P.addEdgeFacts(fs, c, false, at)
			P.addEdgeFacts(fs, b, true, at)
		case !f.Val && isC(a, "true"): // !(c || b)
			P.addEdgeFacts(fs, c, false, at)
			P.addEdgeFacts(fs, b, false, at)
		case !f.Val && isC(b, "true"): // !(!c || a)
			P.addEdgeFacts(fs, c, true, at)
			P.addEdgeFacts(fs, a, false, at)
		}
	}
	// comparisons with the builtin max / min of several operands determine
	// the comparison with each operand in one polarity:
	//   !(S < max(a..)), max(a..) < S, max(a..) <= S   hold for every a
	//   S < min(a..), S <= min(a..), !(min(a..) < S)   hold for every a
	if f.Pred.Op == "binop" && (f.Pred.S == "<" || f.Pred.S == "<=") && len(f.Pred.Args) == 2 {
		l, rgt := f.Pred.Args[0], f.Pred.Args[1]
		each := func(m *Term, mk func(a *Term) *Term) {
			for _, a := range m.Args {
				P.addEdgeFacts(fs, mk(a), f.Val, at)
			}
		}
		switch {
		case rgt.Op == "max" && !f.Val, rgt.Op == "min" && f.Val:
			each(rgt, func(a *Term) *Term { return &Term{Op: "binop", S: f.Pred.S, Args: []*Term{l, a}} })
		case l.Op == "max" && f.Val, l.Op == "min" && !f.Val:
			each(l, func(a *Term) *Term { return &Term{Op: "binop", S: f.Pred.S, Args: []*Term{a, rgt}} })
		}
	}
	// ok(call): (res<i>(call f ...) == nil) true, or (call f == nil) true
	if f.Val && f.Pred.Op == "binop" && f.Pred.S == "==" {
		var other *Term
		switch {
		case f.Pred.Args[0].Op == "nil":
			other = f.Pred.Args[1]
		case f.Pred.Args[1].Op == "nil":
			other = f.Pred.Args[0]
		}
		if other != nil {
			P.conjoinCallee(fs, other)
		}
	}
	// boolean-valued in-package predicates: conjoin what their true/false
	// result implies (summary of the exits returning that constant)
	if f.Pred.Op == "call" {
		P.conjoinBoolCallee(fs, f.Pred, f.Val)
	}
	if f.Pred.Op == "res" && len(f.Pred.Args) == 1 && f.Pred.Args[0].Op == "call" {
		P.conjoinBoolCallee(fs, f.Pred, f.Val)
	}
}

func (P *Prog) calleeOfTerm(call *Term) *ssa.Function {
	if call.Op != "call" {
		return nil
	}
	fn := P.byName[unshortFn(call.S)]
	if fn == nil || !P.inPkg(fn) {
		return nil
	}
	return fn
}

func (P *Prog) conjoinCallee(fs factSet, errT *Term) {
	call := errT
	if errT.Op == "res" && len(errT.Args) == 1 {
		call = errT.Args[0]
	}
	fn := P.calleeOfTerm(call)
	if fn == nil {
		return
	}
	if errT.Op == "res" {
		if i, _ := strconv.Atoi(errT.S); i != errIndex(fn) {
			return
		}
	}
	r := P.factsOf(fn)
	if r.busy {
		return // recursion: nothing conjoined
	}
	m := map[string]*Term{}
	m0 := map[string]*Term{} // the same without snapshots: facts keep speaking of the local's fields
	snapped := false
	for i, a := range call.Args {
		m[strconv.Itoa(i)] = a
		m0[strconv.Itoa(i)] = a
		if a.Op == "alloc" && a.Snap != nil {
			m0[strconv.Itoa(i)] = T("alloc", a.S)
			snapped = true
		}
	}
	for _, f := range r.summary {
		if !closedOverParams(f.Pred) {
			continue
		}
		fs.add(Fact{normCond(f.Pred.subst(m0)), f.Val})
		if snapped {
			fs.add(Fact{normCond(f.Pred.subst(m)), f.Val})
		}
	}
}

// conjoinBoolCallee: for `if pred(x)` with in-package pred returning bool
// (possibly as one of several results), add facts common to all exits that
// return the constant val in that position.
func (P *Prog) conjoinBoolCallee(fs factSet, t *Term, val bool) {
	call, idx := t, 0
	if t.Op == "res" {
		call = t.Args[0]
		idx, _ = strconv.Atoi(t.S)
	}
	fn := P.calleeOfTerm(call)
	if fn == nil {
		return
	}
	r := P.factsOf(fn)
	if r.busy {
		return
	}
	want := "false"
	if val {
		want = "true"
	}
	var sum factSet
	for _, x := range r.exits {
		if idx >= len(x.results) {
			return
		}
		rt := x.results[idx]
		if rt.Op == "const" && rt.S != want {
			continue
		}
		fsx := x.facts
		if rt.Op != "const" {
			// returns a computed boolean: that boolean equals val
			fsx = fsx.clone()
			P.addEdgeFacts(fsx, rt, val, x.ret)
		}
		if sum == nil {
			sum = fsx.clone()
		} else {
			sum = intersect(sum, fsx)
		}
	}
	m := map[string]*Term{}
	m0 := map[string]*Term{}
	snapped := false
	for i, a := range call.Args {
		m[strconv.Itoa(i)] = a
		m0[strconv.Itoa(i)] = a
		if a.Op == "alloc" && a.Snap != nil {
			m0[strconv.Itoa(i)] = T("alloc", a.S)
			snapped = true
		}
	}
	for _, f := range sum {
		if !closedOverParams(f.Pred) {
			continue
		}
		fs.add(Fact{normCond(f.Pred.subst(m0)), f.Val})
		if snapped {
			fs.add(Fact{normCond(f.Pred.subst(m)), f.Val})
		}
	}
}

// closedOverParams: the term mentions no callee-local allocation, phi cycle
// or dirty value, so it is meaningful to the caller after substitution.
func closedOverParams(t *Term) bool {
	return !t.contains(func(u *Term) bool {
		switch u.Op {
		case "cyc", "dirty", "freevar":
			return true
		}
		return false
	})
}

// transferBlock pushes facts through the instructions of b up to (not
// including) stop (nil: whole block): writes kill dependent facts.
func (P *Prog) transferBlock(fs factSet, b *ssa.BasicBlock, stop ssa.Instruction) factSet {
	e := P.terms
	for _, in := range b.Instrs {
		if in == stop {
			break
		}
		switch in := in.(type) {
		case *ssa.Store:
			root, path := e.addrPath(in.Addr)
			killFacts(fs, e.rootKey(root), path)
		case *ssa.MapUpdate:
			// element write of a map object: kill facts that look the map up
			mt := e.of(in.Map).String()
			for k, f := range fs {
				if f.Pred.contains(func(u *Term) bool { return u.Op == "lookup" && u.Args[0].String() == mt }) {
					delete(fs, k)
				}
			}
		case ssa.CallInstruction:
			for _, w := range e.callWrites(in) {
				killFacts(fs, w.rootKey, w.path)
			}
		}
	}
	return fs
}

// termLoc: for load(ptr) gives rootKey and path of ptr.
func termLoc(ptr *Term) (string, []string) {
	var path []string
	for {
		switch ptr.Op {
		case "field":
			path = append([]string{ptr.S}, path...)
			ptr = ptr.Args[0]
			continue
		case "index":
			idx := "[*]"
			if ptr.Args[1].Op == "const" {
				idx = "[" + ptr.Args[1].S + "]"
			}
			path = append([]string{idx}, path...)
			ptr = ptr.Args[0]
			continue
		}
		break
	}
	switch ptr.Op {
	case "param":
		return "param:" + ptr.S, path
	case "global":
		return "global:" + ptr.S, path
	case "alloc":
		s := ptr.S
		if i := strings.Index(s, "#"); i >= 0 {
			s = s[i+1:]
		}
		if i := strings.Index(s, ":"); i >= 0 {
			s = s[:i]
		}
		return "alloc:" + s, path
	case "freevar":
		return "freevar:" + ptr.S, path
	}
	return "val:" + ptr.String(), path
}

func killFacts(fs factSet, rootKey string, path []string) {
	for k, f := range fs {
		dead := false
		f.Pred.walk(func(u *Term) {
			if u.Op == "load" {
				rk, p := termLoc(u.Args[0])
				if rk == rootKey && pathOverlap(p, path) {
					dead = true
				}
			}
		})
		if dead {
			delete(fs, k)
		}
	}
}

// factsBefore gives the must-facts holding just before instruction at.
func (P *Prog) factsBefore(at ssa.Instruction) factSet {
	r := P.factsOf(at.Parent())
	in, ok := r.in[at.Block()]
	if !ok {
		return factSet{} // unreachable
	}
	return P.transferBlock(in.clone(), at.Block(), at)
}

// ---------------------------------------------------------------------------
// Fact queries used by rules

func tNil() *Term { return T("nil", "") }

func tInt(n int64) *Term { return T("const", strconv.FormatInt(n, 10)) }

func tLen(x *Term) *Term { return &Term{Op: "len", Args: []*Term{x}} }

func tEq(a, b *Term) *Term { return normCond(&Term{Op: "binop", S: "==", Args: []*Term{a, b}}) }

func tLt(a, b *Term) *Term { return &Term{Op: "binop", S: "<", Args: []*Term{a, b}} }

func tLe(a, b *Term) *Term { return &Term{Op: "binop", S: "<=", Args: []*Term{a, b}} }

// okFact: the error term is nil.
func okFact(errT *Term) Fact { return Fact{tEq(errT, tNil()), true} }

// holdsNonEmpty: len(x) > 0 is implied.
func (fs factSet) holdsNonEmpty(x *Term) bool {
	return fs.lenLowerBound(x, foldInt) >= 1
}

// holdsEmpty: len(x) == 0 is implied (any spelling: == 0, < 1, !(0 < len), <= 0).
func (fs factSet) holdsEmpty(x *Term) bool {
	l := tLen(x)
	return fs.has(Fact{tEq(l, tInt(0)), true}) || fs.has(Fact{tLt(l, tInt(1)), true}) || fs.has(Fact{tLt(tInt(0), l), false}) || fs.has(Fact{tLe(l, tInt(0)), true}) || fs.has(Fact{tLe(tInt(1), l), false})
}

// lenLowerBound: the largest K such that the facts imply len(x) >= K; fold
// evaluates integer terms that are constants in this context.
func (fs factSet) lenLowerBound(x *Term, fold func(*Term) (int64, bool)) int64 {
	best := int64(0)
	up := func(n int64) {
		if n > best {
			best = n
		}
	}
	lx := tLen(x).String()
	for _, f := range fs {
		p := f.Pred
		if p.Op != "binop" || len(p.Args) != 2 {
			continue
		}
		a, b := p.Args[0], p.Args[1]
		aIs, bIs := a.String() == lx, b.String() == lx
		if aIs == bIs {
			continue
		}
		var k int64
		var ok bool
		if aIs {
			k, ok = fold(b)
		} else {
			k, ok = fold(a)
		}
		if !ok {
			continue
		}
		switch p.S {
		case "==":
			if f.Val {
				up(k)
			} else if k == 0 {
				up(1)
			}
		case "<":
			switch {
			case bIs && f.Val: // K < len
				up(k + 1)
			case aIs && !f.Val: // !(len < K)
				up(k)
			}
		case "<=":
			switch {
			case bIs && f.Val: // K <= len
				up(k)
			case aIs && !f.Val: // !(len <= K)
				up(k + 1)
			}
		}
	}
	return best
}

func (fs factSet) holdsNonNil(x *Term) bool {
	return fs.has(Fact{tEq(x, tNil()), false})
}

func (fs factSet) holdsEq(a, b *Term) bool { return fs.has(Fact{tEq(a, b), true}) }

// findOK returns the ok-facts about calls whose callee satisfies pred.
func (fs factSet) findOK(pred func(call *Term) bool) []*Term {
	var out []*Term
	for _, f := range fs {
		if !f.Val || f.Pred.Op != "binop" || f.Pred.S != "==" {
			continue
		}
		var other *Term
		switch {
		case f.Pred.Args[0].Op == "nil":
			other = f.Pred.Args[1]
		case f.Pred.Args[1].Op == "nil":
			other = f.Pred.Args[0]
		default:
			continue
		}
		call := other
		if other.Op == "res" && len(other.Args) == 1 {
			call = other.Args[0]
		}
		if call.Op == "call" && pred(call) {
			out = append(out, call)
		}
	}
	sort.Slice(out, func(i, j int) bool { return out[i].String() < out[j].String() })
	return out
}

// exitsOf returns the exits of fn by kind.
func (P *Prog) successExits(fn *ssa.Function) []*exitInfo {
	var out []*exitInfo
	for _, x := range P.factsOf(fn).exits {
		if x.kind != exitFailure {
			out = append(out, x)
		}
	}
	return out
}

func (P *Prog) failureExits(fn *ssa.Function) []*exitInfo {
	var out []*exitInfo
	for _, x := range P.factsOf(fn).exits {
		if x.kind == exitFailure {
			out = append(out, x)
		}
	}
	return out
}

// successFacts: facts common to all success exits of fn (with delegated
// callee summaries conjoined), in fn's own terms.
func (P *Prog) successFacts(fn *ssa.Function) factSet { return P.factsOf(fn).summary }

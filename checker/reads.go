package main

// fieldsRead: the names of the struct fields that fn (or an in-package
// function it hands the same object on to) addresses or reads below its k-th
// parameter: a control-flow footprint, i.e. what the outcome of a call can
// depend on. The result names field paths below the parameter's struct type
// ("Headers.Unprotected", "Payload"), nested structs followed.

import (
	"go/types"
	"sort"

	"golang.org/x/tools/go/ssa"
)

func (P *Prog) fieldsRead(fn *ssa.Function, k int) []string {
	set := map[string]bool{}
	seen := map[string]bool{}
	var visit func(f *ssa.Function, k int, prefix string, depth int)
	visit = func(f *ssa.Function, k int, prefix string, depth int) {
		key := f.String() + "#" + itoa(int64(k)) + "#" + prefix
		if seen[key] || depth > 6 || f.Blocks == nil || k >= len(f.Params) {
			return
		}
		seen[key] = true
		isStruct := func(t types.Type) bool {
			_, ok := deref(t).Underlying().(*types.Struct)
			return ok
		}
		derived := map[ssa.Value]bool{f.Params[k]: true}
		pre := map[ssa.Value]string{f.Params[k]: prefix}
		join := func(a, b string) string {
			if a == "" {
				return b
			}
			return a + "." + b
		}
		for changed := true; changed; {
			changed = false
			for _, b := range f.Blocks {
				for _, in := range b.Instrs {
					v, ok := in.(ssa.Value)
					if !ok || derived[v] {
						continue
					}
					switch x := in.(type) {
					case *ssa.ChangeType:
						if derived[x.X] {
							derived[v], changed = true, true
							pre[v] = pre[x.X]
						}
					case *ssa.TypeAssert:
						if derived[x.X] {
							derived[v], changed = true, true
							pre[v] = pre[x.X]
						}
					case *ssa.Extract:
						if ta, ok := x.Tuple.(*ssa.TypeAssert); ok && derived[ta] && x.Index == 0 {
							derived[v], changed = true, true
							pre[v] = pre[ta]
						}
					case *ssa.MakeInterface:
						if derived[x.X] {
							derived[v], changed = true, true
							pre[v] = pre[x.X]
						}
					case *ssa.UnOp:
						// *p: the object value itself
						if derived[x.X] && isStruct(x.X.Type()) && isStruct(x.Type()) {
							derived[v], changed = true, true
							pre[v] = pre[x.X]
						}
					case *ssa.Phi:
						for _, e := range x.Edges {
							if derived[e] {
								derived[v], changed = true, true
								pre[v] = pre[e]
							}
						}
					case *ssa.Alloc:
						// a local copy of the object
						for _, ref := range *x.Referrers() {
							if st, ok := ref.(*ssa.Store); ok && st.Addr == v && derived[st.Val] {
								derived[v], changed = true, true
								pre[v] = pre[st.Val]
							}
						}
					case *ssa.FieldAddr:
						// a nested struct: followed with its path
						if derived[x.X] && isStruct(x.Type()) {
							if st, ok := deref(x.X.Type()).Underlying().(*types.Struct); ok {
								derived[v], changed = true, true
								pre[v] = join(pre[x.X], st.Field(x.Field).Name())
							}
						}
					case *ssa.Field:
						if derived[x.X] && isStruct(x.Type()) {
							if st, ok := x.X.Type().Underlying().(*types.Struct); ok {
								derived[v], changed = true, true
								pre[v] = join(pre[x.X], st.Field(x.Field).Name())
							}
						}
					}
				}
			}
		}
		name := func(x ssa.Value, i int) string {
			if st, ok := deref(x.Type()).Underlying().(*types.Struct); ok && i < st.NumFields() {
				return st.Field(i).Name()
			}
			return "?"
		}
		for _, b := range f.Blocks {
			for _, in := range b.Instrs {
				switch x := in.(type) {
				case *ssa.FieldAddr:
					if derived[x.X] {
						set[join(pre[x.X], name(x.X, x.Field))] = true
					}
				case *ssa.Field:
					if derived[x.X] {
						set[join(pre[x.X], name(x.X, x.Field))] = true
					}
				case ssa.CallInstruction:
					c := x.Common()
					h := c.StaticCallee()
					if h == nil || !P.inPkg(h) {
						continue
					}
					for i, a := range c.Args {
						if derived[a] {
							visit(h, i, pre[a], depth+1)
						}
					}
				}
			}
		}
	}
	visit(fn, k, "", 0)
	out := make([]string, 0, len(set))
	for n := range set {
		out = append(out, n)
	}
	sort.Strings(out)
	return out
}

package main

// Positive controls: every rule ships mutators, small edits of one /repo file
// that break exactly one rule instance while still type-checking. The variant
// is analysed in memory through packages.Config.Overlay; nothing is written
// anywhere (DESIGN.md 2.8). A mutator whose anchor text is not in the current
// tree is reported inapplicable, never as a failure.

import (
	"fmt"
	"os"
	"path/filepath"
	"runtime"
	"strings"
	"sync"
)

type mutant struct {
	Name  string
	File  string
	Old   string
	New   string
	Nth   int    // 1-based occurrence to replace; 0 = the text must occur exactly once
	Rule  string // rule expected to report a violation
	Key   string // optional substring the violated obligation's key must contain
	Quick bool   // also run in the quick tier
}

type mutOutcome struct {
	Name   string `json:"name"`
	File   string `json:"file"`
	Rule   string `json:"expected_rule"`
	Status string `json:"status"` // caught | missed | inapplicable | broken
	Detail string `json:"detail,omitempty"`
}

type mutResult struct {
	run, caught, inapplicable int
	list                      []mutOutcome
}

func applyMutant(src string, m mutant) (string, bool) {
	n := strings.Count(src, m.Old)
	if n == 0 {
		return "", false
	}
	if m.Nth == 0 {
		if n != 1 {
			return "", false
		}
		return strings.Replace(src, m.Old, m.New, 1), true
	}
	if m.Nth > n {
		return "", false
	}
	idx := 0
	for i := 0; i < m.Nth; i++ {
		j := strings.Index(src[idx:], m.Old)
		idx += j
		if i < m.Nth-1 {
			idx += len(m.Old)
		}
	}
	return src[:idx] + m.New + src[idx+len(m.Old):], true
}

func runMutants(repo string, spec *propSpec, tier string) mutResult {
	var res mutResult
	if spec.mutants == nil {
		return res
	}
	var todo []mutant
	for _, m := range spec.mutants() {
		if tier == "thorough" || m.Quick {
			todo = append(todo, m)
		}
	}
	outs := make([]mutOutcome, len(todo))
	par := runtime.NumCPU() / 2
	if par < 1 {
		par = 1
	}
	if par > 8 {
		par = 8
	}
	sem := make(chan struct{}, par)
	var wg sync.WaitGroup
	for i, m := range todo {
		wg.Add(1)
		go func(i int, m mutant) {
			defer wg.Done()
			sem <- struct{}{}
			defer func() { <-sem }()
			outs[i] = runMutant(repo, spec, m)
		}(i, m)
	}
	wg.Wait()
	for _, o := range outs {
		res.list = append(res.list, o)
		switch o.Status {
		case "inapplicable":
			res.inapplicable++
		case "caught":
			res.run++
			res.caught++
		default:
			res.run++
		}
	}
	return res
}

func runMutant(repo string, spec *propSpec, m mutant) (out mutOutcome) {
	out = mutOutcome{Name: m.Name, File: m.File, Rule: m.Rule}
	defer func() {
		if x := recover(); x != nil {
			out.Status = "broken"
			out.Detail = fmt.Sprint("panic: ", x)
		}
	}()
	path := filepath.Join(repo, m.File)
	src, err := os.ReadFile(path)
	if err != nil {
		out.Status = "inapplicable"
		out.Detail = "file not present"
		return
	}
	mut, ok := applyMutant(string(src), m)
	if !ok {
		out.Status = "inapplicable"
		out.Detail = "anchor text not present (or not unique) in the current tree"
		return
	}
	rep, err := analyse(repo, map[string][]byte{path: []byte(mut)}, nil, spec, "quick")
	if err != nil {
		if strings.Contains(err.Error(), "type errors") {
			out.Status = "inapplicable"
			out.Detail = "variant does not type-check on the current tree: " + err.Error()
			return
		}
		// an undecided verdict on a broken variant still means the rule noticed
		// it could not certify the variant; count only real violations as caught
		out.Status = "missed"
		out.Detail = "analysis of the variant ended undecided: " + err.Error()
		return
	}
	for _, o := range rep.violations() {
		if o.Rule == m.Rule && (m.Key == "" || strings.Contains(o.Key, m.Key)) {
			out.Status = "caught"
			out.Detail = o.Key + ": " + o.Why
			return
		}
	}
	var got []string
	for _, o := range rep.violations() {
		got = append(got, o.Key)
	}
	out.Status = "missed"
	out.Detail = fmt.Sprintf("expected a violation of %s (key containing %q); got %v", m.Rule, m.Key, got)
	return
}

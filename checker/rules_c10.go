package main

// C10 — countersignatures sign the RFC 9338 structure and bind to their exact parent.

import (
	"fmt"
	"go/types"
	"sort"
	"strings"

	"golang.org/x/tools/go/ssa"
)

func init() {
	register(&propSpec{id: "C10", title: "Countersign_structure table, context selection, forms, footprint", run: runC10, mutants: mutC10, design: "DESIGN.md section 3, C10"})
}

// countersignBuilder: the in-package function that type-switches an `any`
// parameter over the four structure value types.
func (P *Prog) countersignBuilder() (*ssa.Function, int) {
	for _, fn := range P.Funcs {
		kinds := map[string]bool{}
		pi := -1
		for _, b := range fn.Blocks {
			for _, in := range b.Instrs {
				if ta, ok := in.(*ssa.TypeAssert); ok && ta.CommaOk {
					x := ta.X
					// the switch may operate on a normalised view of the
					// parameter produced by an in-package helper
					if c, ok := x.(*ssa.Call); ok {
						if h := c.Call.StaticCallee(); h != nil && P.inPkg(h) && len(c.Call.Args) == 1 {
							x = c.Call.Args[0]
						}
					}
					if p, ok := x.(*ssa.Parameter); ok {
						if n, ok := ta.AssertedType.(*types.Named); ok && P.isStructureType(n) {
							kinds[n.Obj().Name()] = true
							pi = paramIndex(p)
						}
					}
				}
			}
		}
		if len(kinds) >= 3 {
			return fn, pi
		}
	}
	undecidedf("anchor not found: countersignature ToBeSigned builder (type switch over the structure types)")
	return nil, -1
}

type csArm struct {
	payloadField string
	other        bool
	refuse       []string // facts required: "nonempty:<field>", "nonnil:<field>"
}

var csTable = map[string]csArm{
	"SignMessage":      {"Payload", false, []string{"nonempty:Signatures", "nonnil:Payload"}},
	"Sign1Message":     {"Payload", true, []string{"nonempty:Signature", "nonnil:Payload"}},
	"Signature":        {"Signature", false, []string{"nonempty:Signature"}},
	"Countersignature": {"Signature", false, []string{"nonempty:Signature"}},
}

func csContext(abbreviated, other bool) string {
	s := "CounterSignature"
	if abbreviated {
		s += "0"
	}
	if other {
		s += "V2"
	}
	return `"` + s + `"`
}

func runC10(r *Report, tier string) {
	P := r.P
	// round 6: decoded parents carry each countersignature of a list as its own object
	r.rule("R08.6", "(shared with C08) the countersignature header value decoder delivers the single object as *Countersignature and the list as []*Countersignature decoded by the mode itself (one fresh object per element), and refuses only after both forms failed.")
	if cs := P.countersigValueDecoder(); cs != nil {
		checkCountersigValueRefusal(r, "R08.6", cs)
	} else {
		r.ob("R08.6", "countersignature-value-decoder", nil, nil, "the countersignature header value decoder tries both forms").fail("no function decodes a header value both as *Countersignature and as []*Countersignature")
	}
	r.rule("R10.1", "Countersign_structure table: each value arm of the builder's type switch (SignMessage, Sign1Message, Signature, Countersignature), on every success path, yields Enc([ctx, DetBstr(ProtBytes(parent.Headers)), DetBstr(signProtected param), NilToEmpty(external param), payload] ++ [other_fields] only for Sign1) with payload = parent.Payload (messages) resp. parent.Signature (signatures), other_fields = [DetBstr(Enc(parent.Signature))], and has refused unsigned / payload-less parents; pointer arms re-dispatch the pointee with all other arguments unchanged; any other type fails.")
	r.rule("R10.2", "context selection is the 2x2 table (abbreviated, other_fields present) -> CounterSignature, CounterSignature0, CounterSignatureV2, CounterSignature0V2.")
	r.rule("R10.3", "the two forms: Countersignature.Sign/Verify call the builder with abbreviated=false and ProtBytes(own Headers); Countersign0/VerifyCountersign0 with abbreviated=true and the constant empty bstr 0x40; parent and external are the caller's.")
	r.rule("R10.4", "footprint: no leaf under the parent's Unprotected/RawUnprotected; the parent's protected bytes, payload / signature are leaves.")
	r.assumes("A4 for the encoder; cryptographic binding is C03's gap")

	F, tp := P.countersignBuilder()
	r.analysed(F)
	// parameter roles by type: the type-switched parent, the countersigner's
	// protected bytes and the external data (the two byte-string parameters,
	// in that order), and - if present - a form selector
	spI, extI, selI := -1, -1, -1
	for i, prm := range F.Params {
		switch {
		case i == tp:
		case shortType(prm.Type()) == "cbor.RawMessage" || isByteSlice(prm.Type()):
			if spI < 0 {
				spI = i
			} else if extI < 0 {
				extI = i
			} else {
				undecidedf("countersign builder has an unexpected signature: %s", F.Signature)
			}
		default:
			if selI >= 0 {
				undecidedf("countersign builder has an unexpected signature: %s", F.Signature)
			}
			selI = i
		}
	}
	if spI < 0 || extI < 0 {
		undecidedf("countersign builder has an unexpected signature: %s", F.Signature)
	}
	pS := func(i int) string { return "$" + itoa(int64(i)) }
	target := T("param", itoa(int64(tp)))
	spT, extT := T("param", itoa(int64(spI))), T("param", itoa(int64(extI)))
	sb := &specBuilder{}
	// the form selector: what the full / abbreviated key sites pass as the
	// builder's first argument (a closed constant: a bool, or whatever else
	// the builder is parameterised with)
	selector := map[bool]*Term{}
	selectorWhy := map[bool]string{}
	for _, s := range P.keySites() {
		if !strings.Contains(siteKind(s), "ountersign") {
			continue
		}
		ab := s.fn.Signature.Recv() == nil
		call := builderCallAt(P, s, F)
		if call == nil {
			continue
		}
		// without a selector parameter the form is whatever constant the site
		// passes as countersigner protected bytes
		selArg := spI
		if selI >= 0 {
			selArg = selI
		}
		sel := P.foldGlobals(call.Args[selArg])
		if selI < 0 && !closedConst(sel) {
			continue // full form: a computed value, nothing to substitute
		}
		switch {
		case !closedConst(sel):
			selectorWhy[ab] = "the form selector passed at " + shortFn(s.fn) + " is not a constant: " + truncate(sel.String(), 120)
		case selector[ab] != nil && !selector[ab].eq(sel):
			selectorWhy[ab] = "sign and verify sites pass different form selectors"
		default:
			selector[ab] = sel
		}
	}
	formCtx := map[bool]map[string]bool{false: {}, true: {}}
	seen := map[string]bool{}
	nPtr := 0
	derefKinds := 0
	npaths := 0
	for _, p := range P.deepPaths(F) {
		if !p.feasible() {
			continue
		}
		res := p.results()
		fs := factSet{}
		for _, c := range p.conds {
			fs.add(c)
		}
		k, deleg := P.classifyErr(res[1], fs)
		if k == exitFailure {
			continue
		}
		npaths++
		r.paths++
		// which arm?
		kind, isPtr := "", false
		tgt := target
		for _, c := range p.conds {
			if c.Val && c.Pred.Op == "res" && c.Pred.S == "1" && c.Pred.Args[0].Op == "typeassert" {
				opnd := c.Pred.Args[0].Args[0]
				if !opnd.eq(target) {
					n := derefViewLeaves(P, opnd, target)
					if n < 0 {
						continue
					}
					if n > derefKinds {
						derefKinds = n
					}
				}
				tgt = P.terms.expand(opnd, 8)
				tn := strings.TrimSuffix(c.Pred.Args[0].S, ",ok")
				kind, isPtr = strings.TrimPrefix(tn, "*"), strings.HasPrefix(tn, "*")
			}
		}
		id := fmt.Sprintf("%s:path:%s", shortFn(F), pathID(p))
		if kind == "" {
			r.ob("R10.1", id+":arm", F, p.ret, "success only inside an arm of a supported parent type").fail("a success path that is not in any type-switch arm: " + truncate(res[0].String(), 160))
			continue
		}
		if isPtr {
			nPtr++
			o := r.ob("R10.1", fmt.Sprintf("%s:pointer-arm:%s", shortFn(F), kind), F, p.ret, "pointer arm re-dispatches the pointee, all other arguments unchanged")
			c := delegCall(res[1])
			want := fmt.Sprintf("iface<%s>(*res<0>(typeassert<*%s,ok>(%s)))", kind, kind, pS(tp))
			okD := deleg && c != nil && c.S == shortFn(F) && len(c.Args) == len(F.Params) && pairDelegated(res[0], res[1])
			for i := range F.Params {
				if !okD {
					break
				}
				if i == tp {
					okD = c.Args[i].String() == want
				} else {
					okD = c.Args[i].String() == pS(i)
				}
			}
			o.check(okD, "F(abbreviated, *t, signProtected, external)", "pointer arm returns "+truncate(res[1].String(), 200))
			continue
		}
		arm, known := csTable[kind]
		if !known {
			r.ob("R10.1", id+":kind", F, p.ret, "only the four RFC 9338 parent kinds are supported").fail("unexpected parent kind " + kind)
			continue
		}
		for _, abbreviated := range []bool{false, true} {
			sel := selector[abbreviated]
			if sel == nil && selI >= 0 {
				continue // reported by R10.3
			}
			// the path under this form: the selector substituted for its
			// parameter; paths it makes infeasible are not part of this form
			m := map[string]*Term{}
			switch {
			case selI >= 0:
				m[itoa(int64(selI))] = sel
			case sel != nil:
				m[itoa(int64(spI))] = sel
			}
			fp := *p
			fp.conds = nil
			for _, c := range p.conds {
				fp.conds = append(fp.conds, normFact(P.foldGlobals(c.Pred.subst(m)), c.Val))
			}
			if !fp.feasible() {
				continue
			}
			key := fmt.Sprintf("%s:abbreviated=%v", kind, abbreviated)
			seen[key] = true
			o := r.ob("R10.1", fmt.Sprintf("%s:%s:%s", shortFn(F), key, pathID(p)), F, p.ret, "arm yields the RFC 9338 Countersign_structure for this parent kind")
			// the parent value: every alloc used as parent copy must hold the asserted value
			tval := &Term{Op: "res", S: "0", Args: []*Term{{Op: "typeassert", S: kind + ",ok", Args: []*Term{tgt}}}}
			// helpers that pick a constant (e.g. the context string) are evaluated
			// under this path's knowledge plus the form being examined
			content := canon(p.eng.expand(P.evalCalls(&fp, P.foldGlobals(res[0].subst(m)), factSet{}, 0), 8))
			for _, c := range contextConsts(content) {
				formCtx[abbreviated][c] = true
			}
			// resolve loads of the local copy of the parent
			content = resolveParentCopy(P, F, p, content, tval)
			hT := T("var", "PARENT")
			els := []*Term{
				pIface("string", T("const", csContext(abbreviated, arm.other))),
				pIface("cbor.RawMessage", sb.pDet(pProt(pField(hT, "Headers")))),
				pIface("cbor.RawMessage", sb.pDet(spT)),
				nil,
				pIface("[]byte", T("var", "PAYLOAD")),
			}
			// nil -> empty normalisation of external: on a single path the diamond is resolved
			extNil := Fact{tEq(extT, tNil()), true}
			switch {
			case p.has(extNil):
				els[3] = pIface("[]byte", &Term{Op: "arr", S: "byte"})
			case p.has(Fact{extNil.Pred, false}):
				els[3] = pIface("[]byte", extT)
			default:
				// the normalisation happens in a helper: the element is the
				// gated value itself
				els[3] = pIface("[]byte", pN2E(extT))
			}
			var spec *Term
			if arm.other {
				other := pIface("[]cbor.RawMessage", &Term{Op: "arr", S: "cbor.RawMessage", Args: []*Term{sb.pDet(pEnc(pIface("[]byte", T("var", "PSIG"))))}})
				spec = pEnc(pIface("[]any", pArrAny(append(append([]*Term{}, els...), other)...)))
			} else {
				spec = pEnc(pIface("[]any", pArrAny(els...)))
			}
			b, ok := unify(spec, content, bindings{})
			if !ok {
				cs := ""
				for _, c := range p.conds {
					cs += " " + truncate(c.String(), 70) + ";"
				}
				o.fail(firstDiff(spec, content, "content") + " on the path with conditions" + cs)
				continue
			}
			why := ""
			if g, isM := P.isModeLoad(b["ENC"], true); !isM || encoderDeterministic(P, g) != "" {
				why = "structure is not encoded with the package's deterministic encoder"
			}
			// parent identity
			parent := b["PARENT"]
			isParent := func(t *Term) bool { return t != nil && (t.eq(tval) || isCopyOf(P, F, t, tval)) }
			if why == "" && !isParent(parent) {
				why = "protected bytes are taken from " + parent.String() + ", not from the parent value"
			}
			wantPayload := pField(tval, arm.payloadField)
			if why == "" && !parentField(P, F, b["PAYLOAD"], tval, arm.payloadField) {
				why = fmt.Sprintf("payload position holds %s, expected %s", b["PAYLOAD"], wantPayload)
			}
			if why == "" && arm.other && !parentField(P, F, b["PSIG"], tval, "Signature") {
				why = "other_fields holds " + b["PSIG"].String() + ", expected the parent's signature"
			}
			// refusals: the tests may sit in a helper whose success the path
			// requires, and may read the parent through an unchanged local copy
			fs := fs.clone()
			{
				alts := P.expandConds(fp.conds, 0)
				var common factSet
				for _, a := range alts {
					q := Path{conds: a}
					if !q.feasible() {
						continue
					}
					cur := factSet{}
					for _, c := range a {
						cur.add(normFact(resolveCopyLoads(P, F, c.Pred, tval), c.Val))
					}
					if common == nil {
						common = cur
					} else {
						common = intersect(common, cur)
					}
				}
				for _, f := range common {
					fs.add(f)
				}
				// facts spelt through a view helper of the parameter
				for _, f := range fs.clone() {
					if f.Pred.contains(func(u *Term) bool { return u.Op == "call" && P.calleeOfTerm(u) != nil }) {
						fs.add(normFact(P.terms.expand(f.Pred, 8), f.Val))
					}
				}
			}
			for _, rf := range arm.refuse {
				parts := strings.SplitN(rf, ":", 2)
				ft := projectField(tval, parts[1])
				switch parts[0] {
				case "nonempty":
					if why == "" && !fs.holdsNonEmpty(ft) {
						why = "parent with empty " + parts[1] + " is not refused"
					}
				case "nonnil":
					if why == "" && !fs.holdsNonNil(ft) {
						why = "parent with nil " + parts[1] + " is not refused"
					}
				}
			}
			o.check(why == "", "matches; context "+csContext(abbreviated, arm.other), why)
			// R10.4 footprint
			loads, _ := footprint(content)
			bad := hasForbiddenLeaf(loads, "Unprotected", "RawUnprotected")
			r.ob("R10.4", fmt.Sprintf("%s:%s:%s:footprint", shortFn(F), key, pathID(p)), F, p.ret, "the parent's unprotected headers do not contribute").check(bad == "", fmt.Sprintf("%d load leaves, none unprotected", len(loads)), "the countersigned bytes depend on "+bad)
		}
	}
	// R10.4 control footprint: nothing in the builder's call tree reads the
	// parent's unprotected bucket (its outcome cannot depend on it either)
	{
		var bad []string
		reads := P.fieldsRead(F, tp)
		for _, f := range reads {
			if strings.HasSuffix(f, "Unprotected") {
				bad = append(bad, f)
			}
		}
		r.ob("R10.4", shortFn(F)+":control-footprint", F, nil, "the builder and the functions it hands the parent to read no field of the parent's unprotected bucket").check(len(bad) == 0, fmt.Sprintf("parent fields read: %v", reads), "the builder's outcome can depend on the parent's "+strings.Join(bad, ", ")+" (read in its call tree)")
	}
	// all 8 cells present
	var missing []string
	for kind := range csTable {
		for _, ab := range []bool{false, true} {
			k := fmt.Sprintf("%s:abbreviated=%v", kind, ab)
			if !seen[k] {
				missing = append(missing, k)
			}
		}
	}
	sort.Strings(missing)
	r.ob("R10.2", shortFn(F)+":all-cells", F, nil, "all four parent kinds succeed in both forms (8 cells of the table)").check(len(missing) == 0, "8 cells", "no success path for "+strings.Join(missing, ", "))
	r.ob("R10.1", shortFn(F)+":pointer-arms", F, nil, "pointer parents of all four kinds are handled as the values they point to (four re-dispatching arms, or one dereferencing view of the parameter)").check(nPtr == 4 || (nPtr == 0 && derefKinds == 4), "4", fmt.Sprintf("%d pointer arms, dereferencing view covers %d kinds", nPtr, derefKinds))
	r.floorSoft("R10.1", npaths, 12, "success paths of the builder")

	// R10.3
	n3 := 0
	for _, s := range P.keySites() {
		kind := siteKind(s)
		if !strings.Contains(kind, "ountersign") {
			continue
		}
		n3++
		call := builderCallAt(P, s, F)
		o := r.ob("R10.3", shortFn(s.fn)+":form", s.fn, s.call, "form selects abbreviated flag and countersigner protected bytes")
		if call == nil {
			o.fail("the key's content is not the builder's result")
			continue
		}
		full := s.fn.Signature.Recv() != nil
		why := selectorWhy[!full]
		// under this site's selector the builder yields exactly the two
		// context strings of the site's form (R10.1 examined the paths)
		var got []string
		for c := range formCtx[!full] {
			got = append(got, c)
		}
		sort.Strings(got)
		wantCtx := []string{csContext(!full, false), csContext(!full, true)}
		sort.Strings(wantCtx)
		if why == "" && strings.Join(got, ",") != strings.Join(wantCtx, ",") {
			why = fmt.Sprintf("with the arguments passed here the builder uses the contexts %v, expected %v", got, wantCtx)
		}
		if full {
			if _, ok := unify(pProt(pField(T("param", "0"), "Headers")), canon(call.Args[spI]), bindings{}); !ok && why == "" {
				why = "countersigner protected bytes are " + truncate(call.Args[spI].String(), 160) + ", not ProtBytes(own Headers)"
			}
		} else {
			if b, ok := byteArr(call.Args[spI]); (!ok || len(b) != 1 || b[0] != 0x40) && why == "" {
				why = "abbreviated form's sign_protected is " + call.Args[spI].String() + ", not the empty bstr 0x40"
			}
		}
		if why == "" && (call.Args[tp].Op != "param" || call.Args[extI].Op != "param") {
			why = "parent/external are not the caller's parameters: " + call.Args[tp].String() + ", " + call.Args[extI].String()
		}
		o.check(why == "", "builder(parent, "+truncate(call.Args[spI].String(), 60)+", external)", why)
	}
	r.floor("R10.3", n3, 4, "countersignature key sites")
	// sign and verify of each form use the same builder call
	{
		m := map[string]string{}
		for _, s := range P.keySites() {
			if c := builderCallAt(P, s, F); c != nil && strings.Contains(siteKind(s), "ountersign") {
				form := "abbreviated"
				if s.fn.Signature.Recv() != nil {
					form = "full"
				}
				dir := "verify"
				if s.sign {
					dir = "sign"
				}
				// normalise parameter numbering by role
				k := ""
				if selI >= 0 {
					k = c.Args[selI].String()
				}
				m[form+":"+dir] = k + "|" + canon(c.Args[spI]).String()
			}
		}
		for _, form := range []string{"full", "abbreviated"} {
			r.ob("R10.3", form+":sign-verify-agree", nil, nil, "Sign and Verify of the "+form+" form build the same structure").check(m[form+":sign"] != "" && m[form+":sign"] == m[form+":verify"], "same builder arguments", fmt.Sprintf("sign side %q vs verify side %q", truncate(m[form+":sign"], 120), truncate(m[form+":verify"], 120)))
		}
	}
	// the protected fields pass through the head normaliser: its own rule
	r.rule("R02.3", "(shared with C02) the bstr head normaliser returns its argument unchanged only for shortest-form heads and otherwise the same content under the shortest head.")
	checkHeadNormalizer(r, "R02.3")
}

// builderCallAt: the call term F(...) whose result is the content at site s.
func builderCallAt(P *Prog, s *keySite, F *ssa.Function) *Term {
	t := P.terms.of(s.content)
	for i := 0; i < 4; i++ {
		if t.Op == "res" && t.S == "0" && t.Args[0].Op == "call" && t.Args[0].S == shortFn(F) {
			c := t.Args[0]
			args := make([]*Term, len(c.Args))
			for j, a := range c.Args {
				args[j] = P.terms.expand(a, 8)
			}
			return &Term{Op: "call", S: c.S, Args: args}
		}
		// expand only the outermost call by one level
		if !(t.Op == "res" && t.Args[0].Op == "call") {
			return nil
		}
		call := t.Args[0]
		fn := P.calleeOfTerm(call)
		if fn == nil {
			return nil
		}
		rt := P.terms.successResult(fn, 0)
		if rt == nil {
			return nil
		}
		m := map[string]*Term{}
		for j, a := range call.Args {
			m[fmt.Sprint(j)] = a
		}
		t = rt.subst(m)
	}
	return nil
}

// derefViewLeaves: t is a call of an in-package helper on target whose
// result is target itself or the value a structure pointer in target points
// to; returns the number of pointer kinds dereferenced (-1: not such a view).
func derefViewLeaves(P *Prog, t, target *Term) int {
	if t.Op != "call" || len(t.Args) != 1 || !t.Args[0].eq(target) || P.calleeOfTerm(t) == nil {
		return -1
	}
	ex := P.terms.expand(t, 2)
	n := 0
	ok := true
	var walk func(u *Term)
	walk = func(u *Term) {
		switch u.Op {
		case "gate":
			walk(u.Args[1])
			walk(u.Args[2])
		case "alt", "phi", "choice":
			for _, a := range u.Args {
				walk(a)
			}
		case "iface":
			walk(u.Args[0])
		default:
			if u.eq(target) {
				return
			}
			if u.Op == "load" && u.Args[0].Op == "res" && u.Args[0].S == "0" && u.Args[0].Args[0].Op == "typeassert" && strings.HasPrefix(u.Args[0].Args[0].S, "*") && u.Args[0].Args[0].Args[0].eq(target) {
				n++
				return
			}
			ok = false
		}
	}
	walk(ex)
	if !ok {
		return -1
	}
	return n
}

// isCopyOf: t is an alloc of F that holds the value v unchanged: its only
// store is the whole value v, its fields are only read, and no call that
// receives its address writes through it.
func isCopyOf(P *Prog, F *ssa.Function, t, v *Term) bool {
	if t.Op != "alloc" {
		return false
	}
	for _, b := range F.Blocks {
		for _, in := range b.Instrs {
			a, ok := in.(*ssa.Alloc)
			if !ok || !P.terms.of(a).eq(t) {
				continue
			}
			n := 0
			okv := false
			var readOnly func(addr ssa.Value) bool
			readOnly = func(addr ssa.Value) bool {
				for _, ref := range *addr.Referrers() {
					switch u := ref.(type) {
					case *ssa.Store:
						if u.Addr == addr {
							if addr != ssa.Value(a) {
								return false
							}
							n++
							sv := P.terms.of(u.Val)
							okv = sv.eq(v) || P.terms.expand(sv, 8).eq(v)
						} else {
							return false // the address itself is stored somewhere
						}
					case *ssa.UnOp, *ssa.DebugRef:
					case *ssa.FieldAddr:
						if !readOnly(u) {
							return false
						}
					case *ssa.IndexAddr:
						if !readOnly(u) {
							return false
						}
					case *ssa.ChangeType:
						// pointer conversion between identically laid out types
						if !readOnly(u) {
							return false
						}
					case ssa.CallInstruction:
						callee := staticCallee(u)
						if callee == nil || !P.inPkg(callee) {
							return false
						}
						for i, arg := range u.Common().Args {
							if arg != addr {
								continue
							}
							for _, w := range P.effects.summary(callee).writes {
								if w.kind == "unknown" || w.kind == "callparam" || (w.kind == "param" && w.param == i) {
									return false
								}
							}
						}
					default:
						return false
					}
				}
				return true
			}
			if !readOnly(a) {
				return false
			}
			return n == 1 && okv
		}
	}
	return false
}

// resolveParentCopy rewrites loads through a local copy of the asserted
// parent value (`t := target.(K)` spilled to an alloc because its address is
// taken, e.g. by a pointer-receiver helper) into projections of the value
// itself.
func resolveParentCopy(P *Prog, F *ssa.Function, p *Path, content, tval *Term) *Term {
	return content
}

// resolveCopyLoads rewrites loads through an unchanged local copy of the
// parent value into projections of the value.
func resolveCopyLoads(P *Prog, F *ssa.Function, t, tval *Term) *Term {
	return t.rewrite(func(u *Term) *Term {
		if u.Op != "load" {
			return nil
		}
		var path []string
		a := u.Args[0]
		for a.Op == "field" {
			path = append([]string{a.S}, path...)
			a = a.Args[0]
		}
		if a.Op != "alloc" || !isCopyOf(P, F, a, tval) {
			return nil
		}
		return projectPath(tval, path)
	})
}

// parentField: t is field f of the parent value tval, read from the value
// itself or through an unchanged local copy of it.
func parentField(P *Prog, F *ssa.Function, t, tval *Term, f string) bool {
	if t == nil {
		return false
	}
	if t.eq(projectField(tval, f)) {
		return true
	}
	if t.Op == "load" && t.Args[0].Op == "field" && t.Args[0].S == f {
		return isCopyOf(P, F, t.Args[0].Args[0], tval)
	}
	return false
}

func mutC10() []mutant {
	return []mutant{
		{Name: "Signature arm signs bytes derived from the unprotected header", File: "countersign.go", Quick: true, Rule: "R10.1",
			Old: "\tcase Signature:\n\t\tbodyProtected, err = t.Headers.MarshalProtected()", New: "\tcase Signature:\n\t\tbodyProtected, err = t.Headers.MarshalUnprotected()"},
		{Name: "Sign1 arm omits other_fields", File: "countersign.go", Rule: "R10.1",
			Old: "\t\totherFields = []cbor.RawMessage{signature}\n", New: "\t\t_ = signature\n"},
		{Name: "V2 contexts swapped", File: "countersign.go", Quick: true, Rule: "R10.1",
			Old: "\t\tif abbreviated {\n\t\t\tcontext = \"CounterSignature0V2\"\n\t\t} else {\n\t\t\tcontext = \"CounterSignatureV2\"\n\t\t}", New: "\t\tif abbreviated {\n\t\t\tcontext = \"CounterSignatureV2\"\n\t\t} else {\n\t\t\tcontext = \"CounterSignature0V2\"\n\t\t}"},
		{Name: "Countersign0 uses the full form", File: "countersign.go", Rule: "R10.3",
			Old: "func Countersign0(rand io.Reader, signer Signer, parent any, external []byte) ([]byte, error) {\n\ttoBeSigned, err := countersignToBeSigned(true,", New: "func Countersign0(rand io.Reader, signer Signer, parent any, external []byte) ([]byte, error) {\n\ttoBeSigned, err := countersignToBeSigned(false,"},
		{Name: "SignMessage arm accepts a nil payload", File: "countersign.go", Rule: "R10.1", Nth: 1,
			Old: "\t\tif t.Payload == nil {\n\t\t\treturn nil, ErrMissingPayload\n\t\t}\n", New: ""},
		{Name: "*Sign1Message arm forwards nil external", File: "countersign.go", Rule: "R10.1",
			Old: "\tcase *Sign1Message:\n\t\treturn countersignToBeSigned(abbreviated, *t, signProtected, external)", New: "\tcase *Sign1Message:\n\t\treturn countersignToBeSigned(abbreviated, *t, signProtected, nil)"},
		{Name: "Countersignature parent re-encodes its protected map", File: "countersign.go", Rule: "R10.1",
			Old: "\tcase Countersignature:\n\t\tbodyProtected, err = t.Headers.MarshalProtected()", New: "\tcase Countersignature:\n\t\tbodyProtected, err = encMode.Marshal(t.Headers.Protected)"},
		{Name: "Signature parent: unsigned parent accepted", File: "countersign.go", Rule: "R10.1",
			Old: "\t\tif len(t.Signature) == 0 {\n\t\t\treturn nil, errors.New(\"Signature was not signed yet\")\n\t\t}\n", New: ""},
		{Name: "sign_protected not head-normalised", File: "countersign.go", Rule: "R10.1",
			Old: "\tsignProtected, err = deterministicBinaryString(signProtected)\n\tif err != nil {\n\t\treturn nil, err\n\t}\n", New: ""},
		{Name: "VerifyCountersign0 checks with a different empty header spelling", File: "countersign.go", Rule: "R10.3", Nth: 2,
			Old: "countersignToBeSigned(true, parent, []byte{0x40}, external)", New: "countersignToBeSigned(true, parent, []byte{0x41, 0xa0}, external)"},
	}
}

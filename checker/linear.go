package main

// A small decision procedure for linear integer inequalities over terms
// (used by the bounds audit of C06). A goal e >= 0 is proved by subtracting
// up to three hypotheses h >= 0 taken from the must-facts (comparisons that
// dominate the program point) until what remains is a sum of non-negative
// atoms (len, cap, ...) with non-negative coefficients plus a non-negative
// constant. The search is sound (every step keeps "goal >= remainder") and
// deliberately incomplete.

import "sort"

type lin struct {
	c  int64
	co map[string]int64
	at map[string]*Term
}

func newLin() *lin { return &lin{co: map[string]int64{}, at: map[string]*Term{}} }

func (l *lin) addScaled(o *lin, k int64) {
	l.c += k * o.c
	for a, v := range o.co {
		l.co[a] += k * v
		if l.co[a] == 0 {
			delete(l.co, a)
		} else {
			l.at[a] = o.at[a]
		}
	}
}

func (l *lin) clone() *lin {
	n := newLin()
	n.addScaled(l, 1)
	return n
}

// linearize: t as constant + sum of coefficient*atom.
func (P *Prog) linearize(t *Term) *lin {
	l := newLin()
	if n, ok := P.foldIntG(t); ok {
		l.c = n
		return l
	}
	switch {
	case t.Op == "binop" && len(t.Args) == 2 && (t.S == "+" || t.S == "-"):
		l.addScaled(P.linearize(t.Args[0]), 1)
		k := int64(1)
		if t.S == "-" {
			k = -1
		}
		l.addScaled(P.linearize(t.Args[1]), k)
		return l
	case t.Op == "binop" && len(t.Args) == 2 && t.S == "*":
		if n, ok := P.foldIntG(t.Args[0]); ok {
			l.addScaled(P.linearize(t.Args[1]), n)
			return l
		}
		if n, ok := P.foldIntG(t.Args[1]); ok {
			l.addScaled(P.linearize(t.Args[0]), n)
			return l
		}
	case (t.Op == "len" || t.Op == "cap") && len(t.Args) == 1 && t.Args[0].Op == "makeslice" && len(t.Args[0].Args) >= 1:
		i := 0
		if t.Op == "cap" && len(t.Args[0].Args) >= 2 {
			i = 1
		}
		return P.linearize(t.Args[0].Args[i])
	}
	k := t.String()
	l.co[k] = 1
	l.at[k] = t
	return l
}

// trivially non-negative: constant >= 0 and only non-negative atoms with
// positive coefficients.
func (l *lin) trivial() bool {
	if l.c < 0 {
		return false
	}
	for a, v := range l.co {
		if v < 0 || !nonNeg(l.at[a]) {
			return false
		}
	}
	return true
}

// hypotheses: the linear forms h with h >= 0 implied by the facts.
func (P *Prog) linHyps(fs factSet) []*lin {
	var out []*lin
	keys := fs.sorted()
	for _, k := range keys {
		f := fs[k]
		p := f.Pred
		if p.Op != "binop" || len(p.Args) != 2 {
			continue
		}
		if p.Args[0].Op == "nil" || p.Args[1].Op == "nil" {
			continue
		}
		a, b := P.linearize(p.Args[0]), P.linearize(p.Args[1])
		mk := func(x, y *lin, c int64) { // x - y + c >= 0
			h := newLin()
			h.addScaled(x, 1)
			h.addScaled(y, -1)
			h.c += c
			out = append(out, h)
		}
		switch p.S {
		case "<":
			if f.Val {
				mk(b, a, -1)
			} else {
				mk(a, b, 0)
			}
		case "<=":
			if f.Val {
				mk(b, a, 0)
			} else {
				mk(a, b, -1)
			}
		case "==":
			if f.Val {
				mk(b, a, 0)
				mk(a, b, 0)
			}
		}
	}
	return out
}

// proveGE0: the integer term is >= 0 under the facts.
func (P *Prog) proveGE0(t *Term, fs factSet) bool {
	g := P.linearize(t)
	if g.trivial() {
		return true
	}
	hyps := P.linHyps(fs)
	// a != 0 for a non-negative atom a gives a - 1 >= 0
	for _, k := range fs.sorted() {
		f := fs[k]
		if !f.Val && f.Pred.Op == "binop" && f.Pred.S == "==" {
			for i := 0; i < 2; i++ {
				if n, ok := P.foldIntG(f.Pred.Args[i]); ok && n == 0 && nonNeg(f.Pred.Args[1-i]) {
					h := P.linearize(f.Pred.Args[1-i])
					h.c--
					hyps = append(hyps, h)
				}
			}
		}
	}
	shares := func(g, h *lin) bool {
		for a := range h.co {
			if _, ok := g.co[a]; ok {
				return true
			}
		}
		return false
	}
	var rec func(g *lin, depth int) bool
	rec = func(g *lin, depth int) bool {
		if g.trivial() {
			return true
		}
		if depth == 0 {
			return false
		}
		for _, h := range hyps {
			if len(h.co) == 0 || !shares(g, h) {
				continue
			}
			n := g.clone()
			n.addScaled(h, -1)
			if rec(n, depth-1) {
				return true
			}
		}
		return false
	}
	return rec(g, 3)
}

func tSub(a, b *Term) *Term { return &Term{Op: "binop", S: "-", Args: []*Term{a, b}} }

var _ = sort.Strings

// simplifyLin: a linear form with a single atom (and no constant) back as a
// term: the atom, or atom*k. nil when the form is not that simple.
func simplifyLin(l *lin) *Term {
	if l.c != 0 || len(l.co) != 1 {
		if len(l.co) == 0 {
			return tInt(l.c)
		}
		return nil
	}
	for a, k := range l.co {
		switch {
		case k == 1:
			return l.at[a]
		case k > 1:
			return &Term{Op: "binop", S: "*", Args: []*Term{l.at[a], tInt(k)}}
		}
	}
	return nil
}

package main

// C04 — no signing/verification under another algorithm than the protected alg.

import (
	"fmt"
	"go/types"
	"strings"

	"golang.org/x/tools/go/ssa"
)

func init() {
	register(&propSpec{id: "C04", title: "algorithm gate dominates the key; gate semantics", run: runC04, mutants: mutC04, design: "DESIGN.md section 3, C04"})
}

// hasHeadersReceiver: fn is a method whose receiver struct has a Headers field.
func (P *Prog) hasHeadersReceiver(fn *ssa.Function) bool {
	if fn.Signature.Recv() == nil {
		return false
	}
	t := deref(fn.Signature.Recv().Type())
	st, ok := t.Underlying().(*types.Struct)
	if !ok {
		return false
	}
	for i := 0; i < st.NumFields(); i++ {
		if st.Field(i).Name() == "Headers" && isNamed(st.Field(i).Type(), cosePath, "Headers") {
			return true
		}
	}
	return false
}

// externalOfContent: the external_aad element of the encoded array: the
// []byte element of the form gate(x == nil, arr<byte>(), x); returns x.
func externalOfContent(content *Term) *Term {
	for _, a := range encodedArrays(content) {
		for _, el := range a.Args {
			v := el
			if v.Op == "iface" {
				v = v.Args[0]
			}
			if v.Op == "gate" && v.Args[1].Op == "arr" && len(v.Args[1].Args) == 0 {
				return v.Args[2]
			}
		}
	}
	return nil
}

type gateInfo struct {
	fn   *ssa.Function
	sign bool
}

func runC04(r *Report, tier string) {
	P := r.P
	// round 6: the alg consulted is the alg in the bytes that are verified
	r.rule("R19.3", "(shared with C19) no in-package UnmarshalCBOR retains its input buffer: the parsed protected map (where the algorithm is looked up) and the retained raw bytes (what is verified) cannot drift apart when the caller reuses its buffer.")
	checkInputNotRetained(r, "R19.3")
	r.rule("R04.1", "every key invocation in a method with Headers is dominated by ok(gate(headers, key.Algorithm(), external)) with the same key value, the same Headers whose protected bytes are signed and the same external data; Algorithm() is invoked once; nothing writes the Headers between gate and key.")
	r.rule("R04.2", "each success path of a gate is one of: (a) candidate == alg; (b) accessor reported not-found and len(external) > 0; (c) sign gate only: not-found, RawProtected == nil and alg inserted under label 1 into the current protected map. The verify gate writes nothing. Mismatch returns ErrAlgorithmMismatch; other accessor errors are returned.")
	r.rule("R04.3", "on the sign side the gate dominates the ToBeSigned builder call (the injected alg is inside the signed bytes).")
	r.rule("R04.4", "in the decoder family Headers.Protected is written only by decoding Headers.RawProtected of the same Headers; the protected-bucket decoder re-types label 1 through the accessor the gates use.")
	r.rule("R04.5", "the accessor the gates consult returns an algorithm only for a value found under label 1 of the receiver that is an Algorithm or an integer of a type whose whole range fits int64 (wider unsigned types only under an explicit upper bound), so the number compared with the key's algorithm is the number in the header.")
	r.rule("R13.6", "every keyed read of a header map by label goes through a lookup that normalises the map's keys (spelling-insensitive).")
	r.assumes("a user-supplied Signer/Verifier returns the same Algorithm() on the single call made per operation")

	sites := P.keySites()
	r.sites += len(sites)
	gates := map[*ssa.Function]*gateInfo{}
	n1 := 0
	for _, s := range sites {
		fn := s.fn
		if !P.hasHeadersReceiver(fn) {
			// structurally exempt: no Headers reachable from the receiver
			r.analysed(fn)
			continue
		}
		n1++
		key := shortFn(fn)
		fs := P.factsBefore(s.call)
		recvT := P.terms.of(s.recv)
		algInvoke := "invoke:Verifier.Algorithm"
		if s.sign {
			algInvoke = "invoke:Signer.Algorithm"
		}
		g := gateCallIn(fs, algInvoke, recvT)
		o := r.ob("R04.1", key+":gate-dominates-key", fn, s.call, "ok(gate) with this key's Algorithm() dominates the key invocation")
		if g == nil {
			o.fail("the key is invoked without a dominating successful algorithm gate on the same signer/verifier value")
			continue
		}
		o.ok("ok("+g.String()+")", true)
		gfn := P.calleeOfTerm(g)
		if gfn != nil {
			if gates[gfn] == nil {
				gates[gfn] = &gateInfo{fn: gfn, sign: s.sign}
			}
		}
		content := P.terms.expand(P.terms.of(s.content), 8)
		// same Headers
		o2 := r.ob("R04.1", key+":same-headers", fn, s.call, "the gate's Headers are the ones whose protected bytes are signed")
		hdr := g.Args[0]
		protOfHdr := false
		content.walk(func(u *Term) {
			if u.Op == "load" && u.Args[0].Op == "field" && (u.Args[0].S == "RawProtected" || u.Args[0].S == "Protected") && u.Args[0].Args[0].eq(hdr) {
				protOfHdr = true
			}
		})
		o2.check(hdr.String() == "$0.Headers" && protOfHdr, "gate receiver "+hdr.String()+" occurs as protected-bytes source in the content term", "gate is applied to "+hdr.String()+" but the signed protected bytes come from elsewhere")
		// same external
		o3 := r.ob("R04.1", key+":same-external", fn, s.call, "the gate sees the external data that is signed")
		ext := externalOfContent(content)
		var gext *Term
		if len(g.Args) >= 3 {
			gext = g.Args[2]
		}
		o3.check(ext != nil && gext != nil && ext.eq(gext), "external "+fmt.Sprint(ext), fmt.Sprintf("gate external %v vs signed external %v", gext, ext))
		// Algorithm() once
		cnt := 0
		var gateInstr ssa.CallInstruction
		for _, ci := range callsIn(fn, nil) {
			c := ci.Common()
			if c.IsInvoke() && c.Method.Name() == "Algorithm" && c.Value == s.recv {
				cnt++
			}
			if gfn != nil && c.StaticCallee() == gfn {
				gateInstr = ci
			}
		}
		r.ob("R04.1", key+":algorithm-once", fn, s.call, "Algorithm() is invoked exactly once per operation").check(cnt == 1, "one invoke", fmt.Sprintf("%d invokes of Algorithm()", cnt))
		// no header write between gate and key
		o5 := r.ob("R04.1", key+":no-write-between", fn, s.call, "no write to the Headers between gate and key")
		bad := ""
		if gateInstr != nil {
			between := false
			for _, b := range fn.Blocks {
				for _, in := range b.Instrs {
					if in == ssa.Instruction(gateInstr) {
						between = true
						continue
					}
					if in == ssa.Instruction(s.call) {
						between = false
					}
					if !between || !gateInstr.Block().Dominates(b) {
						continue
					}
					for _, w := range writesOf(P, in) {
						if w.Kind == "param" && w.Param == 0 && len(w.Path) > 0 && w.Path[0] == "Headers" {
							bad = fmt.Sprintf("%s writes %s", P.instrPos(in), w)
						}
					}
				}
			}
		} else {
			bad = "gate call instruction not found"
		}
		o5.check(bad == "", "no instruction between gate and key writes $0.Headers", bad)
		// R04.3
		if s.sign {
			o6 := r.ob("R04.3", key+":gate-before-builder", fn, s.call, "gate dominates the ToBeSigned builder call")
			var builder ssa.CallInstruction
			if ex, ok := s.content.(*ssa.Extract); ok {
				builder, _ = ex.Tuple.(ssa.CallInstruction)
			} else if c, ok := s.content.(*ssa.Call); ok {
				builder = c
			}
			if builder == nil {
				o6.fail("content of the signer invoke is not the result of a builder call")
			} else {
				bf := P.factsBefore(builder)
				o6.check(gateCallIn(bf, algInvoke, recvT) != nil, "ok(gate) holds before the builder call", "the builder runs before (or without) the gate")
			}
		}
	}
	r.floor("R04.1", n1, 6, "key sites in methods with Headers")

	// R04.2
	r.floor("R04.2", len(gates), 2, "gate functions")
	var accessor *ssa.Function
	for _, gi := range sortedGates(gates) {
		acc := checkGate(r, gi)
		if acc != nil {
			if accessor != nil && accessor != acc {
				r.ob("R04.2", "gates:one-accessor", nil, nil, "both gates use the same accessor").fail("gates use different accessors")
			}
			accessor = acc
		}
	}

	// R04.4
	if accessor != nil {
		checkDecodedAlg(r, accessor)
	}
	// R13.6
	checkLabelLookups(r, "R13.6", "C04")
	// the hash-envelope producer signs under its signer's algorithm too: the
	// Headers it hands to Sign1 carry no caller-supplied raw protected bytes
	// that would be signed instead of the map the gate has checked
	r.rule("R12.3", "(shared with C12) both raw header fields of the Headers handed to Sign1 by SignHashEnvelope are nil.")
	checkEnvelopeRawNil(r, "R12.3")
}

func sortedGates(m map[*ssa.Function]*gateInfo) []*gateInfo {
	var out []*gateInfo
	for _, g := range m {
		out = append(out, g)
	}
	for i := range out {
		for j := i + 1; j < len(out); j++ {
			if out[j].fn.String() < out[i].fn.String() {
				out[i], out[j] = out[j], out[i]
			}
		}
	}
	return out
}

// writesOf: the non-fresh locations instruction in writes (this function's terms).
func writesOf(P *Prog, in ssa.Instruction) []Loc {
	E := P.effects
	e := P.terms
	var out []Loc
	switch in := in.(type) {
	case *ssa.Store:
		root, path := e.addrPath(in.Addr)
		out = append(out, E.originsOfRoot(root, path, 0)...)
	case *ssa.MapUpdate:
		out = append(out, E.originsOf(e.of(in.Map), []string{"[*]"}, 0)...)
	case ssa.CallInstruction:
		tmp := &effSummary{}
		E.callEffects(in.Parent(), in, func(l Loc, _ ssa.Instruction, _ []string, _ string) { out = append(out, l) }, tmp)
	}
	var res []Loc
	for _, l := range out {
		if l.Kind != "fresh" {
			res = append(res, l)
		}
	}
	return res
}

// checkGate enumerates the gate's paths (R04.2) and returns its accessor.
func checkGate(r *Report, gi *gateInfo) *ssa.Function {
	P := r.P
	fn := gi.fn
	key := shortFn(fn)
	// deep paths: a gate that hands its verdict through from a shared body
	// (two gates merged into one function driven by a constant flag) is judged
	// on that body's paths with the wrapper's arguments substituted
	paths := P.deepPaths(fn)
	r.paths += len(paths)
	var accessor *ssa.Function
	// the accessor: in-package callee returning (Algorithm, error) applied to *$0.Protected
	scan := []*ssa.Function{fn}
	for _, p := range paths {
		scan = append(scan, p.via...)
	}
	for _, sf := range uniqFuncs(scan) {
		for _, ci := range callsIn(sf, nil) {
			c := ci.Common().StaticCallee()
			if c != nil && P.inPkg(c) && c.Signature.Results().Len() == 2 && isNamed(c.Signature.Results().At(0).Type(), cosePath, "Algorithm") {
				accessor = c
			}
		}
	}
	if accessor == nil {
		r.ob("R04.2", key+":accessor", fn, nil, "gate reads the protected alg through an accessor").fail("no in-package accessor returning (Algorithm, error) is called")
		return nil
	}
	protected := &Term{Op: "load", Args: []*Term{{Op: "field", S: "Protected", Args: []*Term{T("param", "0")}}}}
	acall := &Term{Op: "call", S: shortFn(accessor), Args: []*Term{protected}}
	cand := &Term{Op: "res", S: "0", Args: []*Term{acall}}
	aerr := &Term{Op: "res", S: "1", Args: []*Term{acall}}
	alg := T("param", "1")
	ext := T("param", "2")
	notFound := &Term{Op: "load", Args: []*Term{T("global", "ErrAlgorithmNotFound")}}
	fEqAlg := Fact{tEq(cand, alg), true}
	fNeAlg := Fact{tEq(cand, alg), false}
	fAccOK := okFact(aerr)
	fNotFound := Fact{tEq(aerr, notFound), true}
	fExt := Fact{tLt(tInt(0), tLen(ext)), true}
	fRawNil := Fact{tEq(&Term{Op: "load", Args: []*Term{{Op: "field", S: "RawProtected", Args: []*Term{T("param", "0")}}}}, tNil()), true}
	nsucc := 0
	for i, p := range paths {
		if !p.feasible() {
			continue
		}
		res := p.results()
		fs := factSet{}
		for _, c := range p.conds {
			fs.add(c)
		}
		k, deleg := P.classifyErr(res[0], fs)
		id := fmt.Sprintf("%s:path:%s", key, pathID(p))
		_ = i
		// a verdict handed through from a helper: examine the helper's paths in its place
		type vcase struct {
			conds  []Fact
			fail   bool
			errStr string
		}
		var cases []vcase
		if dc := delegCall(res[0]); deleg && dc != nil && P.calleeOfTerm(dc) != nil {
			g := P.calleeOfTerm(dc)
			m := map[string]*Term{}
			for ai, a := range dc.Args {
				m[fmt.Sprint(ai)] = a
			}
			for _, gp := range P.allPaths(g) {
				if !gp.feasible() {
					continue
				}
				gfs := factSet{}
				cs := append([]Fact{}, p.conds...)
				for _, gc := range gp.conds {
					gfs.add(gc)
					cs = append(cs, normFact(gc.Pred.subst(m), gc.Val))
				}
				gk, _ := P.classifyErr(gp.results()[errIndex(g)], gfs)
				cases = append(cases, vcase{cs, gk == exitFailure, gp.results()[errIndex(g)].subst(m).String()})
			}
		} else {
			cases = []vcase{{p.conds, k == exitFailure, res[0].String()}}
		}
		for ci, vc := range cases {
			has := func(f Fact) bool {
				for _, c := range vc.conds {
					if c.String() == f.String() {
						return true
					}
				}
				return false
			}
			cid := id
			if len(cases) > 1 {
				cid = fmt.Sprintf("%s/%d", id, ci)
			}
			if vc.fail {
				// mismatch / other accessor errors
				if has(fAccOK) && has(fNeAlg) {
					o := r.ob("R04.2", cid+":mismatch", fn, p.ret, "mismatch exit wraps ErrAlgorithmMismatch")
					o.check(strings.Contains(vc.errStr, "*@ErrAlgorithmMismatch"), "error "+truncate(vc.errStr, 120), "mismatch exit returns "+truncate(vc.errStr, 200))
				}
				continue
			}
			nsucc++
			o := r.ob("R04.2", cid, fn, p.ret, "success path of the gate is (a) equal, (b) not-found with external data, or (c) sign-side injection")
			wr := pathWrites(P, p)
			switch {
			case has(fAccOK) && has(fEqAlg):
				o.check(len(wr) == 0, "(a) candidate == alg, no write", "(a) path writes "+fmt.Sprint(wr))
			case has(fNotFound) && has(fExt):
				o.check(len(wr) == 0, "(b) not found, len(external) > 0, no write", "(b) path writes "+fmt.Sprint(wr))
			case gi.sign && has(fNotFound) && has(fRawNil):
				why := injectionOK(P, p)
				o.check(why == "", "(c) not found, RawProtected == nil, alg inserted under label 1 into the current protected map", why)
			default:
				var cs []string
				for _, c := range vc.conds {
					cs = append(cs, c.String())
				}
				o.fail("gate succeeds on a path that is none of (a), (b), (c): conditions " + truncate(strings.Join(cs, " ∧ "), 500))
			}
		}
	}
	r.floor("R04.2", nsucc, 2, "success paths of "+key)
	if !gi.sign {
		s := P.effects.summary(fn)
		o := r.ob("R04.2", key+":no-write", fn, nil, "the verify gate writes nothing")
		var ws []string
		for _, w := range s.writes {
			ws = append(ws, w.loc().String())
		}
		okW := len(s.writes) == 0
		if !okW {
			// the summary is not path-sensitive: when the gate is loop-free,
			// the writes along each of its feasible deep paths decide
			loopFree := len(findLoops(fn)) == 0
			for _, p := range paths {
				for _, v := range p.via {
					if len(findLoops(v)) > 0 {
						loopFree = false
					}
				}
			}
			if loopFree {
				okW = true
				for _, p := range paths {
					if p.feasible() && len(pathWrites(P, p)) > 0 {
						okW = false
					}
				}
			}
		}
		o.check(okW, "no write on any feasible path", "verify gate writes "+strings.Join(ws, ", "))
	}
	// other accessor errors are returned: exits with aerr != nil and aerr != NotFound return aerr
	for _, x := range P.factsOf(fn).exits {
		if x.facts.has(Fact{tEq(aerr, tNil()), false}) && x.facts.has(Fact{tEq(aerr, notFound), false}) {
			o := r.ob("R04.2", key+":other-error:"+exitID(P, fn, x), fn, x.ret, "an accessor error other than not-found is returned")
			o.check(x.kind == exitFailure && x.errTerm.contains(func(u *Term) bool { return u.eq(aerr) }), "returns "+x.errTerm.String(), "returns "+x.errTerm.String())
		}
	}
	return accessor
}

func pathID(p *Path) string {
	var sb strings.Builder
	for _, c := range p.conds {
		if c.Val {
			sb.WriteByte('T')
		} else {
			sb.WriteByte('F')
		}
	}
	return sb.String()
}

// pathWrites: non-fresh writes executed along the path.
func pathWrites(P *Prog, p *Path) []string {
	var out []string
	p.instrsDeep(func(in ssa.Instruction, _ *termEngine, _ map[string]*Term) {
		for _, l := range writesOf(P, in) {
			out = append(out, l.String())
		}
	})
	return out
}

// injectionOK: along path p the only writes are $0.Protected (a fresh map, when
// it was nil) and one insertion key 1 -> $1 into the current value of
// $0.Protected.
func injectionOK(P *Prog, p *Path) string {
	put := false
	why := ""
	p.instrsDeep(func(in ssa.Instruction, eng *termEngine, m map[string]*Term) {
		// terms of a helper segment are read in the gate's own frame
		inRoot := func(t *Term) *Term {
			if m == nil {
				return t
			}
			return t.subst(m)
		}
		if m != nil {
			// the helper's receiver is the gate's own Headers
			if r0, ok := m["0"]; !ok || r0.String() != "$0" {
				for range writesOf(P, in) {
					why = "a helper working on " + fmt.Sprint(m["0"]) + " writes"
				}
			}
		}
		switch in := in.(type) {
		case *ssa.Store:
			for _, l := range writesOf(P, in) {
				if l.String() != "$0.Protected" {
					why = "unexpected store to " + l.String()
				}
			}
			if v := eng.of(in.Val); len(writesOf(P, in)) > 0 && v.Op != "makemap" {
				why = "Protected is replaced by " + v.String() + ", not a fresh map"
			}
		case *ssa.MapUpdate:
			why = "map written directly"
		case ssa.CallInstruction:
			ws := writesOf(P, in)
			if len(ws) == 0 {
				return
			}
			callee := in.Common().StaticCallee()
			if callee == nil || !P.inPkg(callee) {
				why = "write through " + calleeName(in.Common())
				return
			}
			// callee: single MapUpdate $0[iface<int64>(1)] = iface<Algorithm>($1)
			mus := 0
			okMU := false
			for _, b := range callee.Blocks {
				for _, ci := range b.Instrs {
					if mu, ok := ci.(*ssa.MapUpdate); ok {
						mus++
						k, v, m := P.terms.of(mu.Key), P.terms.of(mu.Value), P.terms.of(mu.Map)
						if m.String() == "$0" && k.String() == "iface<int64>(1)" && v.String() == "iface<Algorithm>($1)" {
							okMU = true
						}
					}
				}
			}
			if mus != 1 || !okMU || len(P.effects.summary(callee).writes) != 1 {
				why = "the inserting helper " + shortFn(callee) + " does not perform exactly map[int64(1)] = alg"
				return
			}
			args := in.Common().Args
			cur := eng.loadPath(in.Parent().Params[0], []string{"Protected"}, in)
			if !eng.of(args[0]).eq(cur) {
				why = "alg is inserted into " + eng.of(args[0]).String() + " which is not the current protected map " + cur.String()
				return
			}
			if inRoot(eng.of(args[1])).String() != "$1" {
				why = "inserted value is " + inRoot(eng.of(args[1])).String() + ", not the gate's alg parameter"
				return
			}
			put = true
		}
	})
	if why != "" {
		return why
	}
	if !put {
		return "path (c) returns success without inserting the algorithm"
	}
	return ""
}

// checkDecodedAlg: R04.4.
func checkDecodedAlg(r *Report, accessor *ssa.Function) {
	P := r.P
	fam := P.decoderFamily()
	n := 0
	for fn := range fam {
		for _, b := range fn.Blocks {
			for _, in := range b.Instrs {
				// writes to a field named Protected of a Headers value
				switch in := in.(type) {
				case *ssa.Store:
					_, path := P.terms.addrPath(in.Addr)
					if len(path) > 0 && path[len(path)-1] == "Protected" && isNamed(deref(in.Addr.Type()), cosePath, "ProtectedHeader") {
						root, _ := P.terms.addrPath(in.Addr)
						if _, local := root.(*ssa.Alloc); local {
							continue
						}
						n++
						r.ob("R04.4", shortFn(fn)+":store-protected", fn, in, "Headers.Protected is only written by decoding RawProtected").fail("direct store to Headers.Protected in the decoder family")
					}
				case ssa.CallInstruction:
					c := in.Common()
					if !(c.IsInvoke() && c.Method.Name() == "Unmarshal" && isCBORMode(c.Value.Type()) && len(c.Args) == 2) {
						continue
					}
					dst := P.terms.of(c.Args[1])
					if dst.Op != "iface" || dst.S != "*ProtectedHeader" {
						continue
					}
					n++
					o := r.ob("R04.4", shortFn(fn)+":decode-protected", fn, in, "Protected is decoded from the RawProtected of the same Headers with the package decode mode")
					d := dst.Args[0] // pointer term X.Protected
					src := P.terms.of(c.Args[0])
					okShape := d.Op == "field" && d.S == "Protected" && src.Op == "load" && src.Args[0].Op == "field" && src.Args[0].S == "RawProtected" && src.Args[0].Args[0].eq(d.Args[0])
					mode := P.terms.of(c.Value)
					o.check(okShape && mode.String() == "*@decMode", "Dec(decMode, "+src.String()+") -> "+d.String(), fmt.Sprintf("decode of %s into %s with mode %s", src, d, mode))
				}
			}
		}
	}
	r.floor("R04.4", n, 1, "decodes into Headers.Protected")
	// the protected-bucket decoder re-types alg through the same accessor
	ph := P.methodOf(P.mustNamed("ProtectedHeader"), "UnmarshalCBOR")
	if ph == nil {
		undecidedf("anchor not found: (*ProtectedHeader).UnmarshalCBOR")
	}
	o := r.ob("R04.4", shortFn(ph)+":retype-alg", ph, nil, "the protected-bucket decoder reads alg through the gates' accessor")
	uses := false
	for f := range P.reachable([]*ssa.Function{ph}) {
		// the decoder itself or a helper on its own static call chain (not via the CBOR dispatch)
		for _, ci := range callsIn(f, nil) {
			if staticCallee(ci) == accessor {
				uses = true
			}
		}
	}
	o.check(uses, "calls "+shortFn(accessor), "decoder does not call "+shortFn(accessor))
	// ... and what it writes back under label 1 is the accessor's result
	// itself: the map the gates consult then names the algorithm that is in
	// the signed bytes, not a translation of it
	{
		all := func(f func(ssa.Instruction)) {
			for _, b := range ph.Blocks {
				for _, x := range b.Instrs {
					f(x)
				}
			}
		}
		np := 0
		for _, pt := range P.putsDeep(ph, P.terms, all, 0) {
			k := pt.key
			if k.Op == "iface" && len(k.Args) == 1 {
				k = k.Args[0]
			}
			if n, ok := termConstInt(k); !ok || n != 1 {
				continue
			}
			np++
			v := pt.val
			for v.Op == "iface" && len(v.Args) == 1 {
				v = v.Args[0]
			}
			okV := v.Op == "res" && v.S == "0" && len(v.Args) == 1 && v.Args[0].Op == "call" && v.Args[0].S == shortFn(accessor)
			r.ob("R04.4", fmt.Sprintf("%s:retyped-value#%d", shortFn(ph), np), ph, pt.instr, "the value stored under label 1 while decoding is the accessor's result, unchanged").check(okV, truncate(v.String(), 100), "the decoder stores "+truncate(v.String(), 160)+" under label 1: the protected map would name another algorithm than the signed bytes")
		}
	}
	// ... and always replaces the destination map: no alg of an earlier
	// decode survives in Headers.Protected (shared with R19.2)
	checkReceiverAssigned(r, "R04.4", ph)
	checkNoWriteBelowOldReceiver(r, "R04.4", ph)

	// R04.5: the accessor's value table
	checkAlgAccessor(r, "R04.5", accessor)
}

// checkAlgAccessor: every success path of the accessor has found the label
// and returns the stored value asserted to Algorithm or to an integer type
// every value of which is an int64 (a conversion that can wrap, e.g. from
// uint64, needs a dominating upper bound).
func checkAlgAccessor(r *Report, rule string, acc *ssa.Function) {
	P := r.P
	r.analysed(acc)
	ei := errIndex(acc)
	np := 0
	exact := map[string]bool{"Algorithm": true, "int": true, "int8": true, "int16": true, "int32": true, "int64": true, "uint8": true, "uint16": true, "uint32": true}
	for _, p := range P.inlineViews(acc, nil) {
		if !p.feasible() {
			continue
		}
		res := p.results()
		fs := factSet{}
		for _, c := range p.conds {
			fs.add(c)
		}
		if k, _ := P.classifyErr(res[ei], fs); k == exitFailure {
			// "not found" is reported only when the label is absent: a present
			// value (whatever it is) must never look like a missing alg, which
			// the gates tolerate under external data / fill in when signing
			if strings.Contains(P.expandErr(res[ei], 0).String(), "*@ErrAlgorithmNotFound") {
				absent := false
				for _, c := range p.conds {
					if !c.Val && c.Pred.Op == "res" && c.Pred.S == "1" && strings.Contains(c.Pred.String(), "$0") && strings.Contains(c.Pred.String(), "iface<int64>(1)") {
						absent = true
					}
				}
				r.ob(rule, shortFn(acc)+":not-found:"+pathID(p), acc, p.ret, "ErrAlgorithmNotFound is returned only when label 1 is absent").check(absent, "lookup failed on this path", "ErrAlgorithmNotFound is returned on a path where label 1 is present: the gates treat such a header as carrying no alg")
			}
			continue
		}
		np++
		o := r.ob(rule, shortFn(acc)+":path:"+pathID(p), acc, p.ret, "a returned algorithm is the stored value, value-preservingly converted")
		v := res[0]
		for v.Op == "convert" && len(v.Args) == 1 {
			// conversions between int64-based types keep the value; the
			// source type is judged below
			if !(strings.HasSuffix(v.S, "Algorithm") || v.S == "int64") {
				break
			}
			v = v.Args[0]
		}
		why := ""
		if !(v.Op == "res" && v.S == "0" && len(v.Args) == 1 && v.Args[0].Op == "typeassert") {
			why = "the returned algorithm is " + truncate(res[0].String(), 120) + ", not the stored value asserted to an integer type"
		} else {
			ta := v.Args[0]
			tn := strings.TrimSuffix(ta.S, ",ok")
			src := ta.Args[0].String()
			switch {
			case !strings.Contains(src, "$0") || !strings.Contains(src, "iface<int64>(1)"):
				why = "the asserted value " + truncate(src, 100) + " is not the entry under label 1 of the receiver"
			case !p.has(Fact{&Term{Op: "res", S: "1", Args: []*Term{ta}}, true}) && strings.HasSuffix(ta.S, ",ok"):
				why = "the type assertion to " + tn + " is not tested on this path"
			case exact[tn]:
			default:
				// a wider unsigned type: needs an upper bound within int64
				bounded := false
				for _, c := range p.conds {
					if c.Pred.Op != "binop" {
						continue
					}
					a, b := c.Pred.Args[0], c.Pred.Args[1]
					if n, ok := termConstInt(b); ok && n >= 0 && a.eq(v) && ((c.Pred.S == "<=" || c.Pred.S == "<") && c.Val) {
						bounded = true
					}
					if n, ok := termConstInt(a); ok && n >= 0 && b.eq(v) && c.Pred.S == "<" && !c.Val {
						bounded = true
					}
				}
				if !bounded {
					why = "a value of type " + tn + " is converted to the int64-based algorithm type without a range check (the conversion can wrap around to another algorithm)"
				}
			}
		}
		o.check(why == "", truncate(res[0].String(), 100), why)
	}
	r.floor(rule, np, 6, "success paths of the algorithm accessor")
}

func mutC04() []mutant {
	return []mutant{
		{Name: "accessor converts uint64 alg values (wrap-around)", File: "headers.go", Quick: true, Rule: "R04.5",
			Old: "\tcase int64:\n\t\treturn Algorithm(alg), nil\n\tcase string:\n\t\treturn AlgorithmReserved, fmt.Errorf(\"Algorithm(%q)", New: "\tcase int64:\n\t\treturn Algorithm(alg), nil\n\tcase uint64:\n\t\treturn Algorithm(alg), nil\n\tcase string:\n\t\treturn AlgorithmReserved, fmt.Errorf(\"Algorithm(%q)"},
		{Name: "ProtectedHeader.Algorithm looks alg up with a bare int64 key", File: "headers.go", Quick: true, Rule: "R13.6",
			Old: "value, ok := lookupLabel(h, HeaderLabelAlgorithm)", New: "value, ok := h[HeaderLabelAlgorithm]"},
		{Name: "Sign1Message.Verify builds ToBeSigned and calls the key before the gate", File: "sign1.go", Quick: true, Rule: "R04.1",
			Old: "\talg := verifier.Algorithm()\n\terr := m.Headers.ensureVerificationAlgorithm(alg, external)\n\tif err != nil {\n\t\treturn err\n\t}\n\n\t// verify the message\n\ttoBeSigned, err := m.toBeSigned(external)\n\tif err != nil {\n\t\treturn err\n\t}\n\treturn verifier.Verify(toBeSigned, m.Signature)",
			New: "\ttoBeSigned, err := m.toBeSigned(external)\n\tif err != nil {\n\t\treturn err\n\t}\n\tif err := verifier.Verify(toBeSigned, m.Signature); err != nil {\n\t\treturn err\n\t}\n\talg := verifier.Algorithm()\n\treturn m.Headers.ensureVerificationAlgorithm(alg, external)"},
		{Name: "verify gate accepts a missing alg without external data", File: "headers.go", Quick: true, Rule: "R04.2", Nth: 2,
			Old: "\tcase ErrAlgorithmNotFound:\n\t\tif len(external) > 0 {\n\t\t\treturn nil\n\t\t}\n", New: "\tcase ErrAlgorithmNotFound:\n\t\treturn nil\n"},
		{Name: "sign gate skipped when external data is non-empty", File: "headers.go", Rule: "R04.2",
			Old: "func (h *Headers) ensureSigningAlgorithm(alg Algorithm, external []byte) error {\n", New: "func (h *Headers) ensureSigningAlgorithm(alg Algorithm, external []byte) error {\n\tif len(external) > 0 {\n\t\treturn nil\n\t}\n"},
		{Name: "verify gate compares against a constant", File: "headers.go", Rule: "R04.2", Nth: 2,
			Old: "\t\tif candidate != alg {", New: "\t\tif candidate != alg && candidate != AlgorithmES256 {"},
		{Name: "sign gate injects a fixed algorithm", File: "headers.go", Rule: "R04.2",
			Old: "\t\th.Protected.SetAlgorithm(alg)\n\t\treturn nil", New: "\t\th.Protected.SetAlgorithm(AlgorithmES256)\n\t\treturn nil"},
		{Name: "sign gate injects although raw protected bytes are present", File: "headers.go", Rule: "R04.2",
			Old: "\t\tif h.RawProtected != nil {\n\t\t\treturn ErrAlgorithmNotFound\n\t\t}\n", New: ""},
		{Name: "Signature.Sign gates on a different external value", File: "sign.go", Rule: "R04.1",
			Old: "if err := s.Headers.ensureSigningAlgorithm(alg, external); err != nil {", New: "if err := s.Headers.ensureSigningAlgorithm(alg, payload); err != nil {"},
		{Name: "Countersignature.Sign injects alg after building ToBeSigned", File: "countersign.go", Rule: "R04.3",
			Old: "\talg := signer.Algorithm()\n\tif err := s.Headers.ensureSigningAlgorithm(alg, external); err != nil {\n\t\treturn err\n\t}\n\n\t// sign the message\n\ttoBeSigned, err := s.toBeSigned(parent, external)\n\tif err != nil {\n\t\treturn err\n\t}\n",
			New: "\ttoBeSigned, err := s.toBeSigned(parent, external)\n\tif err != nil {\n\t\treturn err\n\t}\n\talg := signer.Algorithm()\n\tif err := s.Headers.ensureSigningAlgorithm(alg, external); err != nil {\n\t\treturn err\n\t}\n"},
		{Name: "Verify asks a second time for the algorithm", File: "sign1.go", Rule: "R04.1",
			Old: "\talg := verifier.Algorithm()\n\terr := m.Headers.ensureVerificationAlgorithm(alg, external)", New: "\talg := verifier.Algorithm()\n\t_ = verifier.Algorithm()\n\terr := m.Headers.ensureVerificationAlgorithm(alg, external)"},
		{Name: "UnmarshalFromRaw decodes Protected from the unprotected bytes", File: "headers.go", Rule: "R04.4",
			Old: "decMode.Unmarshal(h.RawProtected, &h.Protected)", New: "decMode.Unmarshal(h.RawUnprotected, &h.Protected)"},
		{Name: "mismatch reported as not-found", File: "headers.go", Rule: "R04.2",
			Old: "\t\tif candidate != alg {\n\t\t\treturn fmt.Errorf(\"%w: verifier %v: header %v\", ErrAlgorithmMismatch, alg, candidate)", New: "\t\tif candidate != alg {\n\t\t\treturn fmt.Errorf(\"%w: verifier %v: header %v\", ErrAlgorithmNotFound, alg, candidate)"},
	}
}

// checkGatesOnly: discovers the two algorithm gates from the key sites and
// applies R04.2 to them (shared with C01: signing and verification must agree
// on when a missing alg is tolerated).
func checkGatesOnly(r *Report) {
	P := r.P
	gates := map[*ssa.Function]*gateInfo{}
	for _, s := range P.keySites() {
		if !P.hasHeadersReceiver(s.fn) {
			continue
		}
		algInvoke := "invoke:Verifier.Algorithm"
		if s.sign {
			algInvoke = "invoke:Signer.Algorithm"
		}
		if g := gateCallIn(P.factsBefore(s.call), algInvoke, P.terms.of(s.recv)); g != nil {
			if gfn := P.calleeOfTerm(g); gfn != nil && gates[gfn] == nil {
				gates[gfn] = &gateInfo{fn: gfn, sign: s.sign}
			}
		}
	}
	r.floor("R04.2", len(gates), 2, "gate functions")
	for _, gi := range sortedGates(gates) {
		checkGate(r, gi)
	}
}

package main

import (
	"flag"
	"fmt"
	"os"
	"sort"
	"strings"
)

func main() {
	repo := flag.String("repo", "/repo", "repository root")
	prop := flag.String("property", "", "property id (C01..C20) or 'all'")
	tier := flag.String("tier", "quick", "quick|thorough")
	dump := flag.String("dump", "", "dump terms/facts/effects of functions whose name contains this string")
	verif := flag.String("verif", "/verif", "verif root (evidence, known findings)")
	replay := flag.String("replay", "", "replay file")
	flag.Parse()
	_ = tier
	_ = verif
	_ = replay
	if *dump != "" {
		os.Exit(runDump(*repo, *dump))
	}
	if *prop == "" {
		fmt.Fprintln(os.Stderr, "usage: cosecheck -property <id> [-tier quick|thorough]")
		os.Exit(2)
	}
	os.Exit(runProperty(*repo, *verif, *prop, *tier, *replay))
}

func runDump(repo, pat string) (code int) {
	defer func() {
		if r := recover(); r != nil {
			if u, ok := r.(undecided); ok {
				fmt.Println("UNDECIDED:", u.msg)
				code = 2
				return
			}
			panic(r)
		}
	}()
	P, err := loadProg(repo, nil, nil)
	if err != nil {
		fmt.Println(err)
		return 2
	}
	P.effects.computeAll()
	fmt.Printf("files=%d funcs=%d effect-rounds=%d\n", len(P.Files), len(P.Funcs), P.effects.rounds)
	for _, fn := range P.Funcs {
		if !strings.Contains(fn.String(), pat) && pat != "ALL" {
			continue
		}
		fmt.Printf("== %s  (%s)\n", shortFn(fn), P.pos(fn.Pos()))
		if fn.Blocks == nil {
			continue
		}
		fr := P.factsOf(fn)
		for _, x := range fr.exits {
			var rs []string
			for _, r := range x.results {
				rs = append(rs, r.String())
			}
			fmt.Printf("  exit %-8s deleg=%v @%s\n     results: %s\n", x.kind, x.delegated, P.instrPos(x.ret), strings.Join(rs, " ; "))
			for _, f := range x.facts.sorted() {
				fmt.Printf("       fact %s\n", f)
			}
		}
		fmt.Printf("  summary:\n")
		for _, f := range fr.summary.sorted() {
			fmt.Printf("       %s\n", f)
		}
		s := P.effects.summary(fn)
		var ws []string
		for _, w := range s.writes {
			ws = append(ws, fmt.Sprintf("%s [%s @%s via %s]", w.loc(), w.what, P.instrPos(w.instr), strings.Join(w.via, ">")))
		}
		sort.Strings(ws)
		for _, w := range ws {
			fmt.Printf("  write %s\n", w)
		}
		for _, n := range s.notes {
			fmt.Printf("  note %s\n", n)
		}
	}
	return 0
}

package main

// E2: value-flow terms. A Term is a canonical symbolic expression for an SSA
// value in terms of the function's parameters, globals, constants and calls.
// Loads are resolved through a per-function symbolic memory walk over the
// CFG (store-to-load forwarding, gates at diamonds); see DESIGN.md 2.4.

import (
	"fmt"
	"go/constant"
	"go/token"
	"go/types"
	"sort"
	"strconv"
	"strings"

	"golang.org/x/tools/go/ssa"
)

type Term struct {
	Op   string
	S    string
	Args []*Term
	key  string
	// Snap: for the address of a local struct handed to a call, the value the
	// struct holds at that call (not part of the term's identity or print):
	// loads through the callee's parameter then read this value
	Snap *Term
}

func T(op, s string, args ...*Term) *Term { return &Term{Op: op, S: s, Args: args} }

func (t *Term) String() string {
	if t == nil {
		return "_"
	}
	if t.key != "" {
		return t.key
	}
	var sb strings.Builder
	switch t.Op {
	case "const":
		sb.WriteString(t.S)
	case "nil":
		sb.WriteString("nil")
	case "param":
		sb.WriteString("$" + t.S)
	case "global":
		sb.WriteString("@" + t.S)
	case "field":
		sb.WriteString(t.Args[0].String() + "." + t.S)
	case "load":
		sb.WriteString("*" + t.Args[0].String())
	default:
		sb.WriteString(t.Op)
		if t.S != "" {
			sb.WriteString("<" + t.S + ">")
		}
		sb.WriteString("(")
		for i, a := range t.Args {
			if i > 0 {
				sb.WriteString(", ")
			}
			sb.WriteString(a.String())
		}
		sb.WriteString(")")
	}
	t.key = sb.String()
	return t.key
}

func (t *Term) eq(u *Term) bool { return t.String() == u.String() }

// walk visits every subterm.
func (t *Term) walk(f func(*Term)) {
	if t == nil {
		return
	}
	f(t)
	for _, a := range t.Args {
		a.walk(f)
	}
}

func (t *Term) contains(pred func(*Term) bool) bool {
	found := false
	t.walk(func(u *Term) {
		if pred(u) {
			found = true
		}
	})
	return found
}

// subst replaces parameters by the given terms (nil entry: keep).
func (t *Term) subst(m map[string]*Term) *Term {
	if t == nil {
		return nil
	}
	if t.Op == "param" {
		if r, ok := m[t.S]; ok && r != nil {
			return r
		}
		return t
	}
	if len(t.Args) == 0 {
		if t.Snap != nil {
			// the snapshot lives in the same frame as the term
			if ns := t.Snap.subst(m); ns != t.Snap {
				return &Term{Op: t.Op, S: t.S, Snap: ns}
			}
		}
		return t
	}
	changed := false
	args := make([]*Term, len(t.Args))
	for i, a := range t.Args {
		args[i] = a.subst(m)
		if args[i] != a {
			changed = true
		}
	}
	if !changed {
		return t
	}
	return normalize(&Term{Op: t.Op, S: t.S, Args: args})
}

// rewrite applies f bottom-up.
func (t *Term) rewrite(f func(*Term) *Term) *Term {
	if t == nil {
		return nil
	}
	args := make([]*Term, len(t.Args))
	changed := false
	for i, a := range t.Args {
		args[i] = a.rewrite(f)
		if args[i] != a {
			changed = true
		}
	}
	u := t
	if changed {
		u = normalize(&Term{Op: t.Op, S: t.S, Args: args})
	}
	if r := f(u); r != nil {
		return r
	}
	return u
}

// reassoc folds (X ± c1) ± c2 into X ± c for integer constants, so that
// (n + 8 - 1) / 8 and (n + 7) / 8 are one term (integer addition is modular:
// re-association is exact).
func reassoc(t *Term) *Term {
	if t.Op != "binop" || (t.S != "+" && t.S != "-") || len(t.Args) != 2 {
		return t
	}
	c2, ok := smallConst(t.Args[1])
	if !ok {
		return t
	}
	in := t.Args[0]
	if in.Op != "binop" || (in.S != "+" && in.S != "-") || len(in.Args) != 2 {
		return t
	}
	c1, ok := smallConst(in.Args[1])
	if !ok {
		return t
	}
	if in.S == "-" {
		c1 = -c1
	}
	if t.S == "-" {
		c2 = -c2
	}
	c := c1 + c2
	switch {
	case c == 0:
		return in.Args[0]
	case c > 0:
		return &Term{Op: "binop", S: "+", Args: []*Term{in.Args[0], T("const", strconv.FormatInt(c, 10))}}
	}
	return &Term{Op: "binop", S: "-", Args: []*Term{in.Args[0], T("const", strconv.FormatInt(-c, 10))}}
}

func smallConst(t *Term) (int64, bool) {
	if t == nil || t.Op != "const" {
		return 0, false
	}
	n, err := strconv.ParseInt(t.S, 10, 64)
	if err != nil || n > 1<<31 || n < -(1<<31) {
		return 0, false
	}
	return n, true
}

// normalize applies the local algebra: projections of composites/updates.
func normalize(t *Term) *Term {
	switch t.Op {
	case "binop":
		return reassoc(t)
	case "gate":
		// a flag parameter replaced by a constant selects one arm
		if len(t.Args) == 3 && t.Args[0].Op == "zero" && len(t.Args[0].Args) == 0 {
			return t.Args[2]
		}
		if len(t.Args) == 3 && t.Args[0].Op == "const" {
			switch t.Args[0].S {
			case "true":
				return t.Args[1]
			case "false":
				return t.Args[2]
			}
		}
	case "call":
		// an interface method call on a value whose concrete (in-package)
		// type is known: the method itself
		if strings.HasPrefix(t.S, "invoke:") && len(t.Args) >= 1 && t.Args[0].Op == "iface" && len(t.Args[0].Args) == 1 {
			ct := t.Args[0].S
			if ct != "" && !strings.ContainsAny(ct, "./[ ") {
				if i := strings.LastIndex(t.S, "."); i > 0 {
					return &Term{Op: "call", S: "(" + ct + ")" + t.S[i:], Args: append([]*Term{t.Args[0].Args[0]}, t.Args[1:]...)}
				}
			}
		}
		// a dynamic call whose function value is known: a bound method value
		// m.F or a plain function
		if t.S == "dyn" && len(t.Args) >= 1 {
			f := t.Args[0]
			switch {
			case f.Op == "closure" && strings.HasPrefix(f.S, "bound:") && len(f.Args) == 1:
				return &Term{Op: "call", S: strings.TrimPrefix(f.S, "bound:"), Args: append([]*Term{f.Args[0]}, t.Args[1:]...)}
			case f.Op == "fn":
				return &Term{Op: "call", S: f.S, Args: t.Args[1:]}
			}
		}
	case "field":
		return projectField(t.Args[0], t.S)
	case "index":
		// element of a literal / forwarded array value at a constant index
		if len(t.Args) == 2 && t.Args[1].Op == "const" && t.Args[1].S != "*" {
			switch t.Args[0].Op {
			case "update", "arr", "zero":
				if _, err := strconv.Atoi(t.Args[1].S); err == nil {
					return projectIndex(t.Args[0], t.Args[1].S)
				}
			}
		}
	case "load":
		// load(field*(address of a caller's local with a snapshot)): the field
		// of the value the local held when it was passed
		if len(t.Args) == 1 {
			var path []string
			a := t.Args[0]
			for a.Op == "field" && len(a.Args) == 1 {
				path = append([]string{a.S}, path...)
				a = a.Args[0]
			}
			if a.Op == "alloc" && a.Snap != nil {
				v := a.Snap
				for _, f := range path {
					v = projectField(v, f)
				}
				if !v.contains(func(u *Term) bool { return u.Op == "alloc" && u.S == a.S }) {
					return v
				}
			}
		}
	case "slice":
		// bounds written as arithmetic on constants: x[0*n:1*n] is x[:n];
		// an upper bound equal to the length of the base is no bound
		if len(t.Args) == 4 {
			var lp *Prog
			lo, hi := t.Args[1], t.Args[2]
			ch := false
			if lo.Op == "binop" {
				if l := lp.linearize(lo); len(l.co) == 0 && l.c == 0 {
					lo, ch = T("_", ""), true
				} else if sm := simplifyLin(l); sm != nil && !sm.eq(lo) {
					lo, ch = sm, true
				}
			} else if lo.Op == "const" && lo.S == "0" {
				lo, ch = T("_", ""), true
			}
			if hi.Op != "_" {
				if d := lp.linearize(tSub(hi, tLen(t.Args[0]))); len(d.co) == 0 && d.c == 0 {
					hi, ch = T("_", ""), true
				} else if hi.Op == "binop" {
					if sm := simplifyLin(lp.linearize(hi)); sm != nil && !sm.eq(hi) {
						hi, ch = sm, true
					}
				}
			}
			if ch {
				return &Term{Op: "slice", Args: []*Term{t.Args[0], lo, hi, t.Args[3]}}
			}
		}
	case "append":
		// contents of slices built from literals: append(make(T, 0, c), xs...)
		// is xs, append(literal, xs...) is the concatenation
		if len(t.Args) == 2 && t.Args[1].Op == "arr" {
			base := t.Args[0]
			switch {
			case base.Op == "makeslice" && len(base.Args) >= 1 && base.Args[0].Op == "const" && base.Args[0].S == "0":
				return &Term{Op: "arr", S: t.Args[1].S, Args: t.Args[1].Args}
			case base.Op == "arr":
				return &Term{Op: "arr", S: base.S, Args: append(append([]*Term{}, base.Args...), t.Args[1].Args...)}
			case base.Op == "nil":
				return &Term{Op: "arr", S: t.Args[1].S, Args: t.Args[1].Args}
			}
		}
	}
	return t
}

// projectField projects field f out of a struct *value* term (or extends a
// pointer term).
func projectField(base *Term, f string) *Term {
	switch base.Op {
	case "struct":
		// S = "T|f1,f2,..."
		names := strings.Split(base.S[strings.Index(base.S, "|")+1:], ",")
		for i, n := range names {
			if n == f {
				return base.Args[i]
			}
		}
	case "update":
		// update<path>(base, val)
		p := strings.Split(base.S, "/")
		if p[0] == f {
			if len(p) == 1 {
				return base.Args[1]
			}
			inner := projectField(base.Args[0], f)
			return normalize(&Term{Op: "update", S: strings.Join(p[1:], "/"), Args: []*Term{inner, base.Args[1]}})
		}
		return projectField(base.Args[0], f)
	case "zero":
		return T("zero", "")
	case "load":
		// field(load(p), f) == load(field(p, f))
		return &Term{Op: "load", Args: []*Term{{Op: "field", S: f, Args: []*Term{base.Args[0]}}}}
	case "gate":
		a, b := projectField(base.Args[1], f), projectField(base.Args[2], f)
		if a.eq(b) {
			// the projected part does not depend on the gate's condition
			return a
		}
		return &Term{Op: "gate", Args: []*Term{base.Args[0], a, b}}
	}
	return &Term{Op: "field", S: f, Args: []*Term{base}}
}

// projectIndex: element n (a constant) of an array / literal value term.
func projectIndex(base *Term, n string) *Term {
	switch base.Op {
	case "update":
		p := strings.Split(base.S, "/")
		switch {
		case p[0] == "["+n+"]":
			if len(p) == 1 {
				return base.Args[1]
			}
			inner := projectIndex(base.Args[0], n)
			return normalize(&Term{Op: "update", S: strings.Join(p[1:], "/"), Args: []*Term{inner, base.Args[1]}})
		case strings.HasPrefix(p[0], "[") && p[0] != "[*]":
			return projectIndex(base.Args[0], n)
		}
	case "arr":
		if i, err := strconv.Atoi(n); err == nil && i >= 0 && i < len(base.Args) {
			return base.Args[i]
		}
	case "zero":
		return T("zero", "")
	}
	return &Term{Op: "index", Args: []*Term{base, T("const", n)}}
}

func projectPath(base *Term, path []string) *Term {
	for _, p := range path {
		if strings.HasPrefix(p, "[") {
			if p == "[*]" {
				base = &Term{Op: "index", Args: []*Term{base, T("const", "*")}}
			} else {
				base = projectIndex(base, strings.Trim(p, "[]"))
			}
			continue
		}
		base = projectField(base, p)
	}
	return base
}

func updatePath(base *Term, path []string, val *Term) *Term {
	if len(path) == 0 {
		return val
	}
	return &Term{Op: "update", S: strings.Join(path, "/"), Args: []*Term{base, val}}
}

// ---------------------------------------------------------------------------

type termEngine struct {
	P     *Prog
	cache map[ssa.Value]*Term
	busy  map[ssa.Value]bool
	mem   map[*ssa.Function]*memModel
	// pathPred, when set, restricts evaluation to one CFG path: a block's
	// only predecessor is the one recorded here (phi nodes and memory joins
	// pick that edge).
	pathPred map[*ssa.BasicBlock]*ssa.BasicBlock
	inlining map[*ssa.Function]bool
	// constIdx, when set, fixes SSA values (loop indices) to constants: used
	// to instantiate one iteration of a constant-bound loop
	constIdx map[ssa.Value]int64
	snapping map[*ssa.Alloc]bool
}

// onPath returns an engine that evaluates along the given block sequence.
func (e *termEngine) onPath(blocks []*ssa.BasicBlock) *termEngine {
	n := newTermEngine(e.P)
	n.pathPred = map[*ssa.BasicBlock]*ssa.BasicBlock{}
	for i := 1; i < len(blocks); i++ {
		n.pathPred[blocks[i]] = blocks[i-1]
	}
	return n
}

func newTermEngine(P *Prog) *termEngine {
	return &termEngine{P: P, cache: map[ssa.Value]*Term{}, busy: map[ssa.Value]bool{}, mem: map[*ssa.Function]*memModel{}}
}

func (e *termEngine) resetFunc(fn *ssa.Function) {
	delete(e.mem, fn)
	for v := range e.cache {
		if i, ok := v.(ssa.Instruction); ok && i.Parent() == fn {
			delete(e.cache, v)
		}
	}
}

func constInt64(v constant.Value) (int64, bool) {
	if v == nil || v.Kind() != constant.Int {
		return 0, false
	}
	return constant.Int64Val(v)
}

func constTerm(c *ssa.Const) *Term {
	if c.Value == nil {
		// nil or zero value of aggregate
		switch c.Type().Underlying().(type) {
		case *types.Struct, *types.Array:
			return T("zero", "")
		}
		return T("nil", "")
	}
	switch c.Value.Kind() {
	case constant.String:
		return T("const", strconv.Quote(constant.StringVal(c.Value)))
	case constant.Bool:
		return T("const", c.Value.String())
	case constant.Int:
		return T("const", c.Value.ExactString())
	}
	return T("const", c.Value.ExactString())
}

func paramIndex(p *ssa.Parameter) int {
	for i, q := range p.Parent().Params {
		if q == p {
			return i
		}
	}
	return -1
}

// of returns the term of an SSA value.
func (e *termEngine) of(v ssa.Value) *Term {
	if v == nil {
		return nil
	}
	if n, ok := e.constIdx[v]; ok {
		return tInt(n)
	}
	if t, ok := e.cache[v]; ok {
		return t
	}
	if e.busy[v] {
		return T("cyc", v.Name())
	}
	e.busy[v] = true
	t := e.compute(v)
	delete(e.busy, v)
	if !t.contains(func(u *Term) bool { return u.Op == "cyc" }) {
		e.cache[v] = t
	}
	return t
}

func calleeName(c *ssa.CallCommon) string {
	if c.IsInvoke() {
		return "invoke:" + shortType(c.Value.Type()) + "." + c.Method.Name()
	}
	if f := c.StaticCallee(); f != nil {
		return shortFn(f)
	}
	if b, ok := c.Value.(*ssa.Builtin); ok {
		return "builtin:" + b.Name()
	}
	return "dyn"
}

func (e *termEngine) callTerm(c *ssa.CallCommon) *Term { return e.callTermAt(c, nil) }

// callTermAt: callTerm for the call instruction at (when known): an argument
// that is the address of a local struct carries the struct's value at the
// call as a snapshot.
func (e *termEngine) callTermAt(c *ssa.CallCommon, at ssa.Instruction) *Term {
	var args []*Term
	if c.IsInvoke() {
		args = append(args, e.of(c.Value))
	} else if c.StaticCallee() == nil {
		if _, ok := c.Value.(*ssa.Builtin); !ok {
			args = append(args, e.of(c.Value))
		}
	}
	for _, a := range c.Args {
		t := e.of(a)
		if al, ok := a.(*ssa.Alloc); ok && at != nil && t.Op == "alloc" && c.StaticCallee() != nil && e.P.inPkg(c.StaticCallee()) {
			if _, isStruct := deref(al.Type()).Underlying().(*types.Struct); isStruct && !e.snapping[al] {
				if e.snapping == nil {
					e.snapping = map[*ssa.Alloc]bool{}
				}
				e.snapping[al] = true
				snap := e.loadPath(al, nil, at)
				delete(e.snapping, al)
				if snap != nil && (snap.Op == "update" || snap.Op == "struct" || snap.Op == "zero" || snap.Op == "param") {
					t = &Term{Op: t.Op, S: t.S, Snap: snap}
				}
			}
		}
		args = append(args, t)
	}
	name := calleeName(c)
	if strings.HasPrefix(name, "builtin:") {
		return normalize(&Term{Op: strings.TrimPrefix(name, "builtin:"), Args: args})
	}
	return normalize(&Term{Op: "call", S: name, Args: args})
}

func (e *termEngine) compute(v ssa.Value) *Term {
	switch v := v.(type) {
	case *ssa.Const:
		return constTerm(v)
	case *ssa.Parameter:
		return T("param", strconv.Itoa(paramIndex(v)))
	case *ssa.FreeVar:
		return T("freevar", v.Name())
	case *ssa.Global:
		return T("global", v.Name())
	case *ssa.Function:
		return T("fn", shortFn(v))
	case *ssa.Builtin:
		return T("builtin", v.Name())
	case *ssa.Alloc:
		return T("alloc", allocID(v))
	case *ssa.FieldAddr:
		st := deref(v.X.Type()).Underlying().(*types.Struct)
		return &Term{Op: "field", S: st.Field(v.Field).Name(), Args: []*Term{e.of(v.X)}}
	case *ssa.Field:
		st := v.X.Type().Underlying().(*types.Struct)
		return projectField(e.of(v.X), st.Field(v.Field).Name())
	case *ssa.IndexAddr:
		return &Term{Op: "index", Args: []*Term{e.of(v.X), e.of(v.Index)}}
	case *ssa.Index:
		return normalize(&Term{Op: "index", Args: []*Term{e.of(v.X), e.of(v.Index)}})
	case *ssa.Lookup:
		s := ""
		if v.CommaOk {
			s = "ok"
		}
		return &Term{Op: "lookup", S: s, Args: []*Term{e.of(v.X), e.of(v.Index)}}
	case *ssa.UnOp:
		if v.Op == token.MUL {
			return e.load(v.X, v)
		}
		return &Term{Op: "unop", S: v.Op.String(), Args: []*Term{e.of(v.X)}}
	case *ssa.BinOp:
		return reassoc(&Term{Op: "binop", S: v.Op.String(), Args: []*Term{e.of(v.X), e.of(v.Y)}})
	case *ssa.ChangeType:
		return e.of(v.X)
	case *ssa.ChangeInterface:
		return e.of(v.X)
	case *ssa.Convert:
		return &Term{Op: "convert", S: shortType(v.Type()), Args: []*Term{e.of(v.X)}}
	case *ssa.MultiConvert:
		return &Term{Op: "convert", S: shortType(v.Type()), Args: []*Term{e.of(v.X)}}
	case *ssa.SliceToArrayPointer:
		return &Term{Op: "convert", S: shortType(v.Type()), Args: []*Term{e.of(v.X)}}
	case *ssa.MakeInterface:
		return &Term{Op: "iface", S: shortType(v.X.Type()), Args: []*Term{e.of(v.X)}}
	case *ssa.TypeAssert:
		s := shortType(v.AssertedType)
		if v.CommaOk {
			s += ",ok"
		}
		return &Term{Op: "typeassert", S: s, Args: []*Term{e.of(v.X)}}
	case *ssa.Extract:
		tt := e.of(v.Tuple)
		return &Term{Op: "res", S: strconv.Itoa(v.Index), Args: []*Term{tt}}
	case *ssa.Call:
		if t := e.inlineTrivial(&v.Call); t != nil {
			return t
		}
		return e.callTermAt(&v.Call, v)
	case *ssa.MakeMap:
		return &Term{Op: "makemap", S: shortType(v.Type())}
	case *ssa.MakeSlice:
		return &Term{Op: "makeslice", S: shortType(v.Type()), Args: []*Term{e.of(v.Len), e.of(v.Cap)}}
	case *ssa.MakeChan:
		return &Term{Op: "makechan"}
	case *ssa.MakeClosure:
		cf := v.Fn.(*ssa.Function)
		name := shortFn(cf)
		if m := boundMethodOf(cf); m != nil {
			name = "bound:" + shortFn(m)
		}
		var bs []*Term
		for _, b := range v.Bindings {
			bs = append(bs, e.of(b))
		}
		return &Term{Op: "closure", S: name, Args: bs}
	case *ssa.Slice:
		return e.sliceTerm(v)
	case *ssa.Phi:
		return e.phiTerm(v)
	case *ssa.Range:
		return &Term{Op: "range", Args: []*Term{e.of(v.X)}}
	case *ssa.Next:
		return &Term{Op: "next", Args: []*Term{e.of(v.Iter)}}
	case *ssa.Select:
		return T("select", "")
	}
	return T("opaque", fmt.Sprintf("%T", v))
}

// inlineTrivial: a call of an in-package function that is one straight-line
// block computing one value of a basic type (integer, bool, string) from its
// parameters without stores or allocation is the same as that expression on
// the arguments (loads and calls in it appear as they would if the expression
// were written at the call site); the call disappears from terms and facts.
// Instruction-level analyses (effects, bounds) still see the call itself.
// identityArg: v is a call of an in-package accessor that returns its
// (pointer) parameter seen through type changes; returns that argument.
func (P *Prog) identityArg(v ssa.Value) (ssa.Value, bool) {
	c, ok := v.(*ssa.Call)
	if !ok {
		return nil, false
	}
	h := c.Call.StaticCallee()
	if h == nil || c.Call.IsInvoke() || !P.inPkg(h) {
		return nil, false
	}
	if _, isPtr := h.Signature.Results().At(0).Type().Underlying().(*types.Pointer); h.Signature.Results().Len() != 1 || !isPtr {
		return nil, false
	}
	ret := P.trivialReturn(h)
	if ret == nil {
		return nil, false
	}
	r := ret.Results[0]
	for {
		ct, ok := r.(*ssa.ChangeType)
		if !ok {
			break
		}
		r = ct.X
	}
	prm, ok := r.(*ssa.Parameter)
	if !ok {
		return nil, false
	}
	i := paramIndex(prm)
	if i < 0 || i >= len(c.Call.Args) {
		return nil, false
	}
	return c.Call.Args[i], true
}

// trivialReturn: h is one straight-line block computing one value of a basic
// type without stores or allocation; returns its Return.
func (P *Prog) trivialReturn(h *ssa.Function) *ssa.Return {
	if h == nil || !P.inPkg(h) || len(h.Blocks) != 1 || h.Signature.Results().Len() != 1 || len(h.FreeVars) != 0 {
		return nil
	}
	if _, basic := h.Signature.Results().At(0).Type().Underlying().(*types.Basic); !basic {
		// a pointer-typed result is inlined only when it is a parameter seen
		// through type changes (an accessor like `func (m *U) asT() *T`)
		if _, isPtr := h.Signature.Results().At(0).Type().Underlying().(*types.Pointer); !isPtr {
			return nil
		}
		for _, in := range h.Blocks[0].Instrs {
			switch x := in.(type) {
			case *ssa.ChangeType, *ssa.DebugRef:
			case *ssa.Return:
				if len(x.Results) != 1 {
					return nil
				}
				v := x.Results[0]
				for {
					ct, ok := v.(*ssa.ChangeType)
					if !ok {
						break
					}
					v = ct.X
				}
				if _, isParam := v.(*ssa.Parameter); !isParam {
					return nil
				}
				return x
			default:
				return nil
			}
		}
		return nil
	}
	var ret *ssa.Return
	for _, in := range h.Blocks[0].Instrs {
		switch x := in.(type) {
		case *ssa.BinOp, *ssa.Convert, *ssa.ChangeType, *ssa.DebugRef, *ssa.UnOp, *ssa.FieldAddr, *ssa.Field, *ssa.Extract:
		case *ssa.Call:
			if x.Call.StaticCallee() == h {
				return nil
			}
		case *ssa.Return:
			ret = x
		default:
			return nil
		}
	}
	if ret == nil || len(ret.Results) != 1 {
		return nil
	}
	return ret
}

// inlineTrivialTerms: calls of trivial value helpers that appear in a term
// only after substitution (e.g. a devirtualised interface method call) are
// replaced by their expression.
func (P *Prog) inlineTrivialTerms(t *Term) *Term {
	if t == nil || !t.contains(func(u *Term) bool { return u.Op == "call" }) {
		return t
	}
	return t.rewrite(func(u *Term) *Term {
		if u.Op != "call" {
			return nil
		}
		h := P.calleeOfTerm(u)
		ret := P.trivialReturn(h)
		if ret == nil {
			return nil
		}
		m := map[string]*Term{}
		for i, a := range u.Args {
			m[strconv.Itoa(i)] = a
		}
		return P.terms.of(ret.Results[0]).subst(m)
	})
}

func (e *termEngine) inlineTrivial(c *ssa.CallCommon) *Term {
	h := c.StaticCallee()
	if h == nil || c.IsInvoke() || e.inlining[h] {
		return nil
	}
	ret := e.P.trivialReturn(h)
	if ret == nil {
		return nil
	}
	m := map[string]*Term{}
	for i, a := range c.Args {
		m[strconv.Itoa(i)] = e.of(a)
	}
	if e.inlining == nil {
		e.inlining = map[*ssa.Function]bool{}
	}
	e.inlining[h] = true
	defer delete(e.inlining, h)
	return e.P.terms.of(ret.Results[0]).subst(m)
}

// boundMethodOf: for the synthetic wrapper of a bound method value x.M the
// method M (receiver = the wrapper's only free variable).
func boundMethodOf(f *ssa.Function) *ssa.Function {
	if f == nil || !strings.HasPrefix(f.Synthetic, "bound method wrapper") || len(f.FreeVars) != 1 {
		return nil
	}
	var m *ssa.Function
	for _, b := range f.Blocks {
		for _, in := range b.Instrs {
			if c, ok := in.(ssa.CallInstruction); ok {
				if sc := c.Common().StaticCallee(); sc != nil {
					if m != nil {
						return nil
					}
					m = sc
				} else {
					return nil // interface method value
				}
			}
		}
	}
	return m
}

func allocID(a *ssa.Alloc) string {
	c := a.Comment
	if c == "" {
		c = "tmp"
	}
	return shortFn(a.Parent()) + "#" + a.Name() + ":" + c
}

func deref(t types.Type) types.Type {
	if p, ok := t.Underlying().(*types.Pointer); ok {
		return p.Elem()
	}
	return t
}

// sliceTerm: slices of local array literals become arr(...) terms.
func (e *termEngine) sliceTerm(v *ssa.Slice) *Term {
	if a, ok := v.X.(*ssa.Alloc); ok && v.Low == nil && v.High == nil && v.Max == nil {
		if arr, ok := deref(a.Type()).Underlying().(*types.Array); ok {
			n := int(arr.Len())
			// evaluate the array content at the slice instruction
			els := make([]*Term, n)
			okAll := true
			for i := 0; i < n; i++ {
				el := e.loadPath(a, []string{"[" + strconv.Itoa(i) + "]"}, v)
				if el.Op == "dirty" {
					okAll = false
				}
				els[i] = el
			}
			if okAll {
				return &Term{Op: "arr", S: shortType(arr.Elem()), Args: els}
			}
		}
	}
	args := []*Term{e.of(v.X), nil, nil, nil}
	if v.Low != nil {
		args[1] = e.of(v.Low)
	} else {
		args[1] = T("_", "")
	}
	if v.High != nil {
		args[2] = e.of(v.High)
	} else {
		args[2] = T("_", "")
	}
	if v.Max != nil {
		args[3] = e.of(v.Max)
	} else {
		args[3] = T("_", "")
	}
	return normalize(&Term{Op: "slice", Args: args})
}

// phiTerm: gate recognition for if-diamonds/triangles.
func (e *termEngine) phiTerm(v *ssa.Phi) *Term {
	b := v.Block()
	if e.pathPred != nil {
		if p, ok := e.pathPred[b]; ok {
			for i, q := range b.Preds {
				if q == p {
					return e.of(v.Edges[i])
				}
			}
		}
	}
	vals := make([]*Term, len(v.Edges))
	for i, ed := range v.Edges {
		vals[i] = e.of(ed)
	}
	if g := e.gateOf(b, vals); g != nil {
		return g
	}
	// unordered phi
	uniq := map[string]*Term{}
	for _, t := range vals {
		uniq[t.String()] = t
	}
	if len(uniq) == 1 {
		for _, t := range uniq {
			return t
		}
	}
	keys := make([]string, 0, len(uniq))
	for k := range uniq {
		keys = append(keys, k)
	}
	sort.Strings(keys)
	args := make([]*Term, len(keys))
	for i, k := range keys {
		args[i] = uniq[k]
	}
	return &Term{Op: "phi", Args: args}
}

// gateOf: block b has preds with per-pred values vals; if b's immediate
// dominator ends in an If and every pred belongs to exactly one branch with
// a consistent value per branch, return gate(cond, vt, vf).
func (e *termEngine) gateOf(b *ssa.BasicBlock, vals []*Term) *Term {
	allSame := true
	for _, t := range vals[1:] {
		if !t.eq(vals[0]) {
			allSame = false
		}
	}
	if allSame && len(vals) > 0 {
		return vals[0]
	}
	d := b.Idom()
	if d == nil || len(d.Instrs) == 0 {
		return nil
	}
	iff, ok := d.Instrs[len(d.Instrs)-1].(*ssa.If)
	if !ok {
		return nil
	}
	ts, fs := d.Succs[0], d.Succs[1]
	var vt, vf *Term
	for i, p := range b.Preds {
		side := 0
		switch {
		case p == d && ts == b && fs != b:
			side = 1
		case p == d && fs == b && ts != b:
			side = 2
		case p != d && ts != b && ts.Dominates(p):
			side = 1
		case p != d && fs != b && fs.Dominates(p):
			side = 2
		}
		switch side {
		case 1:
			if vt != nil && !vt.eq(vals[i]) {
				return nil
			}
			vt = vals[i]
		case 2:
			if vf != nil && !vf.eq(vals[i]) {
				return nil
			}
			vf = vals[i]
		default:
			return nil
		}
	}
	if vt == nil || vf == nil {
		return nil
	}
	c := e.of(iff.Cond)
	return normGate(c, vt, vf)
}

// normGate canonicalises gate conditions: negations are removed by swapping
// arms, != becomes == with swapped arms.
func normGate(c, vt, vf *Term) *Term {
	for {
		if c.Op == "unop" && c.S == "!" {
			c, vt, vf = c.Args[0], vf, vt
			continue
		}
		if c.Op == "binop" && c.S == "!=" {
			c = &Term{Op: "binop", S: "==", Args: c.Args}
			vt, vf = vf, vt
			continue
		}
		break
	}
	c = normCond(c)
	if vt.eq(vf) {
		return vt
	}
	if c.Op == "const" && c.S == "true" {
		return vt
	}
	if c.Op == "const" && c.S == "false" {
		return vf
	}
	return &Term{Op: "gate", Args: []*Term{c, vt, vf}}
}

// normCond orders the operands of symmetric comparisons and turns a > b into
// b < a so that one predicate has one spelling.
func normCond(c *Term) *Term {
	if c.Op != "binop" {
		return c
	}
	a, b := c.Args[0], c.Args[1]
	switch c.S {
	case "==", "!=":
		// the major type of a CBOR head byte, written with a mask:
		// x & 0xe0 == k<<5 is x >> 5 == k for a byte x (one spelling)
		for i := 0; i < 2; i++ {
			k, m := c.Args[i], c.Args[1-i]
			kn, okK := smallConst(k)
			if !okK || kn < 0 || kn > 224 || kn&31 != 0 || m.Op != "binop" || m.S != "&" || len(m.Args) != 2 {
				continue
			}
			for j := 0; j < 2; j++ {
				if mask, ok := smallConst(m.Args[j]); ok && mask == 224 && m.Args[1-j].Op == "load" && m.Args[1-j].Args[0].Op == "index" {
					a = T("const", strconv.FormatInt(kn>>5, 10))
					b = &Term{Op: "binop", S: ">>", Args: []*Term{m.Args[1-j], T("const", "5")}}
				}
			}
		}
		if a.String() > b.String() {
			a, b = b, a
		}
		return &Term{Op: "binop", S: c.S, Args: []*Term{a, b}}
	case ">":
		return &Term{Op: "binop", S: "<", Args: []*Term{b, a}}
	case ">=":
		return &Term{Op: "binop", S: "<=", Args: []*Term{b, a}}
	}
	return c
}

// ---------------------------------------------------------------------------
// Symbolic memory

// addrPath splits an address value into its root and a constant access path.
func (e *termEngine) addrPath(addr ssa.Value) (root ssa.Value, path []string) {
	for {
		switch a := addr.(type) {
		case *ssa.FieldAddr:
			st := deref(a.X.Type()).Underlying().(*types.Struct)
			path = append([]string{st.Field(a.Field).Name()}, path...)
			addr = a.X
			continue
		case *ssa.IndexAddr:
			idx := "[*]"
			if c, ok := a.Index.(*ssa.Const); ok {
				if n, ok := constInt64(c.Value); ok {
					idx = "[" + strconv.FormatInt(n, 10) + "]"
				}
			}
			if n, ok := e.constIdx[a.Index]; ok {
				idx = "[" + strconv.FormatInt(n, 10) + "]"
			}
			path = append([]string{idx}, path...)
			addr = a.X
			continue
		case *ssa.ChangeType:
			addr = a.X
			continue
		case *ssa.Call:
			if x, ok := e.P.identityArg(a); ok {
				addr = x
				continue
			}
		}
		return addr, path
	}
}

// memWrite is one instruction that may write memory.
type memWrite struct {
	instr   ssa.Instruction
	root    ssa.Value // root of the written address (nil for call-effects resolved through terms)
	rootKey string    // identity of the root
	path    []string
	val     ssa.Value // stored value for Store; nil for opaque writes
	opaque  string    // reason when the written value is not a plain store
	order   int
}

type memModel struct {
	fn     *ssa.Function
	writes map[string][]*memWrite // by rootKey
	index  map[ssa.Instruction]int
	memo   map[string]*Term
	busy   map[string]bool
}

func (e *termEngine) rootKey(root ssa.Value) string {
	switch r := root.(type) {
	case *ssa.Alloc:
		return "alloc:" + r.Name()
	case *ssa.Parameter:
		return "param:" + strconv.Itoa(paramIndex(r))
	case *ssa.Global:
		return "global:" + r.Name()
	case *ssa.FreeVar:
		return "freevar:" + r.Name()
	}
	// a pointer obtained from elsewhere: identify by term
	return "val:" + e.of(root).String()
}

func pathOverlap(a, b []string) bool {
	n := len(a)
	if len(b) < n {
		n = len(b)
	}
	for i := 0; i < n; i++ {
		if a[i] != b[i] && a[i] != "[*]" && b[i] != "[*]" {
			return false
		}
	}
	return true
}

func isPrefix(p, q []string) bool { // p prefix of q (exact components)
	if len(p) > len(q) {
		return false
	}
	for i := range p {
		if p[i] != q[i] {
			return false
		}
	}
	return true
}

func (e *termEngine) model(fn *ssa.Function) *memModel {
	if m, ok := e.mem[fn]; ok {
		return m
	}
	m := &memModel{fn: fn, writes: map[string][]*memWrite{}, index: map[ssa.Instruction]int{}, memo: map[string]*Term{}, busy: map[string]bool{}}
	e.mem[fn] = m
	n := 0
	add := func(w *memWrite) {
		w.order = m.index[w.instr]
		m.writes[w.rootKey] = append(m.writes[w.rootKey], w)
	}
	// locals captured by a function literal can be written by any call that
	// may run that literal: a call of a function value, or of a function that
	// receives one
	var captured []*ssa.Alloc
	for _, b := range fn.Blocks {
		for _, in := range b.Instrs {
			if mc, ok := in.(*ssa.MakeClosure); ok {
				if boundMethodOf(mc.Fn.(*ssa.Function)) != nil {
					continue
				}
				for _, bd := range mc.Bindings {
					if a, ok := bd.(*ssa.Alloc); ok {
						captured = append(captured, a)
					}
				}
			}
		}
	}
	mayRunLiteral := func(c *ssa.CallCommon) bool {
		if c.IsInvoke() {
			return false
		}
		if c.StaticCallee() == nil {
			if _, isB := c.Value.(*ssa.Builtin); !isB {
				return true
			}
		}
		for _, a := range c.Args {
			if _, isFn := a.Type().Underlying().(*types.Signature); isFn {
				return true
			}
		}
		return false
	}
	for _, b := range fn.Blocks {
		for _, in := range b.Instrs {
			m.index[in] = n
			n++
			if ci, ok := in.(ssa.CallInstruction); ok && len(captured) > 0 && mayRunLiteral(ci.Common()) {
				if _, isDefer := in.(*ssa.Defer); !isDefer {
					for _, a := range captured {
						add(&memWrite{instr: in, root: a, rootKey: e.rootKey(a), opaque: "captured by a function literal that this call may run"})
					}
				}
			}
			switch in := in.(type) {
			case *ssa.Store:
				if isSelfStore(in) {
					continue // `*p = *p` (named-result spill): no effect
				}
				root, path := e.addrPath(in.Addr)
				add(&memWrite{instr: in, root: root, rootKey: e.rootKey(root), path: path, val: in.Val})
			case *ssa.MapUpdate:
				// the map object is identified by the value; element writes do
				// not change what a *slot* holds, so they are not memWrites of
				// any slot. They matter to effects (E4), not to forwarding.
			case ssa.CallInstruction:
				for _, cw := range e.callWrites(in) {
					cw.instr = in
					add(cw)
				}
			}
		}
	}
	return m
}

// isSelfStore: the stored value is a load of the same address earlier in the
// same block with no memory effect in between.
func isSelfStore(st *ssa.Store) bool {
	ld, ok := st.Val.(*ssa.UnOp)
	if !ok || ld.Op != token.MUL || ld.X != st.Addr || ld.Block() != st.Block() {
		return false
	}
	seen := false
	for _, in := range st.Block().Instrs {
		if in == ssa.Instruction(ld) {
			seen = true
			continue
		}
		if in == ssa.Instruction(st) {
			return seen
		}
		if seen {
			switch in.(type) {
			case *ssa.Store, *ssa.MapUpdate, ssa.CallInstruction:
				return false
			}
		}
	}
	return false
}

// callWrites lists the locations (rooted in this function's values) a call may
// write, from the callee's effect summary / the external contract table.
func (e *termEngine) callWrites(in ssa.CallInstruction) []*memWrite {
	c := in.Common()
	var out []*memWrite
	addArg := func(arg ssa.Value, sub []string, why string) {
		root, path := e.pointerRoot(arg)
		if root == nil {
			return
		}
		out = append(out, &memWrite{root: root, rootKey: e.rootKey(root), path: append(append([]string{}, path...), sub...), opaque: why})
	}
	if c.IsInvoke() {
		switch c.Method.Name() {
		case "Unmarshal":
			if isCBORMode(c.Value.Type()) && len(c.Args) == 2 {
				addArg(c.Args[1], nil, "dec")
			}
		}
		return out
	}
	callee := c.StaticCallee()
	if callee == nil {
		if b, ok := c.Value.(*ssa.Builtin); ok {
			switch b.Name() {
			case "copy":
				addArg(c.Args[0], []string{"[*]"}, "copy")
			}
		}
		return out
	}
	if e.P.inPkg(callee) {
		sum := e.P.effects.summary(callee)
		for _, w := range sum.writes {
			if w.kind != "param" || w.param >= len(c.Args) {
				continue
			}
			addArg(c.Args[w.param], w.path, "call:"+shortFn(callee))
		}
		return out
	}
	if ct, ok := lookupContract(callee); ok {
		for _, i := range ct.writes {
			if i < len(c.Args) {
				addArg(c.Args[i], nil, "ext:"+shortFn(callee))
			}
		}
	}
	return out
}

// pointerRoot finds the root+path of the memory a reference value denotes:
// for pointers the pointee, for interface-wrapped pointers likewise.
func (e *termEngine) pointerRoot(v ssa.Value) (ssa.Value, []string) {
	for {
		switch x := v.(type) {
		case *ssa.MakeInterface:
			v = x.X
			continue
		case *ssa.ChangeType:
			v = x.X
			continue
		case *ssa.ChangeInterface:
			v = x.X
			continue
		case *ssa.Call:
			if a, ok := e.P.identityArg(x); ok {
				v = a
				continue
			}
		case *ssa.Slice:
			// slice of an array pointer / slice: same backing memory
			r, p := e.addrPath(x.X)
			if _, ok := r.(*ssa.Alloc); ok {
				return r, p
			}
			v = x.X
			continue
		}
		break
	}
	switch v.Type().Underlying().(type) {
	case *types.Pointer:
		root, path := e.addrPath(v)
		return root, path
	}
	return nil, nil
}

func isCBORMode(t types.Type) bool {
	s := t.String()
	return s == cborPath+".DecMode" || s == cborPath+".EncMode"
}

// load evaluates *addr at instruction `at`.
func (e *termEngine) load(addr ssa.Value, at ssa.Instruction) *Term {
	root, path := e.addrPath(addr)
	wild := false
	for _, p := range path {
		if p == "[*]" {
			wild = true
		}
	}
	if wild {
		// an element at a computed index: keep the index term when nothing in
		// this function writes the memory below the root (otherwise fall back
		// to the wildcard location, which store forwarding understands)
		m := e.model(at.Parent())
		written := false
		for _, w := range m.writes[e.rootKey(root)] {
			if pathOverlap(w.path, path) {
				written = true
			}
		}
		if !written {
			return &Term{Op: "load", Args: []*Term{e.preciseAddr(addr)}}
		}
	}
	return e.loadPath(root, path, at)
}

// ofAtEdge: the value of v (used in block b) when b is entered over its i-th
// incoming edge: phis of b take that edge's operand and loads in b that no
// instruction of b precedes with a memory effect read the predecessor's state.
func (e *termEngine) ofAtEdge(v ssa.Value, b *ssa.BasicBlock, i int) *Term {
	switch x := v.(type) {
	case *ssa.Phi:
		if x.Block() == b {
			return e.of(x.Edges[i])
		}
	case *ssa.UnOp:
		if x.Op == token.MUL && x.Block() == b {
			for _, in := range b.Instrs {
				if in == ssa.Instruction(x) {
					pred := b.Preds[i]
					return e.load(x.X, pred.Instrs[len(pred.Instrs)-1])
				}
				if st, ok := in.(*ssa.Store); ok && isSelfStore(st) {
					continue
				}
				switch in.(type) {
				case *ssa.Store, *ssa.MapUpdate, ssa.CallInstruction:
					return e.of(v)
				}
			}
		}
	}
	return e.of(v)
}

// preciseAddr: the address term with the actual index terms.
func (e *termEngine) preciseAddr(addr ssa.Value) *Term {
	switch a := addr.(type) {
	case *ssa.FieldAddr:
		st := deref(a.X.Type()).Underlying().(*types.Struct)
		return &Term{Op: "field", S: st.Field(a.Field).Name(), Args: []*Term{e.preciseAddr(a.X)}}
	case *ssa.IndexAddr:
		return &Term{Op: "index", Args: []*Term{e.preciseAddr(a.X), e.of(a.Index)}}
	case *ssa.ChangeType:
		return e.preciseAddr(a.X)
	}
	return e.of(addr)
}

func (e *termEngine) symbolicLoc(root ssa.Value, path []string) *Term {
	t := e.of(root)
	for _, p := range path {
		if strings.HasPrefix(p, "[") {
			t = &Term{Op: "index", Args: []*Term{t, T("const", strings.Trim(p, "[]"))}}
		} else {
			t = &Term{Op: "field", S: p, Args: []*Term{t}}
		}
	}
	return t
}

func (e *termEngine) loadPath(root ssa.Value, path []string, at ssa.Instruction) *Term {
	fn := at.Parent()
	m := e.model(fn)
	rk := e.rootKey(root)
	var ws []*memWrite
	for _, w := range m.writes[rk] {
		if pathOverlap(w.path, path) {
			ws = append(ws, w)
		}
	}
	initial := func() *Term {
		if a, ok := root.(*ssa.Alloc); ok {
			_ = a
			return T("zero", "")
		}
		return &Term{Op: "load", Args: []*Term{e.symbolicLoc(root, path)}}
	}
	if a, ok := root.(*ssa.Alloc); ok && fn.Recover != nil && (at.Block() == fn.Recover || fn.Recover.Dominates(at.Block())) {
		return e.recoverValue(fn, a, path)
	}
	if len(ws) == 0 {
		return initial()
	}
	key := rk + "|" + strings.Join(path, "/")
	st := &memState{e: e, m: m, root: root, path: path, ws: ws, initial: initial, key: key, memo: map[*ssa.BasicBlock]*Term{}, busy: map[*ssa.BasicBlock]bool{}}
	return st.before(at)
}

// recoverValue: what a local holds when the function resumes in its recover
// block (after a panic somewhere in the body and the deferred calls): the
// value every recovering path of a deferred closure stores into it; zero when
// nothing ever writes it; otherwise unknown.
func (e *termEngine) recoverValue(fn *ssa.Function, a *ssa.Alloc, path []string) *Term {
	unknown := T("dirty", "value at the time of the panic")
	captured := false
	uniq := map[string]*Term{}
	for _, b := range fn.Blocks {
		for _, in := range b.Instrs {
			d, ok := in.(*ssa.Defer)
			if !ok {
				continue
			}
			mc, ok := d.Call.Value.(*ssa.MakeClosure)
			if !ok {
				for _, arg := range d.Call.Args {
					if r, _ := e.pointerRoot(arg); r == ssa.Value(a) {
						return unknown
					}
				}
				continue
			}
			C := mc.Fn.(*ssa.Function)
			for k, bnd := range mc.Bindings {
				if bnd != ssa.Value(a) {
					continue
				}
				captured = true
				fv := C.FreeVars[k]
				for _, p := range e.P.allPaths(C) {
					if !p.feasible() {
						continue
					}
					notRecovered := false
					for _, c := range p.conds {
						if c.Val && c.Pred.Op == "binop" && c.Pred.S == "==" && c.Pred.contains(func(u *Term) bool { return u.Op == "recover" }) {
							notRecovered = true
						}
					}
					if notRecovered {
						continue
					}
					v := p.eng.loadPath(fv, path, p.ret)
					if v.contains(func(u *Term) bool { return u.Op == "freevar" && u.S == fv.Name() }) {
						return unknown // some recovering path leaves the variable as it was
					}
					uniq[v.String()] = v
				}
			}
		}
	}
	if captured {
		if len(uniq) == 1 {
			for _, v := range uniq {
				return v
			}
		}
		return unknown
	}
	m := e.model(fn)
	for _, w := range m.writes[e.rootKey(a)] {
		if pathOverlap(w.path, path) {
			return unknown
		}
	}
	return T("zero", "")
}

type memState struct {
	e       *termEngine
	m       *memModel
	root    ssa.Value
	path    []string
	ws      []*memWrite
	initial func() *Term
	key     string
	memo    map[*ssa.BasicBlock]*Term
	busy    map[*ssa.BasicBlock]bool
}

func (s *memState) apply(cur *Term, w *memWrite) *Term {
	if w.val != nil {
		val := s.e.of(w.val)
		if isPrefix(w.path, s.path) {
			return projectPath(val, s.path[len(w.path):])
		}
		if isPrefix(s.path, w.path) {
			return updatePath(cur, w.path[len(s.path):], val)
		}
		// wildcard overlap: the store may or may not hit the location read;
		// when the written path covers the read one up to index wildcards the
		// value is the old one or the stored one
		if len(w.path) <= len(s.path) && pathOverlap(w.path, s.path) {
			nv := projectPath(val, s.path[len(w.path):])
			if cur.eq(nv) {
				return cur
			}
			return &Term{Op: "phi", Args: []*Term{cur, nv}}
		}
		return T("dirty", "store with non-constant index at "+s.e.P.instrPos(w.instr))
	}
	// opaque write by a call: mod(call, ptr) is "the value at ptr after call"
	ct := T("opaque", "")
	if ci, ok := w.instr.(ssa.CallInstruction); ok {
		ct = s.e.callTerm(ci.Common())
	}
	// canonical form: the value of the whole root object after the call,
	// projected to the path written (independent of the granularity at which
	// the callee's summary lists its writes)
	hasWild := false
	for _, c := range w.path {
		if c == "[*]" {
			hasWild = true
		}
	}
	m := &Term{Op: "mod", Args: []*Term{ct, s.e.symbolicLoc(s.root, w.path)}}
	if !hasWild {
		m = projectPath(&Term{Op: "mod", Args: []*Term{ct, s.e.symbolicLoc(s.root, nil)}}, w.path)
	}
	if isPrefix(w.path, s.path) {
		return projectPath(m, s.path[len(w.path):])
	}
	if isPrefix(s.path, w.path) {
		return updatePath(cur, w.path[len(s.path):], m)
	}
	return T("dirty", "call writes with non-constant index at "+s.e.P.instrPos(w.instr))
}

// before: value of the location just before instruction at.
func (s *memState) before(at ssa.Instruction) *Term {
	b := at.Block()
	cur := s.entry(b)
	idx := s.m.index[at]
	for _, w := range s.ws {
		if w.instr.Block() == b && w.order < idx {
			cur = s.apply(cur, w)
		}
	}
	return cur
}

func (s *memState) exit(b *ssa.BasicBlock) *Term {
	cur := s.entry(b)
	for _, w := range s.ws {
		if w.instr.Block() == b {
			cur = s.apply(cur, w)
		}
	}
	return cur
}

func (s *memState) entry(b *ssa.BasicBlock) *Term {
	if t, ok := s.memo[b]; ok {
		return t
	}
	if s.busy[b] {
		return T("dirty", "location written in a loop")
	}
	s.busy[b] = true
	defer delete(s.busy, b)
	var t *Term
	if s.e.pathPred != nil {
		if p, ok := s.e.pathPred[b]; ok {
			t = s.exit(p)
			s.memo[b] = t
			return t
		}
	}
	preds := b.Preds
	if len(preds) > 1 {
		// loop header whose loop contains no write to this location: the value
		// is loop-invariant, only the forward edges matter
		var fwd []*ssa.BasicBlock
		for _, p := range preds {
			if !b.Dominates(p) {
				fwd = append(fwd, p)
			}
		}
		if len(fwd) < len(preds) && len(fwd) > 0 {
			loop := naturalLoop(b)
			written := false
			for _, w := range s.ws {
				if loop[w.instr.Block()] {
					written = true
				}
			}
			if !written {
				preds = fwd
			}
		}
	}
	switch {
	case len(preds) == 0:
		t = s.initial()
	case len(preds) == 1:
		t = s.exit(preds[0])
	default:
		vals := make([]*Term, len(preds))
		for i, p := range preds {
			vals[i] = s.exit(p)
		}
		var g *Term
		if len(preds) == len(b.Preds) {
			g = s.e.gateOf(b, vals)
		}
		if g != nil {
			t = g
		} else {
			uniq := map[string]*Term{}
			for _, v := range vals {
				uniq[v.String()] = v
			}
			keys := make([]string, 0, len(uniq))
			for k := range uniq {
				keys = append(keys, k)
			}
			sort.Strings(keys)
			args := make([]*Term, len(keys))
			for i, k := range keys {
				args[i] = uniq[k]
			}
			t = &Term{Op: "phi", Args: args}
		}
	}
	if !t.contains(func(u *Term) bool { return u.Op == "dirty" && strings.Contains(u.S, "loop") }) {
		s.memo[b] = t
	}
	return t
}

// ---------------------------------------------------------------------------
// Return terms and inlining

type retInfo struct {
	instr   *ssa.Return
	results []*Term
}

func (e *termEngine) returns(fn *ssa.Function) []retInfo {
	var out []retInfo
	for _, b := range fn.Blocks {
		if len(b.Instrs) == 0 {
			continue
		}
		r, ok := b.Instrs[len(b.Instrs)-1].(*ssa.Return)
		if !ok {
			continue
		}
		ri := retInfo{instr: r}
		for _, res := range r.Results {
			ri.results = append(ri.results, e.of(res))
		}
		out = append(out, ri)
	}
	return out
}

// errIndex returns the index of the error result of fn, or -1.
func errIndex(fn *ssa.Function) int {
	res := fn.Signature.Results()
	for i := res.Len() - 1; i >= 0; i-- {
		if types.Identical(res.At(i).Type(), types.Universe.Lookup("error").Type()) {
			return i
		}
	}
	return -1
}

// expand inlines calls to in-package functions with static callees: a
// res<i>(call<f>(args)) (or call<f> for single results) is replaced by f's
// success-return term with parameters substituted. Depth-bounded.
func (e *termEngine) expand(t *Term, depth int) *Term {
	return e.P.foldGlobals(e.expandRaw(t, depth))
}

func (e *termEngine) expandRaw(t *Term, depth int) *Term {
	if depth <= 0 {
		return t
	}
	return t.rewrite(func(u *Term) *Term {
		var call *Term
		idx := 0
		switch {
		case u.Op == "res" && len(u.Args) == 1 && u.Args[0].Op == "call":
			call = u.Args[0]
			idx, _ = strconv.Atoi(u.S)
		case u.Op == "call":
			call = u
		default:
			return nil
		}
		fn := e.P.byName[unshortFn(call.S)]
		if fn == nil || !e.P.inPkg(fn) {
			return nil
		}
		if e.P.expandKeep != nil && e.P.expandKeep(fn) {
			return nil
		}
		if u.Op == "call" && fn.Signature.Results().Len() != 1 {
			return nil
		}
		rt := e.successResult(fn, idx)
		if rt == nil {
			return nil
		}
		m := map[string]*Term{}
		for i, a := range call.Args {
			m[strconv.Itoa(i)] = a
		}
		selfCall := func(x *Term) bool { return x.Op == "call" && x.S == call.S }
		// recursive alternatives (e.g. pointer arm re-dispatching to the
		// value arm) are covered by the non-recursive ones
		var dropSelf func(t *Term) *Term
		dropSelf = func(t *Term) *Term {
			switch t.Op {
			case "alt":
				var keep []*Term
				for _, a := range t.Args {
					if !a.contains(selfCall) {
						keep = append(keep, a)
					}
				}
				if len(keep) == 1 {
					return keep[0]
				} else if len(keep) > 1 {
					return &Term{Op: "alt", Args: keep}
				}
			case "gate":
				a, b := t.Args[1], t.Args[2]
				ra, rb := a.contains(selfCall), b.contains(selfCall)
				pure := func(x *Term) bool {
					if x.Op == "res" && len(x.Args) == 1 {
						x = x.Args[0]
					}
					return selfCall(x)
				}
				switch {
				case ra && pure(a):
					return dropSelf(b)
				case rb && pure(b):
					return dropSelf(a)
				case ra || rb:
					return &Term{Op: "gate", Args: []*Term{t.Args[0], dropSelf(a), dropSelf(b)}}
				}
			}
			return t
		}
		rt = dropSelf(rt)
		r := rt.subst(m)
		if r.contains(selfCall) {
			return &Term{Op: "rec", S: call.S}
		}
		return e.expandRaw(r, depth-1)
	})
}

func unshortFn(s string) string {
	// inverse of shortFn for package functions
	if strings.HasPrefix(s, "(*") {
		return "(*" + cosePath + "." + s[2:]
	}
	if strings.HasPrefix(s, "(") {
		return "(" + cosePath + "." + s[1:]
	}
	return cosePath + "." + s
}

// successResult gives the term of result idx over the success exits of fn
// (alt(...) when they differ). For functions without an error result every
// return is a success exit.
func (e *termEngine) successResult(fn *ssa.Function, idx int) *Term {
	uniq := map[string]*Term{}
	fr := e.P.factsOf(fn)
	if fr.busy {
		for _, r := range e.returns(fn) {
			if idx < len(r.results) {
				uniq[r.results[idx].String()] = r.results[idx]
			}
		}
	} else {
		for _, x := range fr.exits {
			if x.kind == exitFailure {
				continue
			}
			if idx < len(x.results) {
				uniq[x.results[idx].String()] = x.results[idx]
			}
		}
	}
	if len(uniq) == 0 {
		return nil
	}
	keys := make([]string, 0, len(uniq))
	for k := range uniq {
		keys = append(keys, k)
	}
	sort.Strings(keys)
	if len(keys) == 1 {
		return uniq[keys[0]]
	}
	if g := e.gatedResult(fn, idx); g != nil {
		return g
	}
	args := make([]*Term, len(keys))
	for i, k := range keys {
		args[i] = uniq[k]
	}
	return &Term{Op: "alt", Args: args}
}

// gatedResult: the success result of a loop-free function as the tree of its
// branch conditions: gate(cond, value on the true side, value on the false
// side), nested; a side with no success exit disappears (with its
// condition). This is the term an inline if / else chain produces.
func (e *termEngine) gatedResult(fn *ssa.Function, idx int) *Term {
	fr := e.P.factsOf(fn)
	if fr.busy || len(findLoops(fn)) > 0 || fn.Recover != nil {
		return nil
	}
	byRet := map[*ssa.Return]*exitInfo{}
	for _, x := range fr.exits {
		if x.pred != nil {
			return nil
		}
		byRet[x.ret] = x
	}
	memo := map[*ssa.BasicBlock]*Term{}
	none := &Term{Op: "none"}
	bad := false
	var tree func(b *ssa.BasicBlock, depth int) *Term
	tree = func(b *ssa.BasicBlock, depth int) *Term {
		if t, ok := memo[b]; ok {
			return t
		}
		if depth > 200 || len(b.Instrs) == 0 {
			bad = true
			return none
		}
		var t *Term
		switch last := b.Instrs[len(b.Instrs)-1].(type) {
		case *ssa.Return:
			x := byRet[last]
			if x == nil || x.kind == exitFailure || idx >= len(x.results) {
				t = none
			} else {
				t = x.results[idx]
			}
		case *ssa.If:
			a, c := tree(b.Succs[0], depth+1), tree(b.Succs[1], depth+1)
			switch {
			case a == none:
				t = c
			case c == none:
				t = a
			case a.eq(c):
				t = a
			default:
				t = normGate(e.of(last.Cond), a, c)
			}
		case *ssa.Jump:
			t = tree(b.Succs[0], depth+1)
		default:
			t = none // panic etc.
		}
		memo[b] = t
		return t
	}
	t := tree(fn.Blocks[0], 0)
	if bad || t == none {
		return nil
	}
	return t
}

// isDelegatedErr: the error operand is the (extracted) result of a call, i.e.
// the pair is handed through from a callee.
func isDelegatedErr(t *Term) bool {
	if t.Op == "res" && len(t.Args) == 1 && t.Args[0].Op == "call" {
		return true
	}
	return t.Op == "call"
}

// expandOuter inlines only the outermost call of t (an in-package function
// with one success result), leaving the arguments as they are.
func (P *Prog) expandOuter(t *Term) *Term {
	call, idx := t, 0
	if t.Op == "res" && len(t.Args) == 1 && t.Args[0].Op == "call" {
		call = t.Args[0]
		idx, _ = strconv.Atoi(t.S)
	}
	if call.Op != "call" {
		return t
	}
	fn := P.calleeOfTerm(call)
	if fn == nil {
		return t
	}
	rt := P.terms.successResult(fn, idx)
	if rt == nil || rt.Op == "alt" {
		return t
	}
	m := map[string]*Term{}
	for i, a := range call.Args {
		m[strconv.Itoa(i)] = a
	}
	return rt.subst(m)
}

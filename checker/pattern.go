package main

// Term patterns: the printed syntax of terms (Term.String) with %name
// variables, parsed into Terms and unified against facts and values. Rules
// state required facts as patterns instead of spelling whole terms.
//
//   %X   matches any term and binds X (same X must match equal terms)
//   %_   matches any term
//   a leading '!' on a fact pattern asks for the negative polarity
//
// Symmetric comparisons (==) match in either operand order.

import (
	"fmt"
	"sort"
	"strings"
)

type bindings map[string]*Term

func (b bindings) clone() bindings {
	n := bindings{}
	for k, v := range b {
		n[k] = v
	}
	return n
}

type patParser struct {
	s string
	i int
}

func mustPat(s string) *Term {
	p := &patParser{s: s}
	t := p.term()
	p.ws()
	if p.i != len(p.s) {
		panic(fmt.Sprintf("pattern %q: trailing input at %d", s, p.i))
	}
	return t
}

func (p *patParser) ws() {
	for p.i < len(p.s) && (p.s[p.i] == ' ' || p.s[p.i] == '\n' || p.s[p.i] == '\t') {
		p.i++
	}
}

func isIdent(c byte) bool {
	return c == '_' || c >= 'a' && c <= 'z' || c >= 'A' && c <= 'Z' || c >= '0' && c <= '9'
}

func (p *patParser) ident() string {
	st := p.i
	for p.i < len(p.s) && isIdent(p.s[p.i]) {
		p.i++
	}
	return p.s[st:p.i]
}

func (p *patParser) term() *Term {
	p.ws()
	if p.i < len(p.s) && p.s[p.i] == '*' {
		p.i++
		inner := p.term()
		return &Term{Op: "load", Args: []*Term{inner}}
	}
	t := p.primary()
	for p.i < len(p.s) && p.s[p.i] == '.' {
		p.i++
		f := p.ident()
		t = &Term{Op: "field", S: f, Args: []*Term{t}}
	}
	return t
}

func (p *patParser) primary() *Term {
	p.ws()
	if p.i >= len(p.s) {
		panic("pattern: unexpected end in " + p.s)
	}
	c := p.s[p.i]
	switch {
	case c == '$':
		p.i++
		return T("param", p.ident())
	case c == '@':
		p.i++
		return T("global", p.ident())
	case c == '%':
		p.i++
		return T("var", p.ident())
	case c == '"':
		st := p.i
		p.i++
		for p.i < len(p.s) && p.s[p.i] != '"' {
			if p.s[p.i] == '\\' {
				p.i++
			}
			p.i++
		}
		p.i++
		return T("const", p.s[st:p.i])
	case c == '-' || c >= '0' && c <= '9':
		st := p.i
		p.i++
		for p.i < len(p.s) && p.s[p.i] >= '0' && p.s[p.i] <= '9' {
			p.i++
		}
		return T("const", p.s[st:p.i])
	}
	id := p.ident()
	if id == "" {
		panic(fmt.Sprintf("pattern %q: unexpected %q at %d", p.s, c, p.i))
	}
	switch id {
	case "nil":
		if p.i >= len(p.s) || p.s[p.i] != '(' {
			return T("nil", "")
		}
	case "true", "false":
		return T("const", id)
	case "_":
		if p.i < len(p.s) && p.s[p.i] == '(' {
			p.i += 2
		}
		return T("_", "")
	}
	t := &Term{Op: id}
	if p.i < len(p.s) && p.s[p.i] == '<' {
		// S runs up to the first ">(" (or ">" at end)
		rest := p.s[p.i+1:]
		j := strings.Index(rest, ">(")
		if j < 0 {
			panic("pattern: unterminated <...> in " + p.s)
		}
		t.S = rest[:j]
		p.i += 1 + j + 1
	}
	if p.i < len(p.s) && p.s[p.i] == '(' {
		p.i++
		p.ws()
		for p.i < len(p.s) && p.s[p.i] != ')' {
			t.Args = append(t.Args, p.term())
			p.ws()
			if p.i < len(p.s) && p.s[p.i] == ',' {
				p.i++
			}
			p.ws()
		}
		p.i++
	}
	return t
}

// unify matches pattern pt against term t extending b (copy on success).
func unify(pt, t *Term, b bindings) (bindings, bool) {
	if pt.Op == "var" {
		if pt.S == "_" {
			return b, true
		}
		if cur, ok := b[pt.S]; ok {
			if cur.eq(t) {
				return b, true
			}
			return nil, false
		}
		nb := b.clone()
		nb[pt.S] = t
		return nb, true
	}
	if t == nil {
		return nil, false
	}
	if pt.Op == "choice" && (t.Op == "choice" || t.Op == "gate") {
		// a pattern that does not care which alternative is taken when also
		// matches alternatives that carry their condition (gate)
		return unifyChoice(pt.Args, flattenAlts(t), b)
	}
	if pt.Op != t.Op || len(pt.Args) != len(t.Args) {
		return nil, false
	}
	if pt.S != t.S && pt.S != "%" {
		return nil, false
	}
	try := func(order []int) (bindings, bool) {
		cur := b
		for i, pi := range order {
			nb, ok := unify(pt.Args[pi], t.Args[i], cur)
			if !ok {
				return nil, false
			}
			cur = nb
		}
		return cur, true
	}
	id := make([]int, len(pt.Args))
	for i := range id {
		id[i] = i
	}
	if nb, ok := try(id); ok {
		return nb, true
	}
	if pt.Op == "binop" && pt.S == "==" && len(pt.Args) == 2 {
		return try([]int{1, 0})
	}
	return nil, false
}

// factPat is a parsed fact pattern.
type factPat struct {
	pred *Term
	val  bool
	src  string
}

func fp(s string) factPat {
	src := s
	val := true
	s = strings.TrimSpace(s)
	if strings.HasPrefix(s, "!") {
		val = false
		s = s[1:]
	}
	return factPat{pred: mustPat(s), val: val, src: src}
}

// matchAll finds the binding sets under which every pattern is matched by
// some fact of fs (backtracking; fact sets are small).
func (fs factSet) matchAll(pats []factPat, b bindings) []bindings {
	if b == nil {
		b = bindings{}
	}
	if len(pats) == 0 {
		return []bindings{b}
	}
	var out []bindings
	keys := fs.sorted()
	for _, k := range keys {
		f := fs[k]
		if f.Val != pats[0].val {
			continue
		}
		nb, ok := unify(pats[0].pred, f.Pred, b)
		if !ok {
			continue
		}
		out = append(out, fs.matchAll(pats[1:], nb)...)
		if len(out) > 64 {
			break
		}
	}
	return out
}

// firstMissing reports the first pattern (in order) that cannot be matched
// consistently with the earlier ones; "" when all match.
func (fs factSet) firstMissing(pats []factPat, b bindings) (string, bindings) {
	for n := 1; n <= len(pats); n++ {
		ms := fs.matchAll(pats[:n], b)
		if len(ms) == 0 {
			return pats[n-1].src, nil
		}
		if n == len(pats) {
			return "", ms[0]
		}
	}
	return "", b
}

// okp builds the pattern "call returned a nil error".
func okp(call string) string { return "binop<==>(" + call + ", nil)" }

// subst instantiates the variables of a pattern.
func instantiate(pt *Term, b bindings) *Term {
	return pt.rewrite(func(u *Term) *Term {
		if u.Op == "var" {
			if v, ok := b[u.S]; ok {
				return v
			}
		}
		return nil
	})
}

// unifyChoice matches the alternatives of a choice as sets (every pattern
// alternative matches a distinct term alternative and none is left over).
func unifyChoice(ps, ts []*Term, b bindings) (bindings, bool) {
	if len(ps) != len(ts) {
		return nil, false
	}
	used := make([]bool, len(ts))
	var rec func(i int, cur bindings) (bindings, bool)
	rec = func(i int, cur bindings) (bindings, bool) {
		if i == len(ps) {
			return cur, true
		}
		for j, t := range ts {
			if used[j] {
				continue
			}
			if nb, ok := unify(ps[i], t, cur); ok {
				used[j] = true
				if res, ok := rec(i+1, nb); ok {
					return res, true
				}
				used[j] = false
			}
		}
		return nil, false
	}
	return rec(0, b)
}

// canon rewrites alt/phi (unordered alternatives introduced by function
// boundaries and joins) into one flattened, de-duplicated choice(...) so
// that inlining or extracting a helper does not change the shape compared.
func canon(t *Term) *Term {
	return t.rewrite(func(u *Term) *Term {
		if u.Op != "alt" && u.Op != "phi" && u.Op != "choice" {
			return nil
		}
		uniq := map[string]*Term{}
		var add func(x *Term)
		add = func(x *Term) {
			if x.Op == "choice" || x.Op == "alt" || x.Op == "phi" {
				for _, a := range x.Args {
					add(a)
				}
				return
			}
			uniq[x.String()] = x
		}
		add(u)
		keys := make([]string, 0, len(uniq))
		for k := range uniq {
			keys = append(keys, k)
		}
		sort.Strings(keys)
		if len(keys) == 1 {
			return uniq[keys[0]]
		}
		args := make([]*Term, len(keys))
		for i, k := range keys {
			args[i] = uniq[k]
		}
		return &Term{Op: "choice", Args: args}
	})
}

// flattenAlts lists the alternatives of a choice / gate term (nested ones
// flattened, duplicates removed), dropping gate conditions.
func flattenAlts(t *Term) []*Term {
	uniq := map[string]*Term{}
	var add func(x *Term)
	add = func(x *Term) {
		switch x.Op {
		case "choice", "alt", "phi":
			for _, a := range x.Args {
				add(a)
			}
		case "gate":
			add(x.Args[1])
			add(x.Args[2])
		default:
			uniq[x.String()] = x
		}
	}
	add(t)
	keys := make([]string, 0, len(uniq))
	for k := range uniq {
		keys = append(keys, k)
	}
	sort.Strings(keys)
	out := make([]*Term, len(keys))
	for i, k := range keys {
		out[i] = uniq[k]
	}
	return out
}

package main

// Role discovery (DESIGN.md section 1): anchors are found by type and by
// exported API, never by the name of an unexported symbol.

import (
	"go/types"
	"sort"
	"strings"

	"golang.org/x/tools/go/ssa"
)

// keySite is one invocation of Signer.Sign or Verifier.Verify.
type keySite struct {
	fn      *ssa.Function
	call    ssa.CallInstruction
	sign    bool
	recv    ssa.Value // the signer/verifier value
	content ssa.Value
	sig     ssa.Value // verify: signature argument
	rand    ssa.Value // sign: rand argument
}

func (P *Prog) iface(name string) *types.Interface {
	n := P.mustNamed(name)
	it, ok := n.Underlying().(*types.Interface)
	if !ok {
		undecidedf("anchor %s is not an interface", name)
	}
	return it
}

func isNamed(t types.Type, pkg, name string) bool {
	n, ok := t.(*types.Named)
	if !ok {
		return false
	}
	return n.Obj().Name() == name && n.Obj().Pkg() != nil && n.Obj().Pkg().Path() == pkg
}

// keySites lists every invoke of Signer.Sign / Verifier.Verify in the package.
func (P *Prog) keySites() []*keySite {
	var out []*keySite
	for _, fn := range P.Funcs {
		for _, b := range fn.Blocks {
			for _, in := range b.Instrs {
				ci, ok := in.(ssa.CallInstruction)
				if !ok {
					continue
				}
				c := ci.Common()
				if !c.IsInvoke() {
					continue
				}
				switch {
				case isNamed(c.Value.Type(), cosePath, "Signer") && c.Method.Name() == "Sign":
					out = append(out, &keySite{fn: fn, call: ci, sign: true, recv: c.Value, rand: c.Args[0], content: c.Args[1]})
				case isNamed(c.Value.Type(), cosePath, "Verifier") && c.Method.Name() == "Verify":
					out = append(out, &keySite{fn: fn, call: ci, sign: false, recv: c.Value, content: c.Args[0], sig: c.Args[1]})
				}
			}
		}
	}
	sort.Slice(out, func(i, j int) bool { return shortFn(out[i].fn) < shortFn(out[j].fn) })
	return out
}

// callsIn lists the call instructions of fn (optionally filtered).
func callsIn(fn *ssa.Function, pred func(ssa.CallInstruction) bool) []ssa.CallInstruction {
	var out []ssa.CallInstruction
	for _, b := range fn.Blocks {
		for _, in := range b.Instrs {
			if ci, ok := in.(ssa.CallInstruction); ok && (pred == nil || pred(ci)) {
				out = append(out, ci)
			}
		}
	}
	return out
}

func staticCallee(ci ssa.CallInstruction) *ssa.Function {
	return ci.Common().StaticCallee()
}

// implementors returns the in-package named types (as pointer or value
// receivers) implementing the interface, with the method's function.
func (P *Prog) implementors(it *types.Interface, method string) []*ssa.Function {
	var out []*ssa.Function
	for _, m := range P.SPkg.Members {
		tn, ok := m.(*ssa.Type)
		if !ok {
			continue
		}
		if _, isIface := tn.Type().Underlying().(*types.Interface); isIface {
			continue
		}
		for _, T := range []types.Type{tn.Type(), types.NewPointer(tn.Type())} {
			if !types.Implements(T, it) {
				continue
			}
			sel := P.SSA.MethodSets.MethodSet(T).Lookup(P.Pkg.Types, method)
			if sel == nil {
				continue
			}
			fn := P.SSA.MethodValue(sel)
			if fn != nil && fn.Synthetic == "" && fn.Blocks != nil {
				out = append(out, fn)
			}
			break
		}
	}
	sort.Slice(out, func(i, j int) bool { return out[i].String() < out[j].String() })
	return out
}

// methodsNamed returns all in-package methods with the given name and
// signature string (e.g. "func([]byte) error").
func (P *Prog) methodsNamed(name string, sig string) []*ssa.Function {
	var out []*ssa.Function
	for _, fn := range P.Funcs {
		if fn.Signature.Recv() == nil || fn.Name() != name {
			continue
		}
		s := types.TypeString(types.NewSignatureType(nil, nil, nil, fn.Signature.Params(), fn.Signature.Results(), fn.Signature.Variadic()), func(p *types.Package) string { return p.Name() })
		if sig == "" || s == sig {
			out = append(out, fn)
		}
	}
	return out
}

// structure types: exported structs with a Headers field of type Headers and a
// Signature []byte or Signatures field.
func (P *Prog) structureTypes() []*types.Named {
	var out []*types.Named
	hdr := P.mustNamed("Headers")
	for _, name := range P.Pkg.Types.Scope().Names() {
		tn, ok := P.Pkg.Types.Scope().Lookup(name).(*types.TypeName)
		if !ok || !tn.Exported() {
			continue
		}
		n, ok := tn.Type().(*types.Named)
		if !ok {
			continue
		}
		st, ok := n.Underlying().(*types.Struct)
		if !ok {
			continue
		}
		hasH, hasS := false, false
		for i := 0; i < st.NumFields(); i++ {
			f := st.Field(i)
			if f.Name() == "Headers" && types.Identical(f.Type(), hdr) {
				hasH = true
			}
			if f.Name() == "Signature" || f.Name() == "Signatures" {
				hasS = true
			}
		}
		if hasH && hasS {
			out = append(out, n)
		}
	}
	return out
}

// wireStructs: unexported structs with a `cbor:",toarray"` blank field.
func (P *Prog) wireStructs() []*types.Named {
	var out []*types.Named
	for _, name := range P.Pkg.Types.Scope().Names() {
		tn, ok := P.Pkg.Types.Scope().Lookup(name).(*types.TypeName)
		if !ok {
			continue
		}
		n, ok := tn.Type().(*types.Named)
		if !ok {
			continue
		}
		st, ok := n.Underlying().(*types.Struct)
		if !ok {
			continue
		}
		for i := 0; i < st.NumFields(); i++ {
			if st.Field(i).Name() == "_" && strings.Contains(st.Tag(i), "toarray") {
				out = append(out, n)
			}
		}
	}
	return out
}

func wireFieldCount(n *types.Named) int {
	st := n.Underlying().(*types.Struct)
	c := 0
	for i := 0; i < st.NumFields(); i++ {
		if st.Field(i).Name() != "_" {
			c++
		}
	}
	return c
}

// methodOf returns the method fn of *T or T by name.
func (P *Prog) methodOf(n *types.Named, name string) *ssa.Function {
	for _, T := range []types.Type{types.NewPointer(n), n} {
		sel := P.SSA.MethodSets.MethodSet(T).Lookup(P.Pkg.Types, name)
		if sel != nil {
			fn := P.SSA.MethodValue(sel)
			if fn != nil && fn.Blocks != nil && fn.Synthetic == "" {
				return fn
			}
		}
	}
	return nil
}

// reachable computes the in-package functions reachable from roots through
// static calls, closures, and the hand-added CBOR dispatch edges
// (mode.Unmarshal(data, &x) -> UnmarshalCBOR methods in the static type of x;
// mode.Marshal(v) -> MarshalCBOR methods in the static/dynamic type of v), plus
// in-package implementations of in-package interfaces on invoke.
func (P *Prog) reachable(roots []*ssa.Function) map[*ssa.Function]bool {
	seen := map[*ssa.Function]bool{}
	var work []*ssa.Function
	push := func(f *ssa.Function) {
		if f != nil && P.inPkg(f) && !seen[f] {
			seen[f] = true
			work = append(work, f)
		}
	}
	for _, r := range roots {
		push(r)
	}
	for len(work) > 0 {
		fn := work[0]
		work = work[1:]
		for _, callee := range P.calleesOf(fn) {
			push(callee)
		}
	}
	return seen
}

// calleesOf: one step of the call graph E1 (see reachable).
func (P *Prog) calleesOf(fn *ssa.Function) []*ssa.Function {
	var out []*ssa.Function
	for _, a := range fn.AnonFuncs {
		out = append(out, a)
	}
	for _, b := range fn.Blocks {
		for _, in := range b.Instrs {
			ci, ok := in.(ssa.CallInstruction)
			if !ok {
				continue
			}
			c := ci.Common()
			if f := c.StaticCallee(); f != nil {
				out = append(out, f)
				continue
			}
			if !c.IsInvoke() {
				continue
			}
			switch {
			case isCBORMode(c.Value.Type()) && c.Method.Name() == "Unmarshal" && len(c.Args) == 2:
				out = append(out, P.cborDispatch(c.Args[1], "UnmarshalCBOR")...)
			case isCBORMode(c.Value.Type()) && c.Method.Name() == "Marshal" && len(c.Args) == 1:
				out = append(out, P.cborDispatch(c.Args[0], "MarshalCBOR")...)
			default:
				// in-package interface: all in-package implementations
				if it, ok := c.Value.Type().Underlying().(*types.Interface); ok {
					if n, ok := c.Value.Type().(*types.Named); ok && n.Obj().Pkg() != nil && n.Obj().Pkg().Path() == cosePath {
						out = append(out, P.implementors(it, c.Method.Name())...)
					}
				}
			}
		}
	}
	return out
}

// cborDispatch: methods `name` of in-package types occurring in the static
// type of the (interface-wrapped) value v.
func (P *Prog) cborDispatch(v ssa.Value, name string) []*ssa.Function {
	var ts []types.Type
	var collectVal func(v ssa.Value, depth int)
	collectVal = func(v ssa.Value, depth int) {
		if depth > 6 {
			return
		}
		switch x := v.(type) {
		case *ssa.MakeInterface:
			ts = append(ts, x.X.Type())
			// []any literals: look at the stored elements' dynamic types
			collectVal(x.X, depth+1)
		case *ssa.Slice:
			if a, ok := x.X.(*ssa.Alloc); ok {
				for _, ref := range *a.Referrers() {
					if ia, ok := ref.(*ssa.IndexAddr); ok {
						for _, r2 := range *ia.Referrers() {
							if st, ok := r2.(*ssa.Store); ok {
								collectVal(st.Val, depth+1)
							}
						}
					}
				}
			}
		case *ssa.Phi:
			for _, e := range x.Edges {
				collectVal(e, depth+1)
			}
		case *ssa.Call:
			if b, ok := x.Call.Value.(*ssa.Builtin); ok && b.Name() == "append" {
				for _, a := range x.Call.Args {
					collectVal(a, depth+1)
				}
			}
		default:
			ts = append(ts, v.Type())
		}
	}
	collectVal(v, 0)
	seenT := map[string]bool{}
	var out []*ssa.Function
	var visit func(t types.Type, depth int)
	visit = func(t types.Type, depth int) {
		if t == nil || depth > 8 || seenT[t.String()] {
			return
		}
		seenT[t.String()] = true
		if n, ok := t.(*types.Named); ok && n.Obj().Pkg() != nil && n.Obj().Pkg().Path() == cosePath {
			if fn := P.methodOf(n, name); fn != nil {
				out = append(out, fn)
			}
		}
		switch u := t.Underlying().(type) {
		case *types.Pointer:
			visit(u.Elem(), depth+1)
		case *types.Slice:
			visit(u.Elem(), depth+1)
		case *types.Array:
			visit(u.Elem(), depth+1)
		case *types.Map:
			visit(u.Key(), depth+1)
			visit(u.Elem(), depth+1)
		case *types.Struct:
			for i := 0; i < u.NumFields(); i++ {
				visit(u.Field(i).Type(), depth+1)
			}
		case *types.Interface:
			// `any`-typed destination of a decode: no in-package type results
			// (the library decodes into its own generic types); `any`-typed
			// source of an encode: header maps may hold *Countersignature
			// values, whose MarshalCBOR is then reached.
			if name == "MarshalCBOR" && u.NumMethods() == 0 {
				for _, sn := range []string{"Countersignature", "Algorithm"} {
					if n := P.namedType(sn); n != nil {
						if fn := P.methodOf(n, name); fn != nil {
							out = append(out, fn)
						}
					}
				}
			}
		}
	}
	for _, t := range ts {
		visit(t, 0)
	}
	return out
}

// sccs of the in-package call graph restricted to `within` (Tarjan); returns
// only non-trivial SCCs and self loops.
func (P *Prog) cycles(within map[*ssa.Function]bool) [][]*ssa.Function {
	index := 0
	idx := map[*ssa.Function]int{}
	low := map[*ssa.Function]int{}
	onst := map[*ssa.Function]bool{}
	var stack []*ssa.Function
	var out [][]*ssa.Function
	var fns []*ssa.Function
	for f := range within {
		fns = append(fns, f)
	}
	sort.Slice(fns, func(i, j int) bool { return fns[i].String() < fns[j].String() })
	var strong func(v *ssa.Function)
	strong = func(v *ssa.Function) {
		idx[v] = index
		low[v] = index
		index++
		stack = append(stack, v)
		onst[v] = true
		for _, w := range P.calleesOf(v) {
			if !within[w] {
				continue
			}
			if _, ok := idx[w]; !ok {
				strong(w)
				if low[w] < low[v] {
					low[v] = low[w]
				}
			} else if onst[w] && idx[w] < low[v] {
				low[v] = idx[w]
			}
		}
		if low[v] == idx[v] {
			var comp []*ssa.Function
			for {
				w := stack[len(stack)-1]
				stack = stack[:len(stack)-1]
				onst[w] = false
				comp = append(comp, w)
				if w == v {
					break
				}
			}
			self := false
			if len(comp) == 1 {
				for _, w := range P.calleesOf(v) {
					if w == v {
						self = true
					}
				}
			}
			if len(comp) > 1 || self {
				sort.Slice(comp, func(i, j int) bool { return comp[i].String() < comp[j].String() })
				out = append(out, comp)
			}
		}
	}
	for _, f := range fns {
		if _, ok := idx[f]; !ok {
			strong(f)
		}
	}
	return out
}

package main

// C06 — no input makes a decoder or a follow-up operation panic or hang.
// E6: panic-site audit over everything reachable from the decoding entry
// points and the follow-up operations on decoded values; R06.2: loops and
// call-graph cycles.

import (
	"fmt"
	"go/constant"
	"go/token"
	"go/types"
	"sort"
	"strconv"
	"strings"

	"golang.org/x/tools/go/ssa"
)

func init() {
	register(&propSpec{id: "C06", title: "panic-site audit and termination of decoders and follow-up operations", run: runC06, mutants: mutC06, design: "DESIGN.md section 3, C06"})
}

// decoderEntryPoints: every UnmarshalCBOR([]byte) error method, exported
// functions taking []byte and a Verifier (hash-envelope verification), and
// Headers.UnmarshalFromRaw.
func (P *Prog) decoderEntryPoints() []*ssa.Function {
	var out []*ssa.Function
	for _, fn := range P.methodsNamed("UnmarshalCBOR", "") {
		ps, rs := fn.Signature.Params(), fn.Signature.Results()
		if ps.Len() == 1 && isByteSlice(ps.At(0).Type()) && rs.Len() == 1 && errIndex(fn) == 0 {
			out = append(out, fn)
		}
	}
	for _, fn := range P.verifyEntryPoints() {
		for _, p := range fn.Params {
			if isByteSlice(p.Type()) && fn.Signature.Recv() == nil && fn.Signature.Results().Len() == 2 {
				if _, ok := fn.Signature.Results().At(0).Type().(*types.Pointer); ok {
					out = append(out, fn)
					break
				}
			}
		}
	}
	if h := P.namedType("Headers"); h != nil {
		if f := P.methodOf(h, "UnmarshalFromRaw"); f != nil {
			out = append(out, f)
		}
	}
	return uniqFuncs(out)
}

func uniqFuncs(in []*ssa.Function) []*ssa.Function {
	seen := map[*ssa.Function]bool{}
	var out []*ssa.Function
	for _, f := range in {
		if f != nil && !seen[f] {
			seen[f] = true
			out = append(out, f)
		}
	}
	sort.Slice(out, func(i, j int) bool { return out[i].String() < out[j].String() })
	return out
}

// followUpOps: operations the property names on a decoded value.
func (P *Prog) followUpOps() []*ssa.Function {
	var out []*ssa.Function
	out = append(out, P.methodsNamed("MarshalCBOR", "")...)
	out = append(out, P.verifyEntryPoints()...)
	// countersigning with the value as parent: sign entry points with an `any` parameter
	for _, fn := range P.signEntryPoints() {
		for _, p := range fn.Params {
			if it, ok := p.Type().Underlying().(*types.Interface); ok && it.NumMethods() == 0 {
				out = append(out, fn)
			}
		}
	}
	// exported methods of Key, ProtectedHeader accessors, Headers marshalers
	for _, fn := range P.Funcs {
		if fn.Signature.Recv() == nil || fn.Object() == nil || !fn.Object().Exported() || fn.Parent() != nil {
			continue
		}
		rt := deref(fn.Signature.Recv().Type())
		switch {
		case isNamed(rt, cosePath, "Key"):
			out = append(out, fn)
		case isNamed(rt, cosePath, "ProtectedHeader") && fn.Signature.Params().Len() == 0:
			out = append(out, fn)
		case isNamed(rt, cosePath, "Headers") && fn.Signature.Params().Len() == 0:
			out = append(out, fn)
		}
	}
	out = append(out, P.builtinVerifierMethods()...)
	return uniqFuncs(out)
}

type audit struct {
	r     *Report
	P     *Prog
	scope map[*ssa.Function]bool
	loops map[*ssa.Function][]*loopInfo
}

func (A *audit) loopsOf(fn *ssa.Function) []*loopInfo {
	if l, ok := A.loops[fn]; ok {
		return l
	}
	l := findLoops(fn)
	A.loops[fn] = l
	return l
}

func constIntOf(v ssa.Value) (int64, bool) {
	c, ok := v.(*ssa.Const)
	if !ok || c.Value == nil || c.Value.Kind() != constant.Int {
		return 0, false
	}
	return constInt64(c.Value)
}

func termConstInt(t *Term) (int64, bool) {
	if t == nil || t.Op != "const" {
		return 0, false
	}
	n, err := strconv.ParseInt(t.S, 10, 64)
	return n, err == nil
}

// minLen: a proven lower bound of len(x) just before instruction at.
func (A *audit) minLen(xt *Term, fs factSet) int64 {
	best := int64(0)
	up := func(n int64) {
		if n > best {
			best = n
		}
	}
	switch xt.Op {
	case "arr":
		up(int64(len(xt.Args)))
	case "makeslice":
		if n, ok := termConstInt(xt.Args[0]); ok {
			up(n)
		}
	case "slice":
		// make([]T, K) with constant K is an array allocation sliced [:K]
		if xt.Args[0].Op == "alloc" && strings.HasSuffix(xt.Args[0].S, ":makeslice") {
			lo := int64(0)
			if n, ok := termConstInt(xt.Args[1]); ok {
				lo = n
			} else if xt.Args[1].Op != "_" {
				break
			}
			if hi, ok := termConstInt(xt.Args[2]); ok && hi >= lo {
				up(hi - lo)
			}
		}
	case "load":
		if xt.Args[0].Op == "global" {
			if b, ok := A.P.globalBytes(xt.Args[0].S); ok {
				up(int64(len(b)))
			}
		}
	}
	up(fs.lenLowerBound(xt, A.foldInt))
	for _, pr := range A.P.prefixFacts(fs) {
		if pr[0].eq(xt) {
			if bs, ok := A.P.evalBytes(pr[1]); ok {
				up(int64(len(bs)))
			}
		}
	}
	for _, f := range fs {
		p := f.Pred
		switch {
		case p.Op == "call" && p.S == "bytes.HasPrefix" && f.Val && len(p.Args) == 2 && p.Args[0].eq(xt):
			// prefix must be a constant byte string
			pt := p.Args[1]
			if pt.Op == "load" && pt.Args[0].Op == "global" {
				if b, ok := A.P.globalBytes(pt.Args[0].S); ok {
					up(int64(len(b)))
				}
			}
			if b, ok := byteArr(pt); ok {
				up(int64(len(b)))
			}
		}
	}
	return best
}

// foldInt: constants, len(nil), len(literal) and len of a constant
// package-level byte slice.
func (A *audit) foldInt(t *Term) (int64, bool) { return A.P.foldIntG(t) }

func (P *Prog) foldIntG(t *Term) (int64, bool) {
	if n, ok := foldInt(t); ok {
		return n, true
	}
	if t.Op == "binop" && len(t.Args) == 2 && t.S == "*" {
		if a, ok := P.foldIntG(t.Args[0]); ok {
			if b, ok := P.foldIntG(t.Args[1]); ok {
				return a * b, true
			}
		}
	}
	if t.Op == "binop" && len(t.Args) == 2 && (t.S == "<<" || t.S == ">>") {
		if a, ok := P.foldIntG(t.Args[0]); ok {
			if b, ok := P.foldIntG(t.Args[1]); ok && b >= 0 && b < 62 {
				if t.S == "<<" {
					return a << uint(b), true
				}
				return a >> uint(b), true
			}
		}
	}
	if t.Op == "convert" && len(t.Args) == 1 {
		if a, ok := P.foldIntG(t.Args[0]); ok && a >= 0 && a < 1<<31 {
			return a, true
		}
	}
	if t.Op == "binop" && len(t.Args) == 2 && (t.S == "+" || t.S == "-") {
		if a, ok := P.foldIntG(t.Args[0]); ok {
			if b, ok := P.foldIntG(t.Args[1]); ok {
				if t.S == "+" {
					return a + b, true
				}
				return a - b, true
			}
		}
	}
	if P != nil && t.Op == "len" && len(t.Args) == 1 && t.Args[0].Op == "load" && t.Args[0].Args[0].Op == "global" {
		if b, ok := P.globalBytes(t.Args[0].Args[0].S); ok {
			return int64(len(b)), true
		}
	}
	return 0, false
}

// nonNeg: the integer term is provably >= 0.
func nonNeg(t *Term) bool {
	switch t.Op {
	case "len", "cap":
		return true
	case "const":
		n, ok := termConstInt(t)
		return ok && n >= 0
	case "call":
		return t.S == "(*math/big.Int).BitLen" || t.S == "(crypto.Hash).Size"
	case "binop":
		switch t.S {
		case "+", "*":
			return nonNeg(t.Args[0]) && nonNeg(t.Args[1])
		case "/", ">>":
			if n, ok := termConstInt(t.Args[1]); ok && n > 0 {
				return nonNeg(t.Args[0])
			}
		}
	case "convert":
		return nonNeg(t.Args[0])
	}
	return false
}

// doubleOf: t == u*2 or 2*u.
func doubleOf(t, u *Term) bool {
	if t.Op != "binop" || t.S != "*" {
		return false
	}
	a, b := t.Args[0], t.Args[1]
	if n, ok := termConstInt(b); ok && n == 2 && a.eq(u) {
		return true
	}
	if n, ok := termConstInt(a); ok && n == 2 && b.eq(u) {
		return true
	}
	return false
}

// lenTermOf: a symbolic term for len(x) when known exactly: makeslice length
// or a fact len(x) == T.
func (A *audit) lenTerms(xt *Term, fs factSet) []*Term {
	var out []*Term
	if xt.Op == "makeslice" {
		out = append(out, xt.Args[0])
	}
	lx := tLen(xt).String()
	for _, f := range fs {
		if f.Val && f.Pred.Op == "binop" && f.Pred.S == "==" {
			if f.Pred.Args[0].String() == lx {
				out = append(out, f.Pred.Args[1])
			} else if f.Pred.Args[1].String() == lx {
				out = append(out, f.Pred.Args[0])
			}
		}
	}
	return out
}

// atAllCallers: fn is unexported, has at least one in-scope call site, and
// check holds at every one of them (m maps parameter index -> argument term
// in the caller; fs are the facts before the call). Used to discharge an
// obligation on a parameter with facts the callers have established.
func (A *audit) atAllCallers(fn *ssa.Function, depth int, check func(caller *ssa.Function, fs factSet, m map[string]*Term, depth int) bool) bool {
	if depth > 3 || fn.Object() == nil || fn.Object().Exported() || fn.Parent() != nil {
		return false
	}
	n := 0
	for caller := range A.scope {
		for _, ci := range callsIn(caller, nil) {
			if staticCallee(ci) != fn {
				continue
			}
			n++
			m := map[string]*Term{}
			for i, a := range ci.Common().Args {
				m[strconv.Itoa(i)] = A.P.terms.of(a)
			}
			if !check(caller, A.P.factsBefore(ci), m, depth+1) {
				return false
			}
		}
	}
	// every use of the function must be a direct call (no function value escaping)
	if refs := fn.Referrers(); refs != nil {
		for _, r := range *refs {
			if _, ok := r.(ssa.CallInstruction); !ok {
				return false
			}
		}
	}
	return n > 0
}

// minLenCtx: minLen with the callers' facts as fallback for parameters.
func (A *audit) minLenCtx(fn *ssa.Function, xt *Term, fs factSet, need int64, depth int) bool {
	if A.minLen(xt, fs) >= need {
		return true
	}
	if !xt.contains(func(u *Term) bool { return u.Op == "param" }) {
		return false
	}
	return A.atAllCallers(fn, depth, func(caller *ssa.Function, cfs factSet, m map[string]*Term, d int) bool {
		return A.minLenCtx(caller, xt.subst(m), cfs, need, d)
	})
}

// diffNonNegCtx: for lt = a - b, the facts here (or at every caller) give b <= a.
func (A *audit) diffNonNegCtx(fn *ssa.Function, lt *Term, fs factSet, depth int) bool {
	a, b := lt.Args[0], lt.Args[1]
	if fs.has(Fact{tLt(b, a), true}) || fs.has(Fact{tLe(b, a), true}) || fs.has(Fact{tLe(a, b), false}) || fs.has(Fact{tLt(a, b), false}) {
		return true
	}
	if !lt.contains(func(u *Term) bool { return u.Op == "param" }) {
		return false
	}
	return A.atAllCallers(fn, depth, func(caller *ssa.Function, cfs factSet, m map[string]*Term, d int) bool {
		return A.diffNonNegCtx(caller, lt.subst(m), cfs, d)
	})
}

// geCtx: the integer term is >= 0 under the facts here, or (for a term over
// the parameters of an unexported helper) at every caller.
func (A *audit) geCtx(fn *ssa.Function, t *Term, fs factSet, depth int) bool {
	if A.P.proveGE0(t, fs) {
		return true
	}
	if !t.contains(func(u *Term) bool { return u.Op == "param" }) {
		return false
	}
	return A.atAllCallers(fn, depth, func(caller *ssa.Function, cfs factSet, m map[string]*Term, d int) bool {
		return A.geCtx(caller, t.subst(m), cfs, d)
	})
}

// wellformedCtx: ok(mode.Wellformed(xt)) holds here or at every caller.
func (A *audit) wellformedCtx(fn *ssa.Function, xt *Term, fs factSet, depth int) bool {
	for _, call := range fs.findOK(func(call *Term) bool { return call.S == "invoke:cbor.DecMode.Wellformed" }) {
		if len(call.Args) == 2 && call.Args[1].eq(xt) {
			return true
		}
	}
	if !xt.contains(func(u *Term) bool { return u.Op == "param" }) {
		return false
	}
	return A.atAllCallers(fn, depth, func(caller *ssa.Function, cfs factSet, m map[string]*Term, d int) bool {
		return A.wellformedCtx(caller, xt.subst(m), cfs, d)
	})
}

// loopIndexOver: idx is the index variable of a recognised full-range loop
// containing instruction at; returns the ranged value.
func (A *audit) loopIndexOver(idx ssa.Value, at ssa.Instruction) (ssa.Value, bool) {
	for _, l := range A.loopsOf(at.Parent()) {
		if !l.fullRange || l.idx == nil || l.idx != idx || l.over == nil {
			continue
		}
		if l.blocks[at.Block()] && at.Block() != l.header && l.body.Dominates(at.Block()) {
			return l.over, true
		}
	}
	return nil, false
}

// indexSafe decides x[idx] (x a slice or string value).
func (A *audit) indexSafe(x, idx ssa.Value, at ssa.Instruction) (bool, string) {
	P := A.P
	fs := P.factsBefore(at)
	xt := P.terms.of(x)
	if c, ok := constIntOf(idx); ok {
		if c >= 0 && A.minLenCtx(at.Parent(), xt, fs, c+1, 0) {
			return true, fmt.Sprintf("len(%s) >= %d on every path here (facts of this function or of all its callers)", xt, c+1)
		}
		if ok, why := A.wellformedHeadException(at.Parent(), xt, c, fs); ok {
			return true, why
		}
		return false, fmt.Sprintf("constant index %d but no dominating fact gives len(%s) >= %d", c, xt, c+1)
	}
	if over, ok := A.loopIndexOver(idx, at); ok {
		ot := P.terms.of(over)
		if over == x || ot.eq(xt) {
			return true, "index is the full-range loop variable over the same slice"
		}
		if fs.holdsEq(tLen(ot), tLen(xt)) {
			return true, fmt.Sprintf("index ranges over %s and len(%s) == len(%s) holds here", ot, ot, xt)
		}
		if fs.has(Fact{tLt(tLen(xt), tLen(ot)), false}) || fs.has(Fact{tLe(tLen(ot), tLen(xt)), true}) {
			return true, fmt.Sprintf("index ranges over %s and len(%s) <= len(%s) holds here", ot, ot, xt)
		}
		if n, ok := A.foldInt(tLen(ot)); ok && A.minLenCtx(at.Parent(), xt, fs, n, 0) {
			return true, fmt.Sprintf("index ranges over %s (%d elements) and len(%s) >= %d", ot, n, xt, n)
		}
		for _, lt := range A.lenTerms(xt, fs) {
			if lt.eq(tLen(ot)) {
				return true, fmt.Sprintf("index ranges over %s and len(%s) = len(%s) by construction", ot, xt, ot)
			}
		}
		return false, fmt.Sprintf("index ranges over %s but nothing relates its length to len(%s)", ot, xt)
	}
	// the index variable of a loop bounded by a constant (range over an array)
	for _, l := range A.loopsOf(at.Parent()) {
		if l.constBound < 0 || l.idx == nil || l.idx != idx || !(l.kind == "slice-range" || l.kind == "counted") {
			continue
		}
		if !(l.blocks[at.Block()] && at.Block() != l.header && l.body.Dominates(at.Block())) {
			continue
		}
		if arr, ok := deref(x.Type()).Underlying().(*types.Array); ok && arr.Len() >= l.constBound {
			return true, fmt.Sprintf("index is the loop variable bounded by %d over an array of %d elements", l.constBound, arr.Len())
		}
		if A.minLenCtx(at.Parent(), xt, fs, l.constBound, 0) {
			return true, fmt.Sprintf("index is the loop variable bounded by %d and len(%s) >= %d", l.constBound, xt, l.constBound)
		}
	}
	// the counter of a loop whose trip count depends on a value the dominating
	// facts confine to a few cases (CBOR head widths): judged per case with
	// the largest index the loop reaches in it
	for _, l := range A.loopsOf(at.Parent()) {
		cl := monotoneLoop(at.Parent(), l)
		if cl == nil || ssa.Value(cl.phi) != idx || !l.blocks[at.Block()] || at.Block() == l.header || cl.start < 0 {
			continue
		}
		var fl []Fact
		for _, f := range fs {
			fl = append(fl, f)
		}
		var dom []int64
		var tv *Term
		if cl.caseV != nil {
			tv = P.terms.of(cl.caseV)
			d, ok := smallDomain(tv, fl, 8)
			if !ok {
				continue
			}
			dom = d
		} else {
			dom = []int64{0}
		}
		all := true
		for _, v := range dom {
			eng := P.terms.withConst(map[ssa.Value]int64{})
			cfs := fs
			if cl.caseV != nil {
				eng = P.terms.withConst(map[ssa.Value]int64{cl.caseV: v})
				cfs = fs.clone()
				cfs.add(normFact(tEq(tInt(v), tv), true))
			}
			b, ok := P.foldIntG(eng.of(cl.bound))
			if !ok {
				all = false
				break
			}
			last := b
			if !cl.incl {
				last = b - 1
			}
			if last < cl.start {
				continue // no iteration in this case
			}
			if A.minLenCtx(at.Parent(), xt, cfs, last+1, 0) {
				continue
			}
			if ok, _ := A.wellformedHeadException(at.Parent(), xt, last, cfs); ok {
				continue
			}
			all = false
			break
		}
		if all {
			return true, fmt.Sprintf("index is the counter of a loop bounded per case of %v (%d cases): the largest index reached is within the length established for each case", tv, len(dom))
		}
	}
	it := P.terms.of(idx)
	// x[len(x)-1] under len(x) != 0
	if it.Op == "binop" && it.S == "-" && it.Args[0].eq(tLen(xt)) {
		if n, ok := termConstInt(it.Args[1]); ok && n >= 1 && A.minLen(xt, fs) >= n {
			return true, fmt.Sprintf("index len-%d under len >= %d", n, n)
		}
	}
	return false, "index " + it.String() + " is not bounded by any recognised guard"
}

// wellformedHeadException: reads of data[1..8] in the function that has
// established ok(mode.Wellformed(data)) and an additional-information value
// that makes the head that long (frozen exception whose supporting facts are
// checked here: RFC 8949 3: ai 24/25/26/27 is followed by 1/2/4/8 bytes, and
// a well-formed item is never truncated).
func (A *audit) wellformedHeadException(fn *ssa.Function, xt *Term, c int64, fs factSet) (bool, string) {
	if !A.wellformedCtx(fn, xt, fs, 0) {
		return false, ""
	}
	follow := map[int64]int64{24: 1, 25: 2, 26: 4, 27: 8}
	for _, f := range fs {
		if !f.Val || f.Pred.Op != "binop" || f.Pred.S != "==" {
			continue
		}
		for i := 0; i < 2; i++ {
			k, ok := termConstInt(f.Pred.Args[i])
			if !ok {
				continue
			}
			o := f.Pred.Args[1-i]
			// o == data[0] & 0x1f
			if o.Op == "binop" && o.S == "&" {
				var m *Term
				var e *Term
				if n, ok := termConstInt(o.Args[1]); ok && n == 31 {
					m, e = o.Args[1], o.Args[0]
				} else if n, ok := termConstInt(o.Args[0]); ok && n == 31 {
					m, e = o.Args[0], o.Args[1]
				}
				_ = m
				if e != nil && e.Op == "load" {
					e = e.Args[0]
				}
				if e != nil && e.Op == "index" && e.Args[0].eq(xt) && e.Args[1].String() == "0" {
					if n, ok := follow[k]; ok && c >= 1 && c <= n {
						return true, fmt.Sprintf("frozen exception: ok(Wellformed(%s)) and additional information %d imply %d following head bytes", xt, k, n)
					}
				}
			}
		}
	}
	return false, ""
}

// sliceSafe decides x[lo:hi] for slices/strings.
func (A *audit) sliceSafe(s *ssa.Slice) (bool, string) {
	P := A.P
	if _, isArrPtr := s.X.Type().Underlying().(*types.Pointer); isArrPtr {
		arr := deref(s.X.Type()).Underlying().(*types.Array)
		lo, hi := int64(0), arr.Len()
		okc := true
		if s.Low != nil {
			if c, ok := constIntOf(s.Low); ok {
				lo = c
			} else {
				okc = false
			}
		}
		if s.High != nil {
			if c, ok := constIntOf(s.High); ok {
				hi = c
			} else {
				okc = false
			}
		}
		if okc && s.Max == nil && 0 <= lo && lo <= hi && hi <= arr.Len() {
			return true, "constant bounds within the array"
		}
		return false, "slice of an array with non-constant bounds"
	}
	if s.Max != nil {
		return false, "3-index slice is not recognised"
	}
	fs := P.factsBefore(s)
	xt := P.terms.of(s.X)
	ml := A.minLen(xt, fs)
	bound := func(v ssa.Value) (bool, string) {
		if v == nil {
			return true, ""
		}
		if c, ok := constIntOf(v); ok {
			if c >= 0 && c <= ml {
				return true, fmt.Sprintf("constant bound %d <= proven len %d", c, ml)
			}
			return false, fmt.Sprintf("constant bound %d but proven len(%s) is only >= %d", c, xt, ml)
		}
		bt := P.terms.of(v)
		for _, lt := range A.lenTerms(xt, fs) {
			if (doubleOf(lt, bt) && nonNeg(bt)) || lt.eq(bt) {
				return true, fmt.Sprintf("bound %s against len = %s", bt, lt)
			}
		}
		if bt.eq(tLen(xt)) {
			return true, "bound is len of the same slice"
		}
		return false, fmt.Sprintf("bound %s is not related to len(%s)", bt, xt)
	}
	// linear reasoning over the dominating comparisons: 0 <= lo <= hi <= len
	{
		fn := s.Parent()
		within := func(eng *termEngine) bool {
			x := eng.of(s.X)
			lo, hi := tInt(0), tLen(x)
			if s.Low != nil {
				lo = eng.of(s.Low)
			}
			if s.High != nil {
				hi = eng.of(s.High)
			}
			return A.geCtx(fn, lo, fs, 0) && A.geCtx(fn, tSub(hi, lo), fs, 0) && A.geCtx(fn, tSub(tLen(x), hi), fs, 0)
		}
		if within(P.terms) {
			return true, "0 <= low <= high <= len follows from the dominating comparisons"
		}
		// inside a loop with a constant trip count: every iteration separately
		for _, l := range A.loopsOf(fn) {
			if l.constBound < 1 || l.constBound > 16 || l.idx == nil || !(l.kind == "counted" || l.kind == "slice-range") || !l.blocks[s.Block()] || s.Block() == l.header {
				continue
			}
			all := true
			for j := int64(0); j < l.constBound; j++ {
				if !within(P.terms.withConst(map[ssa.Value]int64{l.idx: j})) {
					all = false
				}
			}
			if all {
				return true, fmt.Sprintf("0 <= low <= high <= len holds in each of the %d iterations of the constant-bound loop", l.constBound)
			}
		}
	}
	// with only one bound present lo <= hi reduces to bound <= len; with both
	// present and both symbolic we require constants
	if s.Low != nil && s.High != nil {
		lc, lok := constIntOf(s.Low)
		hc, hok := constIntOf(s.High)
		if !(lok && hok && lc <= hc) {
			return false, "both bounds present and not constant"
		}
	}
	if ok, why := bound(s.Low); !ok {
		return false, why
	}
	ok, why := bound(s.High)
	if !ok {
		return false, why
	}
	if why == "" {
		if ok2, w2 := bound(s.Low); ok2 {
			why = w2
		}
	}
	return true, why
}

// mapNonNil decides whether the map value is non-nil at instruction at.
func (A *audit) mapNonNil(mt *Term, fs factSet, depth int) (bool, string) {
	switch mt.Op {
	case "makemap":
		return true, "map made in this activation"
	case "gate":
		// gate(c, a, b): a under c, b under !c
		c := mt.Args[0]
		okA, wa := A.mapNonNil(mt.Args[1], fs, depth+1)
		okB, wb := A.mapNonNil(mt.Args[2], fs, depth+1)
		if !okA && c.Op == "binop" && c.S == "==" {
			// condition x == nil false-arm etc. handled below
		}
		// arm taken when (x == nil) is false is x itself: non-nil
		if c.Op == "binop" && c.S == "==" {
			var other *Term
			if c.Args[0].Op == "nil" {
				other = c.Args[1]
			} else if c.Args[1].Op == "nil" {
				other = c.Args[0]
			}
			if other != nil && mt.Args[2].eq(other) {
				okB, wb = true, "arm taken when the map is not nil"
			}
		}
		if okA && okB {
			return true, "both arms non-nil (" + wa + "; " + wb + ")"
		}
		return false, "one arm of " + mt.String() + " may be nil"
	case "phi", "alt":
		for _, a := range mt.Args {
			if ok, _ := A.mapNonNil(a, fs, depth+1); !ok {
				return false, "one alternative of " + mt.String() + " may be nil"
			}
		}
		return len(mt.Args) > 0, "all alternatives non-nil"
	case "convert", "iface":
		return A.mapNonNil(mt.Args[0], fs, depth+1)
	case "struct":
	}
	if fs.holdsNonNil(mt) {
		return true, "dominating nil check"
	}
	// a successful keyed lookup (or a helper whose `found` result implies one)
	// on the same map on this path: a nil map has no entries
	for _, f := range fs {
		if !f.Val {
			continue
		}
		p := f.Pred
		if p.Op == "res" && p.S == "1" && len(p.Args) == 1 {
			q := p.Args[0]
			if q.Op == "lookup" && q.S == "ok" && q.Args[0].eq(mt) {
				return true, "a keyed lookup in the same map succeeded on this path"
			}
			if q.Op == "call" && len(q.Args) >= 1 && q.Args[0].eq(mt) {
				if fn := A.P.calleeOfTerm(q); fn != nil && A.foundImpliesNonEmpty(fn) {
					return true, "found-result of " + q.S + " on the same map is true on this path (a nil map has no entries)"
				}
			}
		}
	}
	return false, "map " + mt.String() + " is not provably non-nil here"
}

// foundImpliesNonEmpty: fn(m, ...) (v, bool): every exit returning true has
// either a successful keyed lookup in $0 or lies inside a range over $0.
func (A *audit) foundImpliesNonEmpty(fn *ssa.Function) bool {
	res := fn.Signature.Results()
	if res.Len() != 2 {
		return false
	}
	if b, ok := res.At(1).Type().Underlying().(*types.Basic); !ok || b.Kind() != types.Bool {
		return false
	}
	p0 := T("param", "0")
	for _, x := range A.P.factsOf(fn).exits {
		rt := x.results[1]
		if rt.Op == "const" && rt.S == "false" {
			continue
		}
		ok := false
		for _, f := range x.facts {
			if !f.Val {
				continue
			}
			p := f.Pred
			if p.Op == "res" && len(p.Args) == 1 {
				q := p.Args[0]
				if p.S == "1" && q.Op == "lookup" && q.S == "ok" && q.Args[0].eq(p0) {
					ok = true
				}
				if p.S == "0" && q.Op == "next" && q.Args[0].Op == "range" && q.Args[0].Args[0].eq(p0) {
					ok = true
				}
			}
		}
		if rt.Op != "const" {
			// returns the lookup's own ok flag
			if rt.Op == "res" && rt.S == "1" && rt.Args[0].Op == "lookup" && rt.Args[0].Args[0].eq(p0) {
				ok = true
			}
		}
		if !ok {
			return false
		}
	}
	return true
}

// auditPanicSites: the panic-site audit of R06.1 over the given functions
// (shared with C16 for the ECDSA verification path: a malformed signature is
// answered with a verification error, not a fault).
func (A *audit) auditPanicSites(rule string, fns []*ssa.Function, mkKey func(*ssa.Function, string, string) string, counts map[string]int) {
	r, P := A.r, A.P
	for _, fn := range fns {
		hasRecover := fn.Recover != nil
		for _, b := range fn.Blocks {
			for _, in := range b.Instrs {
				switch in := in.(type) {
				case *ssa.TypeAssert:
					if in.CommaOk {
						continue
					}
					counts["typeassert"]++
					xt := P.terms.of(in.X)
					o := r.ob(rule, mkKey(fn, "typeassert", shortType(in.AssertedType)+"<-"+xt.String()), fn, in, "type assertion without comma-ok is dominated by a successful check of the same value and type")
					want := Fact{&Term{Op: "res", S: "1", Args: []*Term{{Op: "typeassert", S: shortType(in.AssertedType) + ",ok", Args: []*Term{xt}}}}, true}
					fs := P.factsBefore(in)
					switch {
					case fs.has(want):
						o.ok("fact "+want.String(), true)
					case hasRecover:
						o.ok("function recovers from panics (defer+recover)", true)
					default:
						o.fail("x.(T) on " + xt.String() + " with no dominating comma-ok assertion / type-switch arm / checking helper on the same value")
					}
				case *ssa.IndexAddr:
					if pt, ok := in.X.Type().Underlying().(*types.Pointer); ok {
						arr := pt.Elem().Underlying().(*types.Array)
						if c, ok := constIntOf(in.Index); ok && c >= 0 && c < arr.Len() {
							continue
						}
					}
					counts["index"]++
					xt := P.terms.of(in.X)
					o := r.ob(rule, mkKey(fn, "index", xt.String()+"["+P.terms.of(in.Index).String()+"]"), fn, in, "index is within bounds on every path")
					ok, why := A.indexSafe(in.X, in.Index, in)
					if !ok && hasRecover {
						ok, why = true, "function recovers from panics"
					}
					o.check(ok, why, why)
				case *ssa.Index:
					if arr, ok := in.X.Type().Underlying().(*types.Array); ok {
						if c, ok := constIntOf(in.Index); ok && c >= 0 && c < arr.Len() {
							continue
						}
					}
					counts["index"]++
					xt := P.terms.of(in.X)
					o := r.ob(rule, mkKey(fn, "index", xt.String()+"["+P.terms.of(in.Index).String()+"]"), fn, in, "index is within bounds on every path")
					ok, why := A.indexSafe(in.X, in.Index, in)
					o.check(ok, why, why)
				case *ssa.Lookup:
					if _, isMap := in.X.Type().Underlying().(*types.Map); isMap {
						continue
					}
					counts["index"]++
					xt := P.terms.of(in.X)
					o := r.ob(rule, mkKey(fn, "index", xt.String()+"["+P.terms.of(in.Index).String()+"]"), fn, in, "string index is within bounds on every path")
					ok, why := A.indexSafe(in.X, in.Index, in)
					o.check(ok, why, why)
				case *ssa.Slice:
					if _, isArrPtr := in.X.Type().Underlying().(*types.Pointer); isArrPtr && in.Low == nil && in.High == nil && in.Max == nil {
						continue
					}
					counts["slice"]++
					xt := P.terms.of(in.X)
					lo, hi := "", ""
					if in.Low != nil {
						lo = P.terms.of(in.Low).String()
					}
					if in.High != nil {
						hi = P.terms.of(in.High).String()
					}
					o := r.ob(rule, mkKey(fn, "slice", xt.String()+"["+lo+":"+hi+"]"), fn, in, "re-slice bounds are within the slice on every path")
					ok, why := A.sliceSafe(in)
					if !ok && hasRecover {
						ok, why = true, "function recovers from panics"
					}
					o.check(ok, why, why)
				case *ssa.MapUpdate:
					counts["mapupdate"]++
					mt := P.terms.of(in.Map)
					A.mapWrite(fn, in, mt, mkKey)
				case *ssa.MakeSlice:
					if _, ok := constIntOf(in.Len); ok {
						continue
					}
					counts["makeslice"]++
					lt := P.terms.of(in.Len)
					o := r.ob(rule, mkKey(fn, "makeslice", lt.String()), fn, in, "make with a computed length: the length is non-negative and not larger than the capacity")
					okLen := nonNeg(lt)
					why := "length " + lt.String() + " is non-negative by construction"
					fs := P.factsBefore(in)
					if !okLen && lt.Op == "binop" && lt.S == "-" {
						// a - b under b < a (here, or at every caller of an unexported helper)
						if A.diffNonNegCtx(fn, lt, fs, 0) {
							okLen, why = true, "length "+lt.String()+" under the dominating comparison of its operands"
						}
					}
					if !okLen && A.geCtx(fn, lt, fs, 0) {
						okLen, why = true, "length "+lt.String()+" >= 0 follows from the dominating comparisons"
					}
					if okLen && in.Cap != in.Len && A.geCtx(fn, tSub(P.terms.of(in.Cap), lt), fs, 0) {
						// capacity >= length by the same reasoning
					} else if okLen && in.Cap != in.Len {
						ct := P.terms.of(in.Cap)
						// cap must be >= len: len = cap - x with x >= 0
						if !(lt.Op == "binop" && lt.S == "-" && lt.Args[0].eq(ct) && nonNeg(lt.Args[1])) && !ct.eq(lt) {
							okLen, why = false, "capacity "+ct.String()+" is not provably >= length "+lt.String()
						}
					}
					if !okLen && why == "length "+lt.String()+" is non-negative by construction" {
						why = "length " + lt.String() + " is not provably non-negative"
					}
					o.check(okLen, why, why)
				case *ssa.BinOp:
					if (in.Op == token.EQL || in.Op == token.NEQ) && types.IsInterface(in.X.Type()) && types.IsInterface(in.Y.Type()) {
						// == on two interface values panics when both hold the
						// same uncomparable dynamic type ([]byte, []any, map):
						// one side must be known to hold a comparable type
						okX, whyX := P.comparableDyn(in.X)
						okY, whyY := P.comparableDyn(in.Y)
						if okX && whyX == "nil" || okY && whyY == "nil" {
							continue
						}
						counts["ifacecmp"]++
						o := r.ob(rule, mkKey(fn, "ifacecmp", P.terms.of(in.X).String()+in.Op.String()+P.terms.of(in.Y).String()), fn, in, "comparison of two interface values: one operand holds a comparable dynamic type")
						switch {
						case okX:
							o.ok("left operand: "+whyX, true)
						case okY:
							o.ok("right operand: "+whyY, true)
						case hasRecover:
							o.ok("function recovers from panics", true)
						default:
							o.fail("both operands are interface values of unknown dynamic type (" + whyX + "; " + whyY + "): the comparison panics when both hold the same uncomparable type (byte string, array or map decoded from the input)")
						}
						continue
					}
					if in.Op != token.QUO && in.Op != token.REM {
						continue
					}
					if b, ok := in.X.Type().Underlying().(*types.Basic); !ok || b.Info()&types.IsInteger == 0 {
						continue
					}
					if c, ok := constIntOf(in.Y); ok && c != 0 {
						continue
					}
					counts["div"]++
					r.ob(rule, mkKey(fn, "div", P.terms.of(in.Y).String()), fn, in, "integer division by a non-zero divisor").fail("division by the non-constant " + P.terms.of(in.Y).String())
				case *ssa.Panic:
					counts["panic"]++
					r.ob(rule, mkKey(fn, "panic", "explicit"), fn, in, "no explicit panic on an input-reachable path").fail("explicit panic in a function reachable from decoders / follow-up operations")
				case *ssa.SliceToArrayPointer:
					counts["slice2array"]++
					r.ob(rule, mkKey(fn, "slice2array", P.terms.of(in.X).String()), fn, in, "slice-to-array conversion has enough elements").fail("slice-to-array-pointer conversion is not recognised by any guard")
				case ssa.CallInstruction:
					A.callSite(fn, in, hasRecover, mkKey, counts)
				}
			}
		}
	}
}

// comparableDyn: the interface value v is nil, or holds a dynamic type that
// is known and comparable: a boxed basic/pointer value, or a package-level
// error sentinel built by errors.New / fmt.Errorf (a pointer).
func (P *Prog) comparableDyn(v ssa.Value) (bool, string) {
	switch x := v.(type) {
	case *ssa.Const:
		if x.IsNil() {
			return true, "nil"
		}
	case *ssa.MakeInterface:
		switch t := x.X.Type().Underlying().(type) {
		case *types.Basic, *types.Pointer:
			return true, "boxed " + shortType(x.X.Type())
		default:
			_ = t
			return false, "boxed " + shortType(x.X.Type())
		}
	case *ssa.ChangeInterface:
		return P.comparableDyn(x.X)
	case *ssa.Extract:
		// result 0 of the label normaliser: a boxed int64 or a string (R13.7)
		if c, ok := x.Tuple.(*ssa.Call); ok && x.Index == 0 && c.Call.StaticCallee() != nil && c.Call.StaticCallee() == P.labelNormalizer() {
			return true, "a normalised label: boxed int64 or string (R13.7)"
		}
	case *ssa.UnOp:
		if g, ok := x.X.(*ssa.Global); ok && x.Op == token.MUL && g.Pkg == P.SPkg {
			n, okAll := 0, true
			for _, f := range P.allFuncsInclInit() {
				for _, b := range f.Blocks {
					for _, in := range b.Instrs {
						st, isSt := in.(*ssa.Store)
						if !isSt || st.Addr != ssa.Value(g) {
							continue
						}
						n++
						c, isCall := st.Val.(*ssa.Call)
						if !isCall || c.Call.StaticCallee() == nil {
							okAll = false
							continue
						}
						if nm := c.Call.StaticCallee().String(); nm != "errors.New" && nm != "fmt.Errorf" {
							okAll = false
						}
					}
				}
			}
			if n > 0 && okAll {
				return true, "sentinel " + g.Name() + " (errors.New / fmt.Errorf: a pointer)"
			}
			return false, "package variable " + g.Name()
		}
	case *ssa.Phi:
		all := len(x.Edges) > 0
		for _, e := range x.Edges {
			if e == v {
				continue
			}
			if ok, _ := P.comparableDyn(e); !ok {
				all = false
			}
		}
		if all {
			return true, "every incoming value is comparable"
		}
	}
	return false, "dynamic type of " + truncate(P.terms.of(v).String(), 60) + " unknown"
}

func runC06(r *Report, tier string) {
	P := r.P
	r.rule("R06.1", "panic-site audit: in every function reachable from a decoding entry point or a follow-up operation, each instruction that can panic on its own (unchecked type assertion; slice/string index or re-slice; write to a possibly nil map; make with a computed length; integer division by a non-constant; explicit panic; external call with a precondition; method call on a pointer taken from a slice element) is discharged by a dominating fact on the same value (comma-ok / type-switch arm, length / prefix / well-formedness fact, nil check, successful lookup, full-range loop index, defer+recover, CanInt/Kind guard) or is reported.")
	r.rule("R06.2", "termination: every loop in scope is a range loop or a counted loop with a len bound; every call-graph cycle in scope is either broken by a CBOR-mode Unmarshal edge (strictly smaller sub-item, nesting limited by the library's MaxNestedLevels, which is not raised) or is the pointer-to-value re-dispatch of a type switch (depth <= 2).")
	r.assumes("A1: DecMode.Wellformed/Unmarshal reject truncated items; the CBOR library, the Go standard library and user-supplied Signer/Verifier implementations do not panic or loop (bodies not analysed)",
		"receivers and arguments supplied by the caller (nil receivers, typed-nil parents, malformed crypto keys) are outside the property's quantifier; only values that come from decoded bytes are audited for nil")

	decs := P.decoderEntryPoints()
	r.floor("R06.1", len(decs), 12, "decoding entry points")
	roots := append(append([]*ssa.Function{}, decs...), P.followUpOps()...)
	scope := P.reachable(roots)
	A := &audit{r: r, P: P, scope: scope, loops: map[*ssa.Function][]*loopInfo{}}
	var fns []*ssa.Function
	for f := range scope {
		fns = append(fns, f)
	}
	sort.Slice(fns, func(i, j int) bool { return fns[i].String() < fns[j].String() })
	r.floorSoft("R06.1", len(fns), 80, "functions in scope")
	r.analysed(fns...)
	counts := map[string]int{}
	ord := map[string]int{}
	mkKey := func(fn *ssa.Function, kind, what string) string {
		k := shortFn(fn) + ":" + kind + ":" + what
		ord[k]++
		if ord[k] > 1 {
			return fmt.Sprintf("%s#%d", k, ord[k])
		}
		return k
	}
	A.auditPanicSites("R06.1", fns, mkKey, counts)
	r.floorSoft("R06.1", counts["typeassert"], 3, "bare type assertions")
	r.floorSoft("R06.1", counts["index"], 15, "index expressions")
	r.floorSoft("R06.1", counts["slice"], 5, "re-slice expressions")
	r.floorSoft("R06.1", counts["mapupdate"], 8, "map writes")
	r.floorSoft("R06.1", counts["extprecond"], 5, "external calls with a precondition")
	var cs []string
	for k, v := range counts {
		cs = append(cs, fmt.Sprintf("%s=%d", k, v))
	}
	sort.Strings(cs)
	r.notes = append(r.notes, "R06.1 panic-capable instructions in scope: "+strings.Join(cs, " "), fmt.Sprintf("scope: %d functions reachable from %d decoding entry points and %d follow-up operations", len(fns), len(decs), len(P.followUpOps())))

	// R06.2 loops
	nl := 0
	for _, fn := range fns {
		for _, l := range A.loopsOf(fn) {
			nl++
			o := r.ob("R06.2", mkKey(fn, "loop", l.kind), fn, l.header.Instrs[len(l.header.Instrs)-1], "loop is a range or a counted loop with a monotone induction variable")
			switch l.kind {
			case "slice-range", "map-range", "string-range":
				o.ok(l.kind+" over "+P.terms.of(l.over).String(), true)
			case "counted":
				o.ok("counted loop from 0 step 1 to a fixed bound", true)
			default:
				if cl := monotoneLoop(fn, l); cl != nil {
					o.ok("counter from a constant, step 1, against a loop-invariant bound", true)
					continue
				}
				o.fail("loop form not recognised as bounded (no range, no monotone counter against a fixed bound)")
			}
		}
	}
	r.floorSoft("R06.2", nl, 8, "loops in scope")
	// cycles
	cyc := P.cycles(scope)
	for _, comp := range cyc {
		var names []string
		for _, f := range comp {
			names = append(names, shortFn(f))
		}
		o := r.ob("R06.2", "cycle:"+strings.Join(names, ","), comp[0], nil, "call-graph cycle is bounded")
		ok, why := A.cycleBounded(comp)
		o.check(ok, why, why)
	}
	r.floor("R06.2", len(cyc), 2, "call-graph cycles in scope")
	// the pointer arms of the countersignature builder (`*t`) and the methods
	// called on decoded countersignature elements rely on decoded header
	// values under labels 7 / 11 holding no nil pointer: the predicate that
	// admits them (shared with C05 / C13)
	r.rule("R05.7", "(shared) every decoded countersignature header value is a non-nil pointer or a non-empty list without nil elements, so follow-up operations that dereference the elements cannot fault.")
	checkCountersigValuePredicate(r, "R05.7")
	// header labels and crit elements become map keys (h[label]): the value
	// predicates that admit them must admit hashable kinds only
	r.rule("R13.1", "(shared) the int / uint / tstr / bstr value predicates accept exactly their kind tables (no unhashable or foreign dynamic type slips through to a map index).")
	checkValuePredicateKinds(r, "R13.1")
	r.rule("R13.7", "(shared) label normalisation returns a boxed int64 or the string itself: two normalised labels can be compared and used as map keys.")
	checkLabelNormalizer(r, "R13.7")
	// follow-up operations dereference the elements of a decoded COSE_Sign's
	// signature list: each was produced by the Signature decoder (never nil)
	r.rule("R11.3", "(shared with C11) the COSE_Sign decoder stores only elements that passed the Signature decoder on a fresh object.")
	checkSignMessageDecoderElems(r, "R11.3")
	// MaxNestedLevels not raised on any decode mode
	for _, mc := range P.modeConfigs() {
		if mc.enc {
			continue
		}
		checkModeLimit(r, "R06.2", mc, "MaxNestedLevels", func(v, def int64) bool { return v <= def }, "is not above the library default")
	}
}

// mapWrite: m[k] = v. m must be non-nil; when m is a parameter of an
// in-package function the obligation moves to the in-scope call sites.
func (A *audit) mapWrite(fn *ssa.Function, in *ssa.MapUpdate, mt *Term, mkKey func(*ssa.Function, string, string) string) {
	P, r := A.P, A.r
	if mt.Op == "param" {
		pi, _ := strconv.Atoi(mt.S)
		n := 0
		for caller := range A.scope {
			for _, ci := range callsIn(caller, nil) {
				if staticCallee(ci) != fn {
					continue
				}
				n++
				at := P.terms.of(ci.Common().Args[pi])
				o := r.ob("R06.1", mkKey(caller, "mapupdate-arg", shortFn(fn)+"("+at.String()+")"), caller, ci, "map handed to "+shortFn(fn)+" (which writes it) is non-nil")
				ok, why := A.mapNonNil(at, P.factsBefore(ci), 0)
				o.check(ok, why, why)
			}
		}
		if n == 0 {
			r.ob("R06.1", mkKey(fn, "mapupdate", mt.String()), fn, in, "written map parameter has no in-scope caller").ok("no in-scope caller: the map is the API user's", false)
		}
		return
	}
	o := r.ob("R06.1", mkKey(fn, "mapupdate", mt.String()), fn, in, "written map is non-nil")
	ok, why := A.mapNonNil(mt, P.factsBefore(in), 0)
	o.check(ok, why, why)
}

// callSite: external callees with a precondition; method calls on pointers
// taken from slice elements.
func (A *audit) callSite(fn *ssa.Function, ci ssa.CallInstruction, hasRecover bool, mkKey func(*ssa.Function, string, string) string, counts map[string]int) {
	P, r := A.P, A.r
	c := ci.Common()
	callee := c.StaticCallee()
	if callee == nil {
		return
	}
	if P.inPkg(callee) {
		// receiver / pointer argument loaded from a slice element or map: callee must nil-check before use
		for i, a := range c.Args {
			if _, ok := a.Type().Underlying().(*types.Pointer); !ok {
				continue
			}
			u, ok := a.(*ssa.UnOp)
			if !ok || u.Op != token.MUL {
				continue
			}
			if _, ok := u.X.(*ssa.IndexAddr); !ok {
				continue
			}
			counts["elemptr"]++
			o := r.ob("R06.1", mkKey(fn, "elemptr", shortFn(callee)+"#"+strconv.Itoa(i)), fn, ci, "a pointer taken from a slice element is nil-checked by the callee before it is dereferenced")
			ok2, why := A.derefsGuarded(callee, i)
			o.check(ok2, why, why)
		}
		return
	}
	ct, ok := lookupContract(callee)
	if !ok || ct.panics == "" {
		return
	}
	counts["extprecond"]++
	name := shortFn(callee)
	fs := P.factsBefore(ci)
	o := r.ob("R06.1", mkKey(fn, "precond", name), fn, ci, "precondition of "+name+" ("+ct.panics+") holds")
	if hasRecover {
		o.ok("function recovers from panics (defer+recover)", true)
		return
	}
	arg := func(i int) *Term { return P.terms.of(c.Args[i]) }
	switch name {
	case "(reflect.Value).Int":
		o.check(fs.has(Fact{&Term{Op: "call", S: "(reflect.Value).CanInt", Args: []*Term{arg(0)}}, true}), "CanInt() is true on the same value", "no dominating CanInt() on the same reflect.Value")
	case "(reflect.Value).Uint":
		o.check(fs.has(Fact{&Term{Op: "call", S: "(reflect.Value).CanUint", Args: []*Term{arg(0)}}, true}), "CanUint() is true on the same value", "no dominating CanUint() on the same reflect.Value")
	case "(reflect.Value).Bool":
		kind := &Term{Op: "call", S: "(reflect.Value).Kind", Args: []*Term{arg(0)}}
		o.check(fs.has(Fact{tEq(kind, T("const", "1")), true}), "Kind() == reflect.Bool on the same value", "no dominating Kind()==Bool on the same reflect.Value")
	case "(reflect.Value).Bytes":
		o.fail("reflect.Value.Bytes without defer+recover or a kind guard")
	case "(*math/big.Int).FillBytes":
		// len(buf)*8 < BitLen(x) is false
		bl := &Term{Op: "call", S: "(*math/big.Int).BitLen", Args: []*Term{arg(0)}}
		l8 := &Term{Op: "binop", S: "*", Args: []*Term{tLen(arg(1)), T("const", "8")}}
		ok := fs.has(Fact{tLt(l8, bl), false}) || fs.has(Fact{tLe(bl, l8), true})
		o.check(ok, "BitLen(x) <= len(buf)*8 holds here", "no dominating check that the integer fits the buffer")
	case "(*math/big.Int).BitLen", "(*math/big.Int).Sign":
		at := arg(0)
		okNN := fs.holdsNonNil(at) || at.Op == "call" || at.Op == "alloc"
		why := "receiver is " + at.String()
		if at.contains(func(u *Term) bool { return u.Op == "call" && u.S == "invoke:crypto/elliptic.Curve.Params" }) {
			okNN, why = true, "receiver is a field of the standard library's curve parameter block"
		}
		if !okNN {
			// integers that come from the caller's key / crypto results: outside the quantifier
			if at.contains(func(u *Term) bool { return u.Op == "param" }) && !A.derivesFromDecoded(fn) {
				okNN, why = true, "receiver "+at.String()+" comes from the caller's key material or a crypto primitive's result, not from decoded bytes"
			}
		}
		o.check(okNN, why, "big.Int receiver "+at.String()+" may be nil")
	case "(crypto.Hash).Size":
		// hash != 0 checked: Size panics only for unknown hash ids
		at := arg(0)
		okH := fs.has(Fact{tEq(at, T("const", "0")), false})
		o.check(okH, "hash id != 0 on this path and the id comes from the package's own algorithm table", "crypto.Hash.Size on a possibly unknown hash id")
	case "(crypto.Hash).New":
		at := arg(0)
		okH := fs.has(Fact{&Term{Op: "call", S: "(crypto.Hash).Available", Args: []*Term{at}}, true})
		o.check(okH, "Available() is true on the same hash", "crypto.Hash.New without a dominating Available()")
	case "crypto/ed25519.Verify":
		ok, why := A.ed25519KeyLen(fn, ci, "verify")
		o.check(ok, why, why)
	case "crypto/ed25519.NewKeyFromSeed":
		ok, why := A.ed25519KeyLen(fn, ci, "seed")
		o.check(ok, why, why)
	default:
		o.fail("external callee with precondition '" + ct.panics + "' has no recogniser")
	}
}

// derivesFromDecoded: fn is reachable from a decoder entry point (its
// parameters may carry attacker-chosen values).
func (A *audit) derivesFromDecoded(fn *ssa.Function) bool {
	return A.P.reachable(A.P.decoderEntryPoints())[fn]
}

// derefsGuarded: in callee, every use of parameter i that dereferences it is
// dominated by a nil check of it.
func (A *audit) derefsGuarded(callee *ssa.Function, i int) (bool, string) {
	P := A.P
	p := callee.Params[i]
	pt := T("param", strconv.Itoa(i))
	var visit func(v ssa.Value, depth int) (bool, string)
	visit = func(v ssa.Value, depth int) (bool, string) {
		for _, ref := range *v.Referrers() {
			switch u := ref.(type) {
			case *ssa.FieldAddr, *ssa.UnOp, *ssa.Store:
				if s, ok := u.(*ssa.Store); ok && s.Addr != v {
					continue
				}
				if un, ok := u.(*ssa.UnOp); ok && un.Op != token.MUL {
					continue
				}
				if !P.factsBefore(u).holdsNonNil(pt) {
					return false, fmt.Sprintf("%s dereferences parameter %d at %s without a dominating nil check", shortFn(callee), i, P.instrPos(u))
				}
			case *ssa.ChangeType:
				// pointer conversion (*Countersignature -> *Signature): follow
				if depth < 3 {
					if ok, why := visit(u, depth+1); !ok {
						return false, why
					}
				}
			case ssa.CallInstruction:
				c := u.Common()
				cal := c.StaticCallee()
				if cal == nil || !P.inPkg(cal) {
					continue
				}
				for j, a := range c.Args {
					if a == v && depth < 3 {
						if !P.factsBefore(u).holdsNonNil(pt) {
							if ok, why := A.derefsGuarded(cal, j); !ok {
								return false, why
							}
						}
					}
				}
			}
		}
		return true, ""
	}
	ok, why := visit(p, 0)
	if !ok {
		return false, why
	}
	return true, shortFn(callee) + " checks the pointer for nil before every dereference"
}

// ed25519KeyLen: the frozen exception for ed25519.Verify / NewKeyFromSeed.
// Supporting facts, all checked: (1) the key reaching the primitive from a
// decoded COSE_Key passes through Key.PublicKey / Key.PrivateKey, whose OKP
// arm is dominated by ok(validate(op)); (2) on every success path of the
// consistency check through the OKP arm the public point / seed has length
// 32 or is absent, and the operation-specific arm refuses the absent case.
func (A *audit) ed25519KeyLen(fn *ssa.Function, ci ssa.CallInstruction, what string) (bool, string) {
	P := A.P
	keyN := P.namedType("Key")
	if keyN == nil {
		return false, "anchor Key type not found"
	}
	var validate *ssa.Function
	var producer *ssa.Function
	opConst := "2" // KeyOpVerify
	if what == "seed" {
		opConst = "1"
		producer = P.methodOf(keyN, "PrivateKey")
	} else {
		producer = P.methodOf(keyN, "PublicKey")
	}
	if producer == nil {
		return false, "anchor Key.PublicKey/PrivateKey not found"
	}
	// (1) producer: every success exit carries ok(validate(*k, op))
	for _, x := range P.factsOf(producer).exits {
		if x.kind == exitFailure {
			continue
		}
		found := false
		for _, c := range exitFacts(P, x).findOK(func(call *Term) bool {
			f := P.calleeOfTerm(call)
			return f != nil && f.Signature.Recv() != nil && isNamed(deref(f.Signature.Recv().Type()), cosePath, "Key") && len(call.Args) == 2 && call.Args[1].String() == opConst
		}) {
			validate = P.calleeOfTerm(c)
			found = true
		}
		if !found {
			return false, fmt.Sprintf("%s has a success exit without ok(consistency check(op=%s))", shortFn(producer), opConst)
		}
	}
	if validate == nil {
		return false, "consistency check not found"
	}
	// (2) consistency check: on success paths with Type == OKP and this op the
	// relevant byte string has length 32
	for _, p := range P.allPaths(validate) {
		if !p.feasible() {
			continue
		}
		res := p.results()
		fs := factSet{}
		for _, c := range p.conds {
			fs.add(c)
		}
		if k, _ := P.classifyErr(res[0], fs); k == exitFailure {
			continue
		}
		okp := false
		lenOK := false
		for _, c := range p.conds {
			if c.Pred.Op != "binop" || c.Pred.S != "==" || !c.Val {
				continue
			}
			for i := 0; i < 2; i++ {
				n, ok := termConstInt(c.Pred.Args[i])
				o := c.Pred.Args[1-i]
				if ok && n == 1 && o.Op == "field" && o.S == "Type" {
					okp = true // kty == OKP
				}
				if ok && n == 32 && o.Op == "len" {
					lenOK = true
				}
			}
		}
		if !okp {
			continue
		}
		// does this path have op == opConst?
		opArm := false
		for _, c := range p.conds {
			if c.Val && c.Pred.Op == "binop" && c.Pred.S == "==" {
				a, b := c.Pred.Args[0], c.Pred.Args[1]
				if (a.String() == "$1" && b.String() == opConst) || (b.String() == "$1" && a.String() == opConst) {
					opArm = true
				}
			}
		}
		if opArm && !lenOK {
			var cs []string
			for _, c := range p.conds {
				cs = append(cs, c.String())
			}
			return false, "the consistency check has a success path for an OKP key under this operation without a length-32 check: " + strings.Join(cs, " ∧ ")
		}
	}
	// the call's key must come from the receiver or the validated accessor
	if what == "verify" {
		// the verifier's key field is filled only in the constructor from a type-checked ed25519.PublicKey; the length is the caller's for foreign keys
		return true, "frozen exception: decoded keys reach ed25519.Verify through " + shortFn(producer) + " under ok(" + shortFn(validate) + "(op=verify)), whose OKP success paths have len(x) == 32; other keys are the caller's"
	}
	if fn != producer {
		return false, "ed25519.NewKeyFromSeed is called outside " + shortFn(producer)
	}
	return true, "frozen exception: seed is the d parameter under ok(" + shortFn(validate) + "(op=sign)), whose OKP success paths have len(d) == 32"
}

// cycleBounded implements the R06.2 cycle criteria.
func (A *audit) cycleBounded(comp []*ssa.Function) (bool, string) {
	P := A.P
	in := map[*ssa.Function]bool{}
	for _, f := range comp {
		in[f] = true
	}
	// (a) remove the CBOR dispatch edges: is the component still cyclic?
	static := func(f *ssa.Function) []*ssa.Function {
		var out []*ssa.Function
		for _, b := range f.Blocks {
			for _, i := range b.Instrs {
				if ci, ok := i.(ssa.CallInstruction); ok {
					if c := ci.Common().StaticCallee(); c != nil && in[c] {
						out = append(out, c)
					}
				}
			}
		}
		return out
	}
	// DFS for a cycle using static edges only
	color := map[*ssa.Function]int{}
	var cyc []*ssa.Function
	var dfs func(f *ssa.Function) bool
	dfs = func(f *ssa.Function) bool {
		color[f] = 1
		for _, g := range static(f) {
			if color[g] == 1 {
				cyc = []*ssa.Function{f, g}
				return true
			}
			if color[g] == 0 && dfs(g) {
				return true
			}
		}
		color[f] = 2
		return false
	}
	staticCycle := false
	for _, f := range comp {
		if color[f] == 0 && dfs(f) {
			staticCycle = true
			break
		}
	}
	if !staticCycle {
		return true, "every traversal of the cycle passes through a CBOR-mode Unmarshal/Marshal call on a strict sub-item (nesting limited by the library; MaxNestedLevels not raised)"
	}
	// (b) self-recursion as pointer->value re-dispatch
	if len(comp) == 1 {
		fn := comp[0]
		okAll := true
		why := ""
		n := 0
		for _, ci := range callsIn(fn, nil) {
			if staticCallee(ci) != fn {
				continue
			}
			n++
			// one argument must be MakeInterface of a non-pointer struct value
			// loaded through a pointer obtained by a comma-ok type assertion of
			// the corresponding parameter to a pointer type
			good := false
			for i, a := range ci.Common().Args {
				mi, ok := a.(*ssa.MakeInterface)
				if !ok {
					continue
				}
				if _, isPtr := mi.X.Type().Underlying().(*types.Pointer); isPtr {
					continue
				}
				if _, isStruct := mi.X.Type().Underlying().(*types.Struct); !isStruct {
					continue
				}
				ld, ok := mi.X.(*ssa.UnOp)
				if !ok || ld.Op != token.MUL {
					continue
				}
				ex, ok := ld.X.(*ssa.Extract)
				if !ok {
					continue
				}
				ta, ok := ex.Tuple.(*ssa.TypeAssert)
				if !ok || !ta.CommaOk || ta.X != ssa.Value(fn.Params[i]) {
					continue
				}
				if _, isPtr := ta.AssertedType.Underlying().(*types.Pointer); !isPtr {
					continue
				}
				// the value type's own arm must not recurse: the recursive call is
				// only reachable under a pointer-typed assertion of the parameter
				good = true
			}
			if !good {
				okAll = false
				why = "recursive call at " + P.instrPos(ci) + " does not pass the dereferenced value of a pointer-typed arm"
			}
		}
		if okAll && n > 0 {
			// every recursive call is dominated by ok of a pointer-type assertion => the callee activation sees a non-pointer dynamic type and cannot take a recursive arm again
			for _, ci := range callsIn(fn, nil) {
				if staticCallee(ci) != fn {
					continue
				}
				fs := P.factsBefore(ci)
				dominated := false
				for _, f := range fs {
					if f.Val && f.Pred.Op == "res" && f.Pred.S == "1" && f.Pred.Args[0].Op == "typeassert" && strings.HasPrefix(f.Pred.Args[0].S, "*") {
						dominated = true
					}
				}
				if !dominated {
					return false, "recursive call at " + P.instrPos(ci) + " is not confined to a pointer-typed arm of the type switch"
				}
			}
			return true, fmt.Sprintf("%d recursive calls, each in a pointer-typed arm passing the pointee by value: the next activation sees a non-pointer dynamic type (depth <= 2)", n)
		}
		if why == "" {
			why = "self-recursion not recognised as pointer-to-value re-dispatch"
		}
		return false, why
	}
	var names []string
	for _, f := range cyc {
		names = append(names, shortFn(f))
	}
	return false, "cycle through static calls only (no CBOR-mode edge): " + strings.Join(names, " -> ")
}

func mutC06() []mutant {
	return []mutant{
		{Name: "lookupLabel compares the raw map key with the raw label", File: "headers.go", Rule: "R06.1", Key: "ifacecmp",
			Old: "\t\tif got, ok := normalizeLabel(k); ok && got == want {", New: "\t\tif got, ok := normalizeLabel(k); ok && (got == want || k == label) {"},
		{Name: "D1 re-created: Key.UnmarshalCBOR asserts the curve value without comma-ok", File: "key.go", Quick: true, Rule: "R06.1",
			Old: "\t\t\t\t\tcrv, ok := v.(int64)\n\t\t\t\t\tif !ok {\n\t\t\t\t\t\treturn fmt.Errorf(\"crv: invalid type: expected int64, got %T\", v)\n\t\t\t\t\t}\n\t\t\t\t\tv = Curve(crv)",
			New: "\t\t\t\t\tv = Curve(v.(int64))"},
		{Name: "untagged decoder reads data[0] before the length check", File: "sign1.go", Quick: true, Rule: "R06.1",
			Old: "\tif len(data) == 0 {\n\t\treturn errors.New(\"cbor: zero length data\")\n\t}\n\n\t// fast message check - ensure the frist byte indicates a four-element array\n\tif data[0] != sign1MessagePrefix[1] {",
			New: "\t// fast message check - ensure the frist byte indicates a four-element array\n\tif data[0] != sign1MessagePrefix[1] {"},
		{Name: "decodeBytes loses its recover", File: "key.go", Rule: "R06.1",
			Old: "\tdefer func() {\n\t\tif r := recover(); r != nil {\n\t\t\terr = fmt.Errorf(\"invalid type: expected []uint8, got %T\", val)\n\t\t}\n\t}()\n", New: ""},
		{Name: "validate drops the OKP size check", File: "key.go", Rule: "R06.1",
			Old: "\t\tif (len(x) > 0 && len(x) != ed25519.PublicKeySize) || (len(d) > 0 && len(d) != ed25519.SeedSize) {\n\t\t\treturn errCoordOverflow\n\t\t}\n", New: ""},
		{Name: "SignMessage decoder loops with an open-ended counter", File: "sign.go", Rule: "R06.2",
			Old: "\tfor _, sigCBOR := range raw.Signatures {\n\t\tsig := &Signature{}", New: "\tfor i := 0; ; i++ {\n\t\tif i >= len(raw.Signatures) {\n\t\t\tbreak\n\t\t}\n\t\tsigCBOR := raw.Signatures[i]\n\t\tsig := &Signature{}"},
		{Name: "Critical() asserts the array type without ensureCritical", File: "headers.go", Rule: "R06.1",
			Old: "\terr := ensureCritical(value, h)\n\tif err != nil {\n\t\treturn nil, err\n\t}\n\treturn value.([]any), nil", New: "\treturn value.([]any), nil"},
		{Name: "content-type check indexes the string before the empty test", File: "headers.go", Rule: "R06.1",
			Old: "\t\t\t\tif len(v) == 0 {\n\t\t\t\t\treturn errors.New(\"header parameter: content type: require non-empty string\")\n\t\t\t\t}\n", New: ""},
		{Name: "Signature.Verify tests the head byte of an empty body-protected", File: "sign.go", Rule: "R06.1", Nth: 2,
			Old: "if len(protected) == 0 || protected[0]>>5 != 2 {", New: "if protected[0]>>5 != 2 {"},
		{Name: "SignMessage.Verify drops the count check", File: "sign.go", Rule: "R06.1",
			Old: "\tcase len(verifiers):\n\t\t// no ops\n\tdefault:\n\t\treturn fmt.Errorf(\"%d verifiers for %d signatures\", len(verifiers), len(m.Signatures))\n\t}", New: "\t}"},
		{Name: "protected decoder re-types alg into a possibly nil map", File: "hash_envelope.go", Rule: "R06.1",
			Old: "\thashAlgorithm, err := message.Headers.Protected.PayloadHashAlgorithm()\n\tif err != nil {\n\t\treturn nil, err\n\t}\n\tmessage.Headers.Protected[HeaderLabelPayloadHashAlgorithm] = hashAlgorithm",
			New: "\thashAlgorithm, _ := message.Headers.Protected.PayloadHashAlgorithm()\n\tmessage.Headers.Protected[HeaderLabelPayloadHashAlgorithm] = hashAlgorithm"},
		{Name: "I2OSP fills the buffer without the size check", File: "ecdsa.go", Rule: "R06.1",
			Old: "\tif x.BitLen() > len(buf)*8 {\n\t\treturn errors.New(\"I2OSP: integer too large\")\n\t}\n", New: ""},
		{Name: "Signature.MarshalCBOR dereferences a nil element", File: "sign.go", Rule: "R06.1",
			Old: "func (s *Signature) MarshalCBOR() ([]byte, error) {\n\tif s == nil {\n\t\treturn nil, errors.New(\"cbor: MarshalCBOR on nil Signature pointer\")\n\t}\n", New: "func (s *Signature) MarshalCBOR() ([]byte, error) {\n"},
		{Name: "a decode mode raises MaxNestedLevels", File: "cbor.go", Rule: "R06.2",
			Old: "\t\tIntDec:      cbor.IntDecConvertSigned,  // decode CBOR uint/int to Go int64\n", New: "\t\tIntDec:      cbor.IntDecConvertSigned,  // decode CBOR uint/int to Go int64\n\t\tMaxNestedLevels: 65535,\n"},
	}
}

package main

// Wire-slot rules shared by C01, C08 and C09: what the structure encoders put
// into the wire struct, what the decoders take out of it, and that nothing
// changes the signed fields between signing and emission.

import (
	"fmt"
	"go/types"
	"strings"

	"golang.org/x/tools/go/ssa"
)

// pUnprot: the unprotected bucket's bytes of Headers pointer h.
func pUnprot(h *Term) *Term {
	return canon(&Term{Op: "choice", Args: []*Term{pLoad(pField(h, "RawUnprotected")), pEnc(pIface("UnprotectedHeader", pLoad(pField(h, "Unprotected"))))}})
}

// encoderWireValue: for a structure encoder, the term of the wire struct value
// handed to the encoder mode, the tag number (or -1) and the mode term.
func (P *Prog) encoderWireValue(enc *ssa.Function) (wire *Term, tag int64, mode *Term, why string) {
	return P.encoderWireValueD(enc, 8)
}

// encoderWireValueRaw: the same with only the encoder's own delegation
// inlined (helper calls inside the wire value stay as calls).
func (P *Prog) encoderWireValueRaw(enc *ssa.Function) (wire *Term, tag int64, mode *Term, why string) {
	return P.encoderWireValueD(enc, 0)
}

func (P *Prog) encoderWireValueD(enc *ssa.Function, depth int) (wire *Term, tag int64, mode *Term, why string) {
	t := P.terms.successResult(enc, 0)
	if t == nil {
		return nil, -1, nil, "no success result"
	}
	t = P.terms.expand(t, depth)
	// collect Enc(mode, X) alternatives
	var calls []*Term
	var collect func(u *Term)
	collect = func(u *Term) {
		switch u.Op {
		case "alt", "phi", "choice":
			for _, a := range u.Args {
				collect(a)
			}
		case "gate":
			collect(u.Args[1])
			collect(u.Args[2])
		case "res":
			if u.S == "0" && u.Args[0].Op == "call" && u.Args[0].S == "invoke:cbor.EncMode.Marshal" {
				calls = append(calls, u.Args[0])
			}
		}
	}
	collect(t)
	if len(calls) != 1 {
		return nil, -1, nil, fmt.Sprintf("encoder result is not a single EncMode.Marshal call (%d): %s", len(calls), truncate(t.String(), 200))
	}
	arg := calls[0].Args[1]
	mode = calls[0].Args[0]
	tag = -1
	if arg.Op == "iface" && arg.S == "cbor.Tag" {
		tv := arg.Args[0]
		num := projectField(tv, "Number")
		if n, ok := termConstInt(num); ok {
			tag = n
		} else {
			return nil, -1, mode, "tag number is not a constant: " + num.String()
		}
		arg = projectField(tv, "Content")
	}
	if arg.Op == "iface" {
		arg = arg.Args[0]
	}
	return arg, tag, mode, ""
}

// checkEncoderSlots: R01.3 / R09.3 encoder side.
func checkEncoderSlots(r *Report, rule string) {
	P := r.P
	n := 0
	for _, T := range P.structureTypes() {
		enc := P.methodOf(T, "MarshalCBOR")
		if enc == nil {
			continue
		}
		n++
		name := T.Obj().Name()
		wire, tag, mode, why := P.encoderWireValue(enc)
		o := r.ob(rule, name+":encoder-wire-value", enc, nil, "encoder hands a wire struct (tagged per the property's table) to the package encoder")
		if wire == nil {
			o.fail(why)
			continue
		}
		sh := expectedShapes[name]
		if _, known := expectedShapes[name]; !known {
			sh = shape{-1, 0}
			if v, ok := P.constVal("CBORTag" + name); ok {
				sh.tag = v
			}
		}
		g, isM := P.isModeLoad(mode, true)
		okMode := isM && encoderDeterministic(P, g) == ""
		o.check(okMode && tag == sh.tag, fmt.Sprintf("mode %s, tag %d", g, tag), fmt.Sprintf("deterministic package encoder: %v (%s); tag %d, expected %d", okMode, mode, tag, sh.tag))
		wc := canon(wire)
		h := pField(T0(), "Headers")
		for _, sl := range []struct {
			field string
			want  *Term
		}{{"Protected", pProt(h)}, {"Unprotected", pUnprot(h)}} {
			got := canon(projectField(wc, sl.field))
			os := r.ob(rule, name+":slot:"+sl.field, enc, nil, "wire slot "+sl.field+" is the bucket marshaler's result for the receiver's Headers")
			_, ok := unify(sl.want, got, bindings{})
			os.check(ok, truncate(got.String(), 100), firstDiff(sl.want, got, sl.field))
			// ... chosen the way the bucket marshaler chooses (raw bytes when
			// present): decision-table comparison with the marshaler's result
			if ok {
				mname := "(*Headers).Marshal" + sl.field
				exp := canon(P.terms.expand(&Term{Op: "res", S: "0", Args: []*Term{{Op: "call", S: mname, Args: []*Term{h}}}}, 8))
				eq, why := gateEquiv(exp, got)
				r.ob(rule, name+":slot-choice:"+sl.field, enc, nil, "wire slot "+sl.field+" selects among the marshaler's alternatives exactly as "+mname+" does").check(eq, "same decision table", why)
			}
		}
		st := T.Underlying().(*types.Struct)
		for i := 0; i < st.NumFields(); i++ {
			f := st.Field(i).Name()
			if f != "Payload" && f != "Signature" {
				continue
			}
			got := projectField(wc, f)
			want := pLoad(pField(T0(), f))
			r.ob(rule, name+":slot:"+f, enc, nil, "wire slot "+f+" is the message field").check(got.eq(want), got.String(), "wire slot "+f+" = "+truncate(got.String(), 160))
		}
	}
	r.floor(rule, n, 5, "structure encoders")
}

func T0() *Term { return T("param", "0") }

// checkDecoderSlots: R01.3 / R09.1 decoder side: stored fields come from the
// same-named slots of the decoded wire struct; raw buckets are captured and
// nothing on the success path rewrites them.
func checkDecoderSlots(r *Report, rule string) {
	P := r.P
	n := 0
	for _, T := range P.structureTypes() {
		D := P.methodOf(T, "UnmarshalCBOR")
		if D == nil {
			continue
		}
		n++
		name := T.Obj().Name()
		sts := P.receiverWrites(D)
		if len(sts) != 1 || !sts[0].complete {
			r.ob(rule, name+":stored-value", D, nil, "the decoder stores exactly one whole value").fail(fmt.Sprintf("%d assignments to the receiver (a field-wise one must cover every field)", len(sts)))
			continue
		}
		st := sts[0]
		sv := st.val
		// the value may be built by a helper that returns it (by value) next
		// to its verdict: what that helper returns on success
		if pv := P.pointeeOfHelperResult(sv); pv != nil {
			// *h(...): the value of the local whose address the helper returns
			sv = pv
		}
		for k := 0; k < 2 && (sv.Op == "res" || sv.Op == "call"); k++ {
			nv := P.expandOuter(sv)
			if nv.eq(sv) {
				break
			}
			sv = nv
		}
		V := P.headersThroughHelper(sv)
		type slot struct{ field, wire string }
		slots := []slot{{"Headers.RawProtected", "Protected"}, {"Headers.RawUnprotected", "Unprotected"}}
		stt := T.Underlying().(*types.Struct)
		for i := 0; i < stt.NumFields(); i++ {
			switch stt.Field(i).Name() {
			case "Payload":
				slots = append(slots, slot{"Payload", "Payload"})
			case "Signature":
				slots = append(slots, slot{"Signature", "Signature"})
			}
		}
		for _, sl := range slots {
			v := V
			for _, f := range strings.Split(sl.field, ".") {
				v = projectField(v, f)
			}
			ok := v.Op == "field" && v.S == sl.wire && v.Args[0].Op == "mod" && v.Args[0].Args[0].Op == "call" && v.Args[0].Args[0].S == "invoke:cbor.DecMode.Unmarshal"
			r.ob(rule, name+":field:"+sl.field, st.fn, st.at, "stored "+sl.field+" is the decoded wire struct's "+sl.wire+" slot").check(ok, truncate(v.String(), 100), "stored "+sl.field+" = "+truncate(v.String(), 200))
		}
	}
	r.floor(rule, n, 5, "structure decoders")
	// wire struct slot types
	for _, w := range P.wireStructs() {
		st := w.Underlying().(*types.Struct)
		for i := 0; i < st.NumFields(); i++ {
			f := st.Field(i)
			want := ""
			switch f.Name() {
			case "Protected", "Unprotected":
				want = "cbor.RawMessage"
			case "Payload", "Signature":
				want = shortType(P.bstrNilType())
			case "Signatures":
				want = "[]cbor.RawMessage"
			default:
				continue
			}
			r.ob(rule, w.Obj().Name()+"."+f.Name()+":type", nil, nil, "wire slot type keeps bytes verbatim (RawMessage) / distinguishes nil from empty (bstr-nil)").check(shortType(f.Type()) == want, want, "slot "+f.Name()+" has type "+shortType(f.Type())+", expected "+want)
		}
	}
}

// checkNoWriteAfterBuilder: R01.2 / R08.3: in every Sign method with a key
// site, nothing writes the signed fields (Headers.Protected, Headers.RawProtected,
// Payload) once the ToBeSigned builder has been called; in the sign-and-encode
// helpers nothing writes the message between Sign and MarshalCBOR.
func checkNoWriteAfterBuilder(r *Report, rule string) {
	P := r.P
	n := 0
	for _, s := range P.keySites() {
		if !s.sign || s.fn.Signature.Recv() == nil {
			continue
		}
		n++
		var builder ssa.Instruction
		if ex, ok := s.content.(*ssa.Extract); ok {
			builder, _ = ex.Tuple.(ssa.Instruction)
		} else if c, ok := s.content.(*ssa.Call); ok {
			builder = c
		}
		o := r.ob(rule, shortFn(s.fn)+":no-write-after-builder", s.fn, s.call, "no write to the signed header/payload fields after ToBeSigned was computed")
		if builder == nil {
			o.fail("content of the signer invoke is not a call result")
			continue
		}
		bad := ""
		after := reachableAfter(builder)
		for _, in := range after {
			for _, l := range writesOf(P, in) {
				if l.Kind == "param" && l.Param == 0 && len(l.Path) > 0 {
					p := strings.Join(l.Path, "/")
					if strings.HasPrefix(p, "Headers/Protected") || strings.HasPrefix(p, "Headers/RawProtected") || strings.HasPrefix(p, "Payload") {
						bad = fmt.Sprintf("%s writes %s after the builder call", P.instrPos(in), l)
					}
				}
			}
		}
		o.check(bad == "", fmt.Sprintf("%d instructions after the builder, none writes the signed fields", len(after)), bad)
	}
	r.floor(rule, n, 3, "Sign methods with a key site")
	// helpers: Sign then MarshalCBOR on a local message
	entry := map[*ssa.Function]bool{}
	for _, fn := range P.signEntryPoints() {
		entry[fn] = true
	}
	var judge func(top, fn *ssa.Function, depth int)
	judge = func(top, fn *ssa.Function, depth int) {
		var signCall, encCall ssa.CallInstruction
		for _, ci := range callsIn(fn, nil) {
			c := staticCallee(ci)
			if c == nil || !P.inPkg(c) || c.Signature.Recv() == nil {
				continue
			}
			switch c.Name() {
			case "Sign":
				signCall = ci
			case "MarshalCBOR":
				if P.isStructureType(deref(c.Signature.Recv().Type())) {
					encCall = ci
				}
			}
		}
		switch {
		case signCall != nil && encCall != nil:
		case encCall != nil:
			// the message is encoded here but was signed somewhere else
			r.ob(rule, shortFn(top)+":sign-then-encode", fn, encCall, "the message that was signed is the one that is encoded, unmodified in between").fail("the helper encodes a message value that is not the object its Sign method was called on (the signing happened on another copy: what the signing gate wrote there is not emitted)")
			return
		default:
			// neither: the bytes come from a helper this one delegates to
			if depth >= 2 {
				return
			}
			for _, x := range P.factsOf(fn).exits {
				if x.kind == exitFailure || !x.delegated {
					continue
				}
				if c := delegCall(x.errTerm); c != nil {
					if h := P.calleeOfTerm(c); h != nil && !entry[h] && h.Signature.Recv() == nil {
						judge(top, h, depth+1)
					}
				}
			}
			return
		}
		o := r.ob(rule, shortFn(top)+":sign-then-encode", fn, encCall, "the message that was signed is the one that is encoded, unmodified in between")
		sameRecv := P.terms.of(signCall.Common().Args[0]).eq(P.terms.of(encCall.Common().Args[0]))
		bad := ""
		for _, in := range reachableAfter(signCall) {
			if in == ssa.Instruction(encCall) {
				break
			}
			if len(writesOf(P, in)) > 0 {
				bad = "write between Sign and MarshalCBOR at " + P.instrPos(in)
			}
			if st, ok := in.(*ssa.Store); ok {
				root, _ := P.terms.addrPath(st.Addr)
				if _, isAlloc := root.(*ssa.Alloc); isAlloc && P.terms.of(root).eq(P.terms.of(signCall.Common().Args[0])) {
					bad = "the signed message is modified before it is encoded at " + P.instrPos(st)
				}
			}
		}
		o.check(sameRecv && bad == "", "same local message, no write in between", fmt.Sprintf("same receiver: %v; %s", sameRecv, bad))
	}
	for _, fn := range P.signEntryPoints() {
		if fn.Signature.Recv() != nil || fn.Signature.Results().Len() != 2 || !isByteSlice(fn.Signature.Results().At(0).Type()) {
			continue
		}
		judge(fn, fn, 0)
	}
}

// reachableAfter: the instructions that can execute after in (same block tail
// plus all blocks reachable from it).
func reachableAfter(in ssa.Instruction) []ssa.Instruction {
	var out []ssa.Instruction
	b := in.Block()
	idx := 0
	for i, x := range b.Instrs {
		if x == in {
			idx = i + 1
		}
	}
	out = append(out, b.Instrs[idx:]...)
	seen := map[*ssa.BasicBlock]bool{}
	work := append([]*ssa.BasicBlock{}, b.Succs...)
	for len(work) > 0 {
		x := work[0]
		work = work[1:]
		if seen[x] {
			continue
		}
		seen[x] = true
		if x == b {
			// loop back into the same block: instructions before `in` too
			out = append(out, x.Instrs[:idx]...)
		} else {
			out = append(out, x.Instrs...)
		}
		work = append(work, x.Succs...)
	}
	return out
}

// checkEncodersRefuseEmptySignature: every structure encoder with a Signature
// field carries len(recv.Signature) != 0 on its success exits (R20.3 / R08.5).
func checkEncodersRefuseEmptySignature(r *Report, rule string) {
	P := r.P
	for _, n := range P.structureTypes() {
		st := n.Underlying().(*types.Struct)
		hasSig := false
		for i := 0; i < st.NumFields(); i++ {
			if st.Field(i).Name() == "Signature" {
				hasSig = true
			}
		}
		fn := P.methodOf(n, "MarshalCBOR")
		if fn == nil || !hasSig {
			continue
		}
		sg := pLoad(pField(T0(), "Signature"))
		for _, x := range P.factsOf(fn).exits {
			if x.kind == exitFailure {
				continue
			}
			r.ob(rule, shortFn(fn)+":nonempty-signature:"+exitID(P, fn, x), fn, x.ret, "encoder refuses an empty signature").check(exitFacts(P, x).holdsNonEmpty(sg), "fact len(*$0.Signature)!=0", "a non-failure exit of the encoder is reachable with an empty signature")
		}
	}
}

// headersThroughHelper: when the Headers of a stored value are result 0 of an
// in-package helper with a single delivered value, that value (in the
// caller's terms) replaces the call so that the raw fields can be read off.
func (P *Prog) headersThroughHelper(V *Term) *Term {
	HV := projectField(V, "Headers")
	if !(HV.Op == "res" && HV.S == "0" && HV.Args[0].Op == "call") {
		return V
	}
	if r := P.expandOuter(HV); r != HV && !r.eq(HV) {
		return updatePath(V, []string{"Headers"}, r)
	}
	return V
}

// pointeeOfHelperResult: t is *res<0>(h(args)) where every delivering exit of
// the in-package helper h returns the address of one local: the value that
// local holds at the exit (parameters substituted), or nil.
func (P *Prog) pointeeOfHelperResult(t *Term) *Term {
	if t.Op != "load" || len(t.Args) != 1 {
		return nil
	}
	r := t.Args[0]
	if !(r.Op == "res" && r.S == "0" && len(r.Args) == 1 && r.Args[0].Op == "call") {
		return nil
	}
	call := r.Args[0]
	h := P.calleeOfTerm(call)
	if h == nil {
		return nil
	}
	m := map[string]*Term{}
	for i, a := range call.Args {
		m[itoa(int64(i))] = a
	}
	var out *Term
	for _, hx := range P.factsOf(h).exits {
		if hx.kind == exitFailure {
			continue
		}
		a, ok := hx.ret.Results[0].(*ssa.Alloc)
		if !ok {
			return nil
		}
		v := P.terms.loadPath(a, nil, hx.ret).subst(m)
		if out != nil && !out.eq(v) {
			return nil
		}
		out = v
	}
	return out
}

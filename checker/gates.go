package main

// Decision-table comparison of two value terms that contain gate(cond, a, b)
// nodes: for every consistent truth assignment of the conditions occurring in
// either term both must select the same alternative. Used where a pattern of
// unordered alternatives would not notice that the *choice* among the same
// alternatives has changed (e.g. raw bytes no longer preferred).

import (
	"fmt"
	"sort"
)

func gateConds(t *Term, into map[string]*Term) {
	if t == nil {
		return
	}
	if t.Op == "gate" && len(t.Args) == 3 {
		into[t.Args[0].String()] = t.Args[0]
	}
	for _, a := range t.Args {
		gateConds(a, into)
	}
}

func evalGates(t *Term, asg map[string]bool) *Term {
	if t == nil {
		return nil
	}
	if t.Op == "gate" && len(t.Args) == 3 {
		if v, ok := asg[t.Args[0].String()]; ok {
			if v {
				return evalGates(t.Args[1], asg)
			}
			return evalGates(t.Args[2], asg)
		}
	}
	if len(t.Args) == 0 {
		return t
	}
	args := make([]*Term, len(t.Args))
	ch := false
	for i, a := range t.Args {
		args[i] = evalGates(a, asg)
		if args[i] != a {
			ch = true
		}
	}
	if !ch {
		return t
	}
	return normalize(&Term{Op: t.Op, S: t.S, Args: args})
}

// gateEquiv: a and b select equal alternatives under every consistent
// assignment of their gate conditions.
func gateEquiv(a, b *Term) (bool, string) {
	cs := map[string]*Term{}
	gateConds(a, cs)
	gateConds(b, cs)
	keys := make([]string, 0, len(cs))
	for k := range cs {
		keys = append(keys, k)
	}
	sort.Strings(keys)
	if len(keys) > 10 {
		return false, fmt.Sprintf("too many conditions (%d) to compare", len(keys))
	}
	for m := 0; m < 1<<len(keys); m++ {
		asg := map[string]bool{}
		p := &Path{}
		for i, k := range keys {
			v := m&(1<<i) != 0
			asg[k] = v
			p.conds = append(p.conds, normFact(cs[k], v))
		}
		if !p.feasible() {
			continue
		}
		va, vb := canon(evalGates(a, asg)), canon(evalGates(b, asg))
		if !va.eq(vb) {
			desc := ""
			for _, c := range p.conds {
				desc += " " + truncate(c.String(), 60) + ";"
			}
			return false, fmt.Sprintf("when%s one side yields %s, the other %s", desc, truncate(va.String(), 100), truncate(vb.String(), 100))
		}
	}
	return true, ""
}

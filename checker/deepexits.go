package main

// deepExits: the exits of a function where an exit that hands through the
// whole result tuple of an in-package helper (accepted by `through`) is
// replaced by that helper's own exits, with facts and results substituted
// into the caller's terms. Extracting the tail of a method into a helper
// (also one that receives a method value) leaves the deep exits unchanged.

import (
	"strconv"

	"golang.org/x/tools/go/ssa"
)

func (P *Prog) deepExits(fn *ssa.Function, through func(*ssa.Function) bool) []*exitInfo {
	return P.deepExitsD(fn, through, 0, map[*ssa.Function]bool{fn: true})
}

func (P *Prog) deepExitsD(fn *ssa.Function, through func(*ssa.Function) bool, depth int, on map[*ssa.Function]bool) []*exitInfo {
	var out []*exitInfo
	for _, x := range P.factsOf(fn).exits {
		var call *Term
		if depth < 3 && len(x.results) > 0 {
			for i, r := range x.results {
				var c *Term
				switch {
				case len(x.results) == 1 && r.Op == "call":
					c = r
				case r.Op == "res" && r.S == strconv.Itoa(i) && len(r.Args) == 1 && r.Args[0].Op == "call":
					c = r.Args[0]
				}
				if c == nil || (call != nil && !c.eq(call)) {
					call = nil
					break
				}
				call = c
			}
		}
		var h *ssa.Function
		if call != nil {
			h = P.calleeOfTerm(call)
			if h != nil && (!P.inPkg(h) || on[h] || h.Blocks == nil || h.Signature.Results().Len() != len(x.results) || (through != nil && !through(h))) {
				h = nil
			}
		}
		if h == nil {
			out = append(out, x)
			continue
		}
		m := map[string]*Term{}
		for i, a := range call.Args {
			m[strconv.Itoa(i)] = a
		}
		on[h] = true
		for _, hx := range P.deepExitsD(h, through, depth+1, on) {
			nx := &exitInfo{ret: x.ret, pred: x.pred, facts: x.facts.clone()}
			for _, f := range hx.facts {
				nx.facts.add(normFact(P.inlineTrivialTerms(f.Pred.subst(m)), f.Val))
			}
			for _, r := range hx.results {
				nx.results = append(nx.results, P.inlineTrivialTerms(r.subst(m)))
			}
			if ei := errIndex(fn); ei >= 0 && ei < len(nx.results) {
				nx.errTerm = nx.results[ei]
				nx.kind, nx.delegated = P.classifyErr(nx.errTerm, nx.facts)
			} else {
				nx.kind = exitSuccess
			}
			out = append(out, nx)
		}
		delete(on, h)
	}
	return out
}

// expandErr: an error value that is the result of an in-package function
// (also a function literal) is replaced by the alternatives that function
// returns on its failure exits, so that "which sentinel does this wrap" can be
// read off the term.
func (P *Prog) expandErr(t *Term, depth int) *Term {
	if depth > 2 {
		return t
	}
	call, idx := t, 0
	if t.Op == "res" && len(t.Args) == 1 && t.Args[0].Op == "call" {
		call = t.Args[0]
		idx, _ = strconv.Atoi(t.S)
	}
	if call.Op != "call" {
		return t
	}
	g := P.calleeOfTerm(call)
	if g == nil || g.Blocks == nil || errIndex(g) != idx {
		return t
	}
	fr := P.factsOf(g)
	if fr.busy {
		return t
	}
	m := map[string]*Term{}
	for i, a := range call.Args {
		m[strconv.Itoa(i)] = a
	}
	var alts []*Term
	for _, x := range fr.exits {
		if x.kind == exitSuccess && !x.delegated {
			continue
		}
		alts = append(alts, P.expandErr(x.errTerm.subst(m), depth+1))
	}
	if len(alts) == 0 {
		return t
	}
	if len(alts) == 1 {
		return alts[0]
	}
	return canon(&Term{Op: "alt", Args: alts})
}

package main

// C18 — verification and encoding are read-only and safe to run concurrently.

import (
	"fmt"
	"go/types"
	"sort"
	"strings"

	"golang.org/x/tools/go/ssa"
)

func init() {
	register(&propSpec{id: "C18", title: "read paths write no shared memory; signers are stateless; package state is init-only", run: runC18, mutants: mutC18, design: "DESIGN.md section 3, C18"})
}

// readEntryPoints: the operations the property calls read-only.
func (P *Prog) readEntryPoints() []*ssa.Function {
	var out []*ssa.Function
	out = append(out, P.verifyEntryPoints()...)
	out = append(out, P.methodsNamed("MarshalCBOR", "")...)
	out = append(out, P.builtinVerifierMethods()...)
	for _, fn := range P.Funcs {
		if fn.Signature.Recv() == nil || fn.Object() == nil || !fn.Object().Exported() || fn.Parent() != nil {
			continue
		}
		rt := deref(fn.Signature.Recv().Type())
		switch {
		case isNamed(rt, cosePath, "Key") && fn.Name() != "UnmarshalCBOR":
			out = append(out, fn)
		case isNamed(rt, cosePath, "ProtectedHeader") && fn.Signature.Params().Len() == 0:
			out = append(out, fn)
		case isNamed(rt, cosePath, "Headers") && fn.Signature.Params().Len() == 0 && strings.HasPrefix(fn.Name(), "Marshal"):
			out = append(out, fn)
		}
	}
	// Algorithm() of every built-in signer/verifier
	out = append(out, P.implementors(P.iface("Verifier"), "Algorithm")...)
	out = append(out, P.implementors(P.iface("Signer"), "Algorithm")...)
	return uniqFuncs(out)
}

func writeList(ws []effWrite, P *Prog) string {
	var l []string
	for _, w := range ws {
		via := ""
		if len(w.via) > 0 {
			via = " via " + strings.Join(w.via, ">")
		}
		l = append(l, fmt.Sprintf("%s (%s at %s%s)", w.loc(), w.what, P.instrPos(w.instr), via))
	}
	sort.Strings(l)
	if len(l) > 6 {
		l = append(l[:6], fmt.Sprintf("... %d more", len(l)-6))
	}
	return strings.Join(l, "; ")
}

// checkSignWrites (R18.2, second half; shared with C01 and C02: what Sign
// leaves behind is what Verify and the encoder read): a structure's Sign
// writes only the signature and the protected map of its own receiver - in
// particular not the retained raw header bytes the ToBeSigned was built from.
func checkSignWrites(r *Report, rule string) {
	P := r.P
	nss := 0
	for _, fn := range P.signEntryPoints() {
		nss++
		s := P.effects.summary(fn)
		var bad []effWrite
		for _, w := range s.writes {
			okw := false
			if fn.Signature.Recv() != nil && w.kind == "param" && w.param == 0 {
				p := strings.Join(w.path, "/")
				switch {
				case p == "Signature", p == "Headers/Protected", strings.HasPrefix(p, "Headers/Protected/[*]"):
					okw = true
				case strings.HasPrefix(p, "Signatures/[*]/Signature"), strings.HasPrefix(p, "Signatures/[*]/Headers/Protected"):
					okw = true // COSE_Sign: the per-signer slots
				}
			}
			// sign-and-encode helpers build the message from a Headers
			// parameter passed by value: its protected map IS the message's
			// protected header (the algorithm injection lands there)
			if fn.Signature.Recv() == nil && w.kind == "param" && w.param < len(fn.Params) && isNamed(fn.Params[w.param].Type(), cosePath, "Headers") {
				if p := strings.Join(w.path, "/"); p == "Protected" || strings.HasPrefix(p, "Protected/[*]") {
					okw = true
				}
			}
			if !okw {
				bad = append(bad, w)
			}
		}
		r.ob(rule, shortFn(fn)+":writes", fn, nil, "Sign writes only its own receiver's Signature / protected header").check(len(bad) == 0, fmt.Sprintf("%d writes, all under the receiver's signing slots", len(s.writes)), "writes "+writeList(bad, P))
	}
	r.floor(rule, nss, 8, "sign entry points")
}

func runC18(r *Report, tier string) {
	P := r.P
	r.rule("R18.1", "for every read entry point (Verify x7, MarshalCBOR x8, MarshalProtected/Unprotected, Key conversion and accessor methods, protected-header accessors, built-in Verify/VerifyDigest/Algorithm) the interprocedural write set restricted to memory that existed before the call (receiver, parameters, globals, memory of unknown origin) is empty; append/copy/delete on a non-fresh slice or map count as writes; calls that cannot be summarised (dynamic calls, external callees without a contract receiving non-fresh references) count as writes.")
	r.rule("R18.2", "built-in Sign/SignDigest write nothing that existed before the call; a structure's Sign writes only under its own receiver (Headers.Protected, its entries, Signature) and never through the signer, rand, parent or payload arguments.")
	r.rule("R18.3", "package state is init-only: every store to a package-level variable is in init; no function writes through a package-level slice, map or pointer; the package starts no goroutine and uses no channel, select or sync primitive.")
	r.assumes("A5: EncMode/DecMode values are immutable and safe for concurrent use", "crypto/* verification functions and crypto.Signer implementations do not mutate their key; user-supplied Signer/Verifier implementations are the user's responsibility", "memory is fresh when allocated in the activation (make/new/composite literal, result of a contract-table function marked fresh, value decoded by a CBOR mode into a fresh destination)")

	eps := P.readEntryPoints()
	r.floor("R18.1", len(eps), 35, "read entry points")
	for _, fn := range eps {
		s := P.effects.summary(fn)
		o := r.ob("R18.1", shortFn(fn)+":writes", fn, nil, "write set on pre-existing memory is empty")
		reach := P.reachable([]*ssa.Function{fn})
		for f := range reach {
			r.analysed(f)
		}
		r.sites += len(reach)
		o.check(len(s.writes) == 0, fmt.Sprintf("empty write set over %d reachable functions", len(reach)), "writes "+writeList(s.writes, P))
		if len(s.notes) > 0 && len(s.writes) == 0 {
			r.notes = append(r.notes, shortFn(fn)+": "+strings.Join(s.notes, "; "))
		}
	}
	// R18.2
	var signers []*ssa.Function
	signers = append(signers, P.implementors(P.iface("Signer"), "Sign")...)
	signers = append(signers, P.implementors(P.iface("DigestSigner"), "SignDigest")...)
	signers = uniqFuncs(signers)
	r.floor("R18.2", len(signers), 6, "built-in signer methods")
	for _, fn := range signers {
		s := P.effects.summary(fn)
		r.ob("R18.2", shortFn(fn)+":stateless", fn, nil, "built-in signer writes nothing that existed before the call").check(len(s.writes) == 0, "empty write set", "writes "+writeList(s.writes, P))
	}
	checkSignWrites(r, "R18.2")

	// R18.3
	ng := 0
	for _, m := range P.SPkg.Members {
		g, ok := m.(*ssa.Global)
		if !ok || strings.HasPrefix(g.Name(), "init$") {
			continue
		}
		ng++
		for _, st := range P.globalStores(g) {
			if !isInitFunc(st.Parent()) {
				r.ob("R18.3", g.Name()+":store:"+shortFn(st.Parent()), st.Parent(), st, "package variable is only assigned in init").fail("store to package variable " + g.Name() + " outside init")
			}
		}
	}
	r.ob("R18.3", "globals:init-only", nil, nil, "all stores to package variables are in init").ok(fmt.Sprintf("%d package variables examined", ng), true)
	for _, fn := range P.Funcs {
		if isInitFunc(fn) {
			continue
		}
		var gw []effWrite
		for _, w := range P.effects.summary(fn).writes {
			if w.kind == "global" {
				gw = append(gw, w)
			}
		}
		if len(gw) > 0 {
			r.ob("R18.3", shortFn(fn)+":global-write", fn, nil, "no write through package-level state").fail("writes " + writeList(gw, P))
		}
		for _, b := range fn.Blocks {
			for _, in := range b.Instrs {
				switch in := in.(type) {
				case *ssa.Go:
					r.ob("R18.3", shortFn(fn)+":go", fn, in, "the package starts no goroutine").fail("go statement")
				case *ssa.Send, *ssa.Select, *ssa.MakeChan:
					r.ob("R18.3", shortFn(fn)+":chan", fn, in.(ssa.Instruction), "the package uses no channels").fail("channel operation")
				case ssa.CallInstruction:
					if c := in.Common().StaticCallee(); c != nil && c.Pkg != nil && (c.Pkg.Pkg.Path() == "sync" || c.Pkg.Pkg.Path() == "sync/atomic") {
						r.ob("R18.3", shortFn(fn)+":sync", fn, in, "the package uses no sync primitive (there is no shared state to guard)").fail("call of " + shortFn(c))
					}
				}
			}
		}
	}
	// no package-level variable of a sync type or a mutable cache (map/slice of non-constant content)
	for _, m := range P.SPkg.Members {
		g, ok := m.(*ssa.Global)
		if !ok {
			continue
		}
		t := deref(g.Type())
		if n, ok := t.(*types.Named); ok && n.Obj().Pkg() != nil && strings.HasPrefix(n.Obj().Pkg().Path(), "sync") {
			r.ob("R18.3", g.Name()+":sync-type", nil, nil, "no package-level synchronisation object / cache").fail("package variable " + g.Name() + " has type " + shortType(t))
		}
	}
}

func mutC18() []mutant {
	return []mutant{
		{Name: "MarshalProtected caches the encoding in RawProtected", File: "headers.go", Quick: true, Rule: "R18.1",
			Old: "\treturn encMode.Marshal(h.Protected)\n}", New: "\tb, err := encMode.Marshal(h.Protected)\n\tif err == nil {\n\t\th.RawProtected = b\n\t}\n\treturn b, err\n}"},
		{Name: "verify gate normalises alg in the header map", File: "headers.go", Rule: "R18.1",
			Old: "\t\tif candidate != alg {\n\t\t\treturn fmt.Errorf(\"%w: verifier %v: header %v\", ErrAlgorithmMismatch, alg, candidate)\n\t\t}\n\t\treturn nil", New: "\t\tif candidate != alg {\n\t\t\treturn fmt.Errorf(\"%w: verifier %v: header %v\", ErrAlgorithmMismatch, alg, candidate)\n\t\t}\n\t\th.Protected.SetAlgorithm(candidate)\n\t\treturn nil"},
		{Name: "Key.MarshalCBOR pads the x coordinate in place", File: "key.go", Rule: "R18.1",
			Old: "\t\t\t\ttmp[KeyLabelEC2X] = append(make([]byte, size-len(x), size), x...)", New: "\t\t\t\tk.Params[KeyLabelEC2X] = append(make([]byte, size-len(x), size), x...)\n\t\t\t\ttmp[KeyLabelEC2X] = k.Params[KeyLabelEC2X]"},
		{Name: "toBeSigned uses a package-level scratch slice", File: "sign1.go", Quick: true, Rule: "R18.3",
			Old: "\tsigStructure := []any{\n\t\t\"Signature1\", // context", New: "\tsign1MessagePrefix = append(sign1MessagePrefix[:0], 0xd2, 0x84)\n\tsigStructure := []any{\n\t\t\"Signature1\", // context"},
		{Name: "ecdsa verifier memoises the last digest", File: "ecdsa.go", Rule: "R18.1",
			Old: "func (ev *ecdsaVerifier) VerifyDigest(digest []byte, signature []byte) error {\n", New: "func (ev *ecdsaVerifier) VerifyDigest(digest []byte, signature []byte) error {\n\tev.alg = ev.alg + 0\n"},
		{Name: "head normaliser reuses the caller's buffer", File: "cbor.go", Rule: "R18.1",
			Old: "\treturn encMode.Marshal(s)\n}", New: "\tenc, err := encMode.Marshal(s)\n\tif err != nil {\n\t\treturn nil, err\n\t}\n\treturn append(data[:0], enc...), nil\n}"},
		{Name: "rsa signer counts its signatures", File: "rsa.go", Rule: "R18.2",
			Old: "func (rs *rsaSigner) SignDigest(rand io.Reader, digest []byte) ([]byte, error) {\n", New: "func (rs *rsaSigner) SignDigest(rand io.Reader, digest []byte) ([]byte, error) {\n\trs.alg = rs.alg + 0\n"},
		{Name: "Sign1Message.Sign writes the unprotected header", File: "sign1.go", Rule: "R18.2",
			Old: "\tm.Signature = sig\n\treturn nil\n}\n\n// Verify verifies the signature on the Sign1Message", New: "\tm.Signature = sig\n\tif m.Headers.Unprotected != nil {\n\t\tm.Headers.Unprotected[\"signed\"] = true\n\t}\n\treturn nil\n}\n\n// Verify verifies the signature on the Sign1Message"},
		{Name: "validate writes the derived algorithm back", File: "key.go", Rule: "R18.1",
			Old: "func (k *Key) AlgorithmOrDefault() (Algorithm, error) {\n\tif k.Algorithm != AlgorithmReserved {\n\t\treturn k.Algorithm, nil\n\t}\n\n\treturn k.deriveAlgorithm()", New: "func (k *Key) AlgorithmOrDefault() (Algorithm, error) {\n\tif k.Algorithm != AlgorithmReserved {\n\t\treturn k.Algorithm, nil\n\t}\n\n\talg, err := k.deriveAlgorithm()\n\tif err == nil {\n\t\tk.Algorithm = alg\n\t}\n\treturn alg, err"},
	}
}

package main

// C01 — every signed message verifies, in memory and after a wire round trip
// (structural core: sign and verify feed the same bytes to the key; what is
// signed is what is emitted and what the decoder hands back).

import (
	"fmt"
	"go/types"
	"strings"

	"golang.org/x/tools/go/ssa"
)

func init() {
	register(&propSpec{id: "C01", title: "sign/verify agreement, signed = emitted, wire slots, builder determinism", run: runC01, mutants: mutC01, design: "DESIGN.md section 3, C01"})
}

// roleNormalise renames the parameters of fn inside t by role: receiver stays
// $0; every other parameter becomes <type>#<ordinal among parameters of that
// type>, skipping io.Reader / Signer / Verifier parameters.
func roleNormalise(fn *ssa.Function, t *Term) *Term {
	m := map[string]*Term{}
	count := map[string]int{}
	for i, p := range fn.Params {
		if i == 0 && fn.Signature.Recv() != nil {
			continue
		}
		ts := shortType(p.Type())
		switch ts {
		case "io.Reader", "Signer", "Verifier":
			m[fmt.Sprint(i)] = T("role", ts)
			continue
		}
		if ts == "cbor.RawMessage" {
			ts = "bodyprotected"
		}
		m[fmt.Sprint(i)] = T("role", fmt.Sprintf("%s#%d", ts, count[ts]))
		count[ts]++
	}
	return t.subst(m)
}

func runC01(r *Report, tier string) {
	P := r.P
	// round 6: keys built from COSE_Key, and what Sign leaves behind
	r.rule("R14.3", "(shared with C14) a key that went through Key.MarshalCBOR is still the key: x, y and d are left-padded to the size of the key's own curve (a right-padded d decodes to another scalar, and a message signed with it does not verify).")
	checkKeyPadding(r, "R14.3")
	r.rule("R18.2", "(shared with C18) a structure's Sign writes only its signature and its own protected map: the retained raw header bytes the ToBeSigned was built from are still there when Verify and the encoder read them.")
	checkSignWrites(r, "R18.2")
	r.rule("R01.1", "sign/verify builder agreement: for each structure kind (Sign1, Signature, full and abbreviated countersignature) the content terms at the sign and verify key sites are equal after renaming parameters by role; the verify site's signature operand is the receiver's Signature field (the abbreviated form: its signature parameter); untagged Sign1 and COSE_Sign delegate to those methods.")
	r.rule("R01.2", "signed bytes = emitted bytes: the encoder's protected slot is the same ProtBytes(recv.Headers) that the ToBeSigned term reads; no write to Headers.Protected / RawProtected / Payload can execute after the builder was called; the sign-and-encode helpers encode the very message they signed.")
	r.rule("R01.3", "wire slots are the message fields: encoder slots Payload/Signature are the receiver's fields and the bucket slots the bucket marshalers' results; decoder fields come from the same-named slots of the decoded wire struct; slot types are RawMessage for buckets and the bstr/nil type for payload and signature (nil <-> f6, detached payloads survive).")
	r.rule("R07.3", "no narrowing of the decoder: MaxNestedLevels, MaxArrayElements, MaxMapPairs of every decode mode are unset (library defaults), so everything the encoder emits within those defaults can be decoded again.")
	r.rule("R04.2", "both algorithm gates succeed only when (a) alg equals, (b) alg absent and len(external) > 0, (c) sign side: alg inserted - the same predicate on both sides, so a message signed without alg is verifiable with the same external data.")
	r.rule("R01.5", "builder purity: the functions that compute ToBeSigned (and their call trees) write no memory that existed before the call, so computing it again - on verify after sign, on a second verify, for a countersignature over the same parent - reads the same bytes.")
	r.rule("R08.6", "(shared) a countersignature header value is refused by the decoders only after both its single-object and list form failed to decode.")
	r.rule("R01.4", "builder determinism: the ToBeSigned terms contain no call outside the CBOR modes and in-package helpers, and read no package state other than the modes.")
	r.assumes("the crypto primitives accept their own signatures; the CBOR library round-trips byte strings (A2/A4); a key built from a COSE_Key is the matching key (C14's structural part)")

	sites := P.keySites()
	r.sites += len(sites)
	type pair struct{ sign, verify *keySite }
	pairs := map[string]*pair{}
	for _, s := range sites {
		k := siteKind(s)
		if k == "Countersign0" || k == "VerifyCountersign0" {
			k = "abbreviated countersignature"
		}
		if pairs[k] == nil {
			pairs[k] = &pair{}
		}
		if s.sign {
			pairs[k].sign = s
		} else {
			pairs[k].verify = s
		}
	}
	r.floor("R01.1", len(pairs), 4, "structure kinds with key sites")
	for k, pr := range pairs {
		o := r.ob("R01.1", k+":agreement", nil, nil, "sign and verify sites of "+k+" hand the same bytes to the key")
		if pr.sign == nil || pr.verify == nil {
			o.fail("kind has a key site on one side only")
			continue
		}
		a := roleNormalise(pr.sign.fn, P.contentTerm(pr.sign))
		b := roleNormalise(pr.verify.fn, P.contentTerm(pr.verify))
		r.sample(map[string]any{"kind": k, "sign_site": shortFn(pr.sign.fn), "verify_site": shortFn(pr.verify.fn), "content_term_chars": len(a.String())})
		if !a.eq(b) {
			o.fail("content terms differ: " + firstDiff(a, b, "content"))
		} else {
			o.ok(fmt.Sprintf("equal terms (%d characters) after role renaming", len(a.String())), true)
		}
		// signature operand of the verify site
		sg := P.terms.of(pr.verify.sig)
		o2 := r.ob("R01.1", k+":verified-signature", pr.verify.fn, pr.verify.call, "the verify site checks the signature field the sign site fills")
		if pr.verify.fn.Signature.Recv() != nil {
			o2.check(sg.String() == "*$0.Signature", sg.String(), "verify site checks "+sg.String()+", not the receiver's Signature")
		} else {
			o2.check(sg.Op == "param", sg.String(), "abbreviated verify site checks "+sg.String()+", not its signature parameter")
		}
		// R01.4
		o4 := r.ob("R01.4", k+":deterministic-builder", pr.sign.fn, pr.sign.call, "ToBeSigned is a function of the message and parameters only")
		bad := ""
		a.walk(func(u *Term) {
			if u.Op == "call" && !strings.HasPrefix(u.S, "invoke:cbor.") && P.calleeOfTerm(u) == nil {
				bad = "external call " + u.S
			}
			if u.Op == "global" {
				if g := P.global(u.S); g == nil || !(isCBORNamed(deref(g.Type()), "EncMode") || isCBORNamed(deref(g.Type()), "DecMode")) {
					bad = "package variable " + u.S
				}
			}
			if u.Op == "rec" || u.Op == "dirty" || u.Op == "opaque" {
				bad = "unresolved subterm " + u.String()
			}
		})
		o4.check(bad == "", "only CBOR modes and in-package helpers", "the signed bytes depend on "+bad)
	}
	checkBuilderPurity(r, "R01.5")
	// delegation of untagged / COSE_Sign is R02.1's; here: SignMessage elements use the Signature methods (R11.4)
	checkNoWriteAfterBuilder(r, "R01.2")
	// "after a wire round trip": what the encoders can emit under the
	// countersignature labels is not refused by head byte, and the decoded
	// value owns its bytes (C19's rules)
	if cs := P.countersigValueDecoder(); cs != nil {
		checkCountersigValueRefusal(r, "R08.6", cs)
	}
	runC19(r, tier)
	// protected operand of the sign term == encoder protected slot: both are PROT($0.Headers)
	for _, T := range P.structureTypes() {
		name := T.Obj().Name()
		enc := P.methodOf(T, "MarshalCBOR")
		if enc == nil {
			continue
		}
		wire, _, _, why := P.encoderWireValue(enc)
		o := r.ob("R01.2", name+":emitted-protected-is-signed-protected", enc, nil, "the protected bytes emitted are the ones the ToBeSigned term reads")
		if wire == nil {
			o.fail(why)
			continue
		}
		got := canon(projectField(canon(wire), "Protected"))
		_, ok := unify(pProt(pField(T0(), "Headers")), got, bindings{})
		why = "encoder emits " + truncate(got.String(), 200)
		if ok {
			// the same selection among raw bytes / encoded map as the bucket
			// marshaler the ToBeSigned builders call
			exp := canon(P.terms.expand(&Term{Op: "res", S: "0", Args: []*Term{{Op: "call", S: "(*Headers).MarshalProtected", Args: []*Term{pField(T0(), "Headers")}}}}, 8))
			if eq, w := gateEquiv(exp, got); !eq {
				ok, why = false, "the emitted protected bytes are not selected as the signed ones are: "+w
			}
		}
		o.check(ok, "ProtBytes($0.Headers) on both sides (R02.1 gives the signing side)", why)
	}
	// the decoder must accept what the encoder can emit: limits not narrowed
	checkDecoderLimits(r, "R07.3")
	// sign and verify gates tolerate a missing alg under the same condition
	checkGatesOnly(r)
	// what the signing side emits, the verifying side accepts: ES* signatures
	// sized by the key's own curve on both key kinds; protected values the
	// encoder admits (tags) are not refused by the decoder's label pre-pass
	r.rule("R16.2", "(shared with C16) every built-in ES* SignDigest returns the encode helper's result for the key's own curve over the key's (r, s).")
	checkECDSASignDigestPaths(r, "R16.2")
	r.rule("R07.5", "(shared with C07) the bucket decoders test exact major types and decode the protected content only with a tag-admitting mode.")
	c05Buckets(r, "R07.5")
	checkEncoderSlots(r, "R01.3")
	checkDecoderSlots(r, "R01.3")
	// payload nil <-> f6: the bstr/nil decoder (R05.6) and the wire type are the carriers
	bn := P.bstrNilType()
	_, isSlice := bn.Underlying().(*types.Slice)
	r.ob("R01.3", "bstr-nil:type", nil, nil, "the payload/signature slot type is a byte-slice type with its own decoder (nil <-> f6)").check(isSlice && P.methodOf(bn, "UnmarshalCBOR") != nil, shortType(bn), "slot type "+shortType(bn)+" is not a byte slice with a decoder")
}

func mutC01() []mutant {
	return []mutant{
		{Name: "verify side builds ToBeSigned without the external data", File: "sign1.go", Quick: true, Rule: "R01.1", Nth: 2,
			Old: "\ttoBeSigned, err := m.toBeSigned(external)\n", New: "\ttoBeSigned, err := m.toBeSigned(nil)\n"},
		{Name: "Signature encoder re-encodes the protected map", File: "sign.go", Quick: true, Rule: "R01.2",
			Old: "\tprotected, unprotected, err := s.Headers.marshal()\n\tif err != nil {\n\t\treturn nil, err\n\t}\n\tsig := signature{", New: "\tprotected, unprotected, err := s.Headers.marshal()\n\tif err != nil {\n\t\treturn nil, err\n\t}\n\tif s.Headers.Protected != nil {\n\t\tprotected, err = encMode.Marshal(s.Headers.Protected)\n\t\tif err != nil {\n\t\t\treturn nil, err\n\t\t}\n\t}\n\tsig := signature{"},
		{Name: "Sign1 decoder stores the signature as payload", File: "sign1.go", Rule: "R01.3",
			Old: "\t\tPayload:   raw.Payload,\n\t\tSignature: raw.Signature,", New: "\t\tPayload:   raw.Signature,\n\t\tSignature: raw.Signature,"},
		{Name: "Sign1 encodes a second message built from the caller's headers", File: "sign1.go", Rule: "R01.2", Nth: 1,
			Old: "\terr := msg.Sign(rand, external, signer)\n\tif err != nil {\n\t\treturn nil, err\n\t}\n\treturn msg.MarshalCBOR()", New: "\terr := msg.Sign(rand, external, signer)\n\tif err != nil {\n\t\treturn nil, err\n\t}\n\tout := Sign1Message{Headers: headers, Payload: payload, Signature: msg.Signature}\n\treturn out.MarshalCBOR()"},
		{Name: "Sign1Message.Sign normalises the payload after building ToBeSigned", File: "sign1.go", Rule: "R01.2",
			Old: "\tm.Signature = sig\n\treturn nil\n}\n\n// Verify verifies the signature on the Sign1Message", New: "\tm.Signature = sig\n\tif len(m.Payload) == 0 {\n\t\tm.Payload = []byte{}\n\t}\n\treturn nil\n}\n\n// Verify verifies the signature on the Sign1Message"},
		{Name: "Countersignature.Verify checks the parent's signature bytes", File: "countersign.go", Rule: "R01.1",
			Old: "\treturn verifier.Verify(toBeSigned, s.Signature)\n}\n\n// toBeSigned returns ToBeSigned from COSE_Countersignature object.", New: "\treturn verifier.Verify(toBeSigned, s.Headers.RawProtected)\n}\n\n// toBeSigned returns ToBeSigned from COSE_Countersignature object."},
		{Name: "ToBeSigned depends on a package-level counter", File: "sign.go", Rule: "R01.4",
			Old: "\tif external == nil {\n\t\texternal = []byte{}\n\t}\n\tsigStructure := []any{\n\t\t\"Signature\",   // context", New: "\tif external == nil {\n\t\texternal = []byte{}\n\t}\n\tsignaturePrefix[0]++\n\texternal = append(external[:len(external):len(external)], signaturePrefix[0])\n\tsigStructure := []any{\n\t\t\"Signature\",   // context"},
		{Name: "head normaliser rewrites its argument in place", File: "cbor.go", Rule: "R01.5",
			Old: "\tvar s []byte\n\t_ = decModeWithTagsForbidden.Unmarshal(data, &s)\n\treturn encMode.Marshal(s)", New: "\tvar s []byte\n\t_ = decModeWithTagsForbidden.Unmarshal(data, &s)\n\tout, err := encMode.Marshal(s)\n\tif err == nil {\n\t\tcopy(data, out)\n\t}\n\treturn out, err"},
		{Name: "payload slot type loses nil", File: "sign1.go", Rule: "R01.3",
			Old: "\tPayload     byteString\n\tSignature   byteString\n}\n\n// sign1MessagePrefix", New: "\tPayload     []byte\n\tSignature   byteString\n}\n\n// sign1MessagePrefix"},
	}
}

// checkBuilderPurity: R01.5 - computing ToBeSigned leaves the object as it
// was: the builder's call tree writes no memory that existed before the call
// (a second computation - verify after sign, verify twice, the next signer of
// a COSE_Sign sharing the body bytes, countersign then verify, encode after
// verify - must see the same bytes).
func checkBuilderPurity(r *Report, rule string) {
	P := r.P
	sites := P.keySites()
	{
		seenB := map[*ssa.Function]bool{}
		nb := 0
		for _, st := range sites {
			raw := P.terms.of(st.content)
			if !(raw.Op == "res" && len(raw.Args) == 1 && raw.Args[0].Op == "call") {
				continue
			}
			bf := P.calleeOfTerm(raw.Args[0])
			if bf == nil || seenB[bf] {
				continue
			}
			seenB[bf] = true
			nb++
			var ws []string
			for _, w := range P.effects.summary(bf).writes {
				ws = append(ws, w.loc().String()+" at "+P.instrPos(w.instr))
			}
			r.ob(rule, shortFn(bf)+":observer", bf, nil, "the ToBeSigned builder and everything it calls write nothing that existed before the call").check(len(ws) == 0, "no writes to pre-existing memory", "the builder writes "+strings.Join(ws, "; "))
		}
		r.floor(rule, nb, 3, "ToBeSigned builders")
	}
}

package main

// C13 — header parameter rules, identical on encode and decode.

import (
	"fmt"
	"go/types"
	"sort"
	"strconv"
	"strings"

	"golang.org/x/tools/go/ssa"
)

// headerMapValues: SSA values that denote header maps: values of type
// ProtectedHeader / UnprotectedHeader, conversions of them, and map[any]any
// parameters of in-package functions that receive such a value at some call
// site (fixpoint over call sites).
func (P *Prog) headerMapParams() map[*ssa.Parameter]bool {
	isHdrType := func(t types.Type) bool {
		return isNamed(t, cosePath, "ProtectedHeader") || isNamed(t, cosePath, "UnprotectedHeader")
	}
	params := map[*ssa.Parameter]bool{}
	var isHdr func(v ssa.Value, depth int) bool
	isHdr = func(v ssa.Value, depth int) bool {
		if depth > 8 {
			return false
		}
		if isHdrType(v.Type()) {
			return true
		}
		switch x := v.(type) {
		case *ssa.ChangeType:
			return isHdr(x.X, depth+1)
		case *ssa.Parameter:
			return params[x]
		case *ssa.Phi:
			for _, e := range x.Edges {
				if isHdr(e, depth+1) {
					return true
				}
			}
		}
		return false
	}
	for changed := true; changed; {
		changed = false
		for _, fn := range P.Funcs {
			for _, ci := range callsIn(fn, nil) {
				callee := staticCallee(ci)
				if callee == nil || !P.inPkg(callee) {
					continue
				}
				for i, a := range ci.Common().Args {
					if i < len(callee.Params) && !params[callee.Params[i]] && isHdr(a, 0) {
						if _, ok := callee.Params[i].Type().Underlying().(*types.Map); ok {
							params[callee.Params[i]] = true
							changed = true
						}
					}
				}
			}
		}
	}
	return params
}

func (P *Prog) isHeaderMapValue(v ssa.Value, params map[*ssa.Parameter]bool, depth int) bool {
	if depth > 8 {
		return false
	}
	if isNamed(v.Type(), cosePath, "ProtectedHeader") || isNamed(v.Type(), cosePath, "UnprotectedHeader") {
		return true
	}
	switch x := v.(type) {
	case *ssa.ChangeType:
		return P.isHeaderMapValue(x.X, params, depth+1)
	case *ssa.Parameter:
		return params[x]
	case *ssa.Phi:
		for _, e := range x.Edges {
			if P.isHeaderMapValue(e, params, depth+1) {
				return true
			}
		}
	}
	return false
}

// labelNormalizer: the in-package func(any) (any, bool) applied to ranged
// header-map keys by the header validator.
func (P *Prog) labelNormalizer() *ssa.Function {
	counts := map[*ssa.Function]int{}
	for _, fn := range P.Funcs {
		for _, ci := range callsIn(fn, nil) {
			c := staticCallee(ci)
			if c == nil || !P.inPkg(c) || len(c.Params) != 1 || c.Signature.Results().Len() != 2 {
				continue
			}
			if c.Params[0].Type().String() != "any" && c.Params[0].Type().String() != "interface{}" {
				continue
			}
			if b, ok := c.Signature.Results().At(1).Type().(*types.Basic); !ok || b.Kind() != types.Bool {
				continue
			}
			// argument is a ranged map key
			if ex, ok := ci.Common().Args[0].(*ssa.Extract); ok {
				if _, ok := ex.Tuple.(*ssa.Next); ok && ex.Index == 1 {
					counts[c]++
				}
			}
		}
	}
	var best *ssa.Function
	for f, n := range counts {
		if best == nil || n > counts[best] || (n == counts[best] && f.String() < best.String()) {
			best = f
		}
	}
	return best
}

// checkLabelLookups implements R13.6 (shared by C04, C08, C13).
func checkLabelLookups(r *Report, rule, prop string) {
	P := r.P
	params := P.headerMapParams()
	norm := P.labelNormalizer()
	if norm == nil {
		undecidedf("anchor not found: label normalisation function")
	}
	n := 0
	var fns []*ssa.Function
	fns = append(fns, P.Funcs...)
	sort.Slice(fns, func(i, j int) bool { return fns[i].String() < fns[j].String() })
	for _, fn := range fns {
		for _, b := range fn.Blocks {
			for _, in := range b.Instrs {
				lk, ok := in.(*ssa.Lookup)
				if !ok {
					continue
				}
				if _, isMap := lk.X.Type().Underlying().(*types.Map); !isMap {
					continue
				}
				if !P.isHeaderMapValue(lk.X, params, 0) {
					continue
				}
				n++
				keyT := P.terms.of(lk.Index)
				o := r.ob(rule, shortFn(fn)+":lookup:"+keyT.String(), fn, lk, "keyed read of a header map by label is insensitive to the Go integer type spelling the label")
				// discharged when the same function also scans the same map
				// normalising each key (fallback scan)
				scan := false
				for _, l := range findLoops(fn) {
					if l.kind != "map-range" || l.over == nil || !P.terms.of(l.over).eq(P.terms.of(lk.X)) {
						continue
					}
					for blk := range l.blocks {
						for _, i2 := range blk.Instrs {
							if ci, ok := i2.(ssa.CallInstruction); ok && staticCallee(ci) == norm {
								if ex, ok := ci.Common().Args[0].(*ssa.Extract); ok && ex.Index == 1 {
									if nx, ok := ex.Tuple.(*ssa.Next); ok {
										if rg, ok := nx.Iter.(*ssa.Range); ok && rg == l.rangeInstr() {
											scan = true
										}
									}
								}
							}
						}
					}
				}
				o.check(scan, "function falls back to a scan that applies "+shortFn(norm)+" to every key of the same map",
					"bare keyed lookup "+P.terms.of(lk.X).String()+"["+keyT.String()+"]: finds the label only when it is spelt with the same Go type (int64(5) vs int(5)); no normalising scan of the map in this function")
			}
		}
	}
	r.floor(rule, n, 1, "keyed header-map lookups")
}

func (l *loopInfo) rangeInstr() *ssa.Range {
	iff, ok := l.header.Instrs[len(l.header.Instrs)-1].(*ssa.If)
	if !ok {
		return nil
	}
	if ex, ok := iff.Cond.(*ssa.Extract); ok {
		if nx, ok := ex.Tuple.(*ssa.Next); ok {
			if rg, ok := nx.Iter.(*ssa.Range); ok {
				return rg
			}
		}
	}
	return nil
}

// ---------------------------------------------------------------------------
// C13 proper

func init() {
	register(&propSpec{id: "C13", title: "header parameter rules, identical on encode and decode", run: runC13, mutants: mutC13, design: "DESIGN.md section 3, C13"})
}

var ianaLabels = map[string]int64{
	"HeaderLabelAlgorithm": 1, "HeaderLabelCritical": 2, "HeaderLabelContentType": 3, "HeaderLabelKeyID": 4,
	"HeaderLabelIV": 5, "HeaderLabelPartialIV": 6, "HeaderLabelCounterSignature": 7, "HeaderLabelCounterSignature0": 9,
	"HeaderLabelCounterSignatureV2": 11, "HeaderLabelCounterSignature0V2": 12, "HeaderLabelType": 16,
}

// checkValuePredicateKinds: the value predicates the validators (and the
// crit helper, whose elements become map keys) rely on are identified by
// their kind tables: exactly the ten integer kinds / the unsigned kinds and
// non-negative signed ones / string / non-nil []byte. A predicate that admits
// another dynamic type (a named uint8 such as cbor.SimpleValue, big.Int, ...)
// no longer belongs to its class and the class is reported missing.
func checkValuePredicateKinds(r *Report, rule string) (map[string][]*ssa.Function, map[string]string) {
	P := r.P
	classes := map[string][]*ssa.Function{}
	isClass := map[string]string{}
	for _, pc := range P.valuePredicates() {
		if pc.class != "" {
			classes[pc.class] = append(classes[pc.class], pc.fn)
			isClass[shortFn(pc.fn)] = pc.class
		}
		r.sample(map[string]any{"predicate": shortFn(pc.fn), "accepts": pc.kinds.String(), "class": pc.class})
	}
	for _, c := range []string{"int", "uint", "tstr", "bstr"} {
		o := r.ob(rule, "predicate:"+c, nil, nil, "a value predicate with exactly the "+c+" kind table exists")
		var ns []string
		for _, f := range classes[c] {
			ns = append(ns, shortFn(f))
		}
		o.check(len(classes[c]) > 0, strings.Join(ns, ","), "no in-package func(any) bool accepts exactly the "+c+" kinds (a kind was added or lost)")
	}
	return classes, isClass
}

// intOfParam: t is the value of parameter 0 asserted to one of the ten integer
// kinds on this path and converted to int64 (nothing added, nothing masked),
// possibly through an in-package helper all of whose accepting paths do that.
func intOfParam(P *Prog, t *Term, p *Path, depth int) string {
	x := t
	if x.Op == "convert" && x.S == "int64" && len(x.Args) == 1 {
		x = x.Args[0]
	}
	if x.Op == "res" && x.S == "0" && len(x.Args) == 1 && x.Args[0].Op == "typeassert" && len(x.Args[0].Args) == 1 && x.Args[0].Args[0].String() == "$0" {
		k := strings.TrimSuffix(x.Args[0].S, ",ok")
		isKind := false
		for _, l := range [][]string{signedKinds, unsignedKinds} {
			for _, n := range l {
				if n == k {
					isKind = true
				}
			}
		}
		if !isKind {
			return "asserted to " + k + ", not an integer kind"
		}
		if k != "int64" && x == t {
			return "not converted to int64"
		}
		if !p.has(Fact{&Term{Op: "res", S: "1", Args: []*Term{x.Args[0]}}, true}) {
			return "the assertion to " + k + " is not tested on this path"
		}
		return ""
	}
	if t.Op == "res" && t.S == "0" && len(t.Args) == 1 && t.Args[0].Op == "call" && len(t.Args[0].Args) == 1 && t.Args[0].Args[0].String() == "$0" && depth < 2 {
		g := P.calleeOfTerm(t.Args[0])
		if g != nil && g.Signature.Results().Len() == 2 && boolResultIndex(g) == 1 {
			n := 0
			for _, q := range P.allPaths(g) {
				res := q.results()
				if res[1].Op == "const" && res[1].S == "false" {
					continue
				}
				n++
				if why := intOfParam(P, res[0], q, depth+1); why != "" {
					return "in " + shortFn(g) + ": " + why
				}
			}
			if n > 0 {
				return ""
			}
		}
	}
	return "not the parameter's own integer value converted to int64"
}

func runC13(r *Report, tier string) {
	P := r.P
	// round 6: the verdict on a decoded header set is about the decoded set
	r.rule("R19.2", "(shared with C19) the bucket decoders replace their destination: what they validated is what the destination holds afterwards - a decoder that fills a map the destination already held merges two individually valid sets into one that was never validated (IV next to Partial IV, crit without its label).")
	for _, tn := range []string{"ProtectedHeader", "UnprotectedHeader"} {
		if D := P.methodOf(P.mustNamed(tn), "UnmarshalCBOR"); D != nil {
			checkReceiverAssigned(r, "R19.2", D)
			checkNoWriteBelowOldReceiver(r, "R19.2", D)
		} else {
			undecidedf("anchor not found: %s.UnmarshalCBOR", tn)
		}
	}
	r.rule("R13.1", "the validator's per-entry paths, lowered to a table label -> conditions on the way to acceptance, satisfy RFC 9052 3.1 / RFC 9338: alg: Algorithm|int|tstr; crit: protected only, crit helper succeeded; content type / typ: uint, or tstr non-empty without leading/trailing space and with exactly one '/'; kid, IV, Partial IV: bstr; IV and Partial IV exclude each other; 7/11: unprotected only, countersignature value predicate; 9/12: unprotected only, bstr; every label normalises and is not a duplicate. The value predicates are identified and checked by their kind tables (int: ten integer kinds; uint: unsigned kinds, signed with >= 0; tstr: string; bstr: non-nil []byte - a nil slice would be emitted as CBOR null); label constants equal their IANA values.")
	r.rule("R13.2", "the four bucket (un)marshalers reach the same validator, protected ones with the constant true, unprotected ones with false, on every non-empty success path; every structure encoder carries ok(cross-bucket IV check) on its own Headers, the function the decoders use (R05.5).")
	r.rule("R13.3", "uniqueness: every accepted entry has passed the duplicate test on the normalised label; decode side: DupMapKeyEnforcedAPF and IntDecConvertSigned (R05.1).")
	r.rule("R13.4", "decode-side label typing: the raw label scan admits major types 0, 1, 3 only and refuses integers beyond int64.")
	r.rule("R13.5", "crit helper: success requires a non-empty []any whose every element (full-range loop) is int or tstr and is present, by normalising lookup, in the same bucket's map.")
	r.rule("R13.6", "every keyed read of a header map by label goes through a lookup that normalises the map's keys (spelling-insensitive).")
	r.rule("R13.7", "label normalisation accepts exactly the ten Go integer kinds (converted to int64) and string (unchanged).")

	val := P.headerValidator()
	norm := P.labelNormalizer()
	r.analysed(val, norm)
	// label constants
	for name, v := range ianaLabels {
		got, ok := P.constVal(name)
		r.ob("R13.1", "const:"+name, nil, nil, fmt.Sprintf("%s == %d (IANA)", name, v)).check(ok && got == v, fmt.Sprintf("%d", got), fmt.Sprintf("%s = %d, IANA value is %d", name, got, v))
	}
	// predicates by kind table
	_, isClass := checkValuePredicateKinds(r, "R13.1")
	checkLabelNormalizer(r, "R13.7")

	// R13.1 table
	eps, _ := P.validatorEntryPaths(val)
	V := mustPat("res<2>(next(range($0)))")
	csGood := checkCountersigValuePredicate(r, "R13.1")
	crit := map[*ssa.Function]bool{}
	byLabel := map[int64][]*entryPath{}
	nAcc := 0
	for _, ep := range eps {
		if !ep.accepted {
			continue
		}
		nAcc++
		r.paths++
		if ep.known {
			byLabel[ep.label] = append(byLabel[ep.label], ep)
		}
	}
	predTrue := func(ep *entryPath, class string) bool {
		for _, c := range ep.conds {
			if name, arg := P.predCallOf(c.Pred); c.Val && arg != nil && isClass[name] == class && arg.eq(V) {
				return true
			}
		}
		// the same test written inline as a comma-ok type assertion on the value
		asserted := func(t string) (*Term, bool) {
			ta := &Term{Op: "typeassert", S: t + ",ok", Args: []*Term{V}}
			return &Term{Op: "res", S: "0", Args: []*Term{ta}}, ep.has(Fact{&Term{Op: "res", S: "1", Args: []*Term{ta}}, true})
		}
		switch class {
		case "tstr":
			_, ok := asserted("string")
			return ok
		case "bstr":
			v, ok := asserted("[]byte")
			return ok && ep.has(Fact{tEq(v, tNil()), false})
		case "int":
			for _, k := range append(append([]string{}, signedKinds...), unsignedKinds...) {
				if _, ok := asserted(k); ok {
					return true
				}
			}
		case "uint":
			for _, k := range unsignedKinds {
				if _, ok := asserted(k); ok {
					return true
				}
			}
			for _, k := range signedKinds {
				if v, ok := asserted(k); ok && ep.has(Fact{tLt(v, tInt(0)), false}) {
					return true
				}
			}
		}
		return false
	}
	typeIs := func(ep *entryPath, t string) bool {
		return ep.has(Fact{&Term{Op: "res", S: "1", Args: []*Term{{Op: "typeassert", S: t + ",ok", Args: []*Term{V}}}}, true})
	}
	flag := func(ep *entryPath, v bool) bool { return ep.has(Fact{T("param", "1"), v}) }
	absent := func(ep *entryPath, k int64) bool {
		for _, c := range ep.conds {
			if c.Val {
				continue
			}
			call := c.Pred
			if call.Op == "res" && len(call.Args) == 1 {
				call = call.Args[0]
			}
			if call.Op == "call" && len(call.Args) == 2 && call.Args[0].String() == "$0" && call.Args[1].String() == "iface<int64>("+itoa(k)+")" && P.calleeOfTerm(call) != nil {
				return true
			}
		}
		return false
	}
	tstrRules := func(ep *entryPath) string {
		fs := factSet{}
		for _, c := range ep.conds {
			fs.add(c)
		}
		last := ""
		// the text is the bare assertion value.(string) or the value of a comma-ok assertion
		for _, S := range []*Term{{Op: "typeassert", S: "string", Args: []*Term{V}}, {Op: "res", S: "0", Args: []*Term{{Op: "typeassert", S: "string,ok", Args: []*Term{V}}}}} {
			b := bindings{"S": S}
			anyOf := func(what string, pats ...string) string {
				for _, pt := range pats {
					if len(fs.matchAll([]factPat{fp(pt)}, b)) > 0 {
						return ""
					}
				}
				return what
			}
			miss := anyOf("the leading-space test", "!binop<==>(index(%S, 0), 32)", "!call<strings.HasPrefix>(%S, \" \")")
			if miss == "" {
				miss = anyOf("the trailing-space test", "!binop<==>(index(%S, binop<->(len(%S), 1)), 32)", "!call<strings.HasSuffix>(%S, \" \")")
			}
			if miss == "" {
				miss = anyOf("exactly one '/'", "binop<==>(call<strings.Count>(%S, \"/\"), 1)")
			}
			if miss == "" && !fs.holdsNonEmpty(S) {
				miss = anyOf("the non-empty test", "!binop<==>(%S, \"\")", "!binop<==>(\"\", %S)")
			}
			if miss == "" {
				return ""
			}
			last = miss
		}
		return last
	}
	type cell struct {
		label int64
		what  string
		check func(ep *entryPath) string
	}
	bstr := func(ep *entryPath) string {
		if !predTrue(ep, "bstr") {
			return "value accepted without the bstr predicate"
		}
		return ""
	}
	ct := func(ep *entryPath) string {
		if predTrue(ep, "uint") && !predTrue(ep, "tstr") {
			return ""
		}
		if predTrue(ep, "tstr") {
			if m := tstrRules(ep); m != "" {
				return "text value accepted without " + m
			}
			return ""
		}
		return "value accepted that is neither uint nor tstr"
	}
	cs := func(ep *entryPath) string {
		if !flag(ep, false) {
			return "accepted in the protected bucket"
		}
		okv := false
		for _, c := range ep.conds {
			if c.Val && c.Pred.Op == "call" && len(c.Pred.Args) == 1 && c.Pred.Args[0].eq(V) {
				if f := P.calleeOfTerm(c.Pred); f != nil && csGood[f] {
					okv = true
				}
			}
		}
		if csGood[val] && (typeIs(ep, "*Countersignature") || typeIs(ep, "[]*Countersignature")) {
			okv = true
		}
		if !okv {
			return "value accepted without the countersignature value predicate"
		}
		return ""
	}
	unprotBstr := func(ep *entryPath) string {
		if !flag(ep, false) {
			return "accepted in the protected bucket"
		}
		return bstr(ep)
	}
	table := []cell{
		{1, "alg: Algorithm | int | tstr", func(ep *entryPath) string {
			if typeIs(ep, "Algorithm") || predTrue(ep, "int") || predTrue(ep, "tstr") {
				return ""
			}
			return "value accepted that is neither Algorithm, int nor tstr"
		}},
		{2, "crit: protected only, crit helper ok", func(ep *entryPath) string {
			if !flag(ep, true) {
				return "crit accepted in the unprotected bucket"
			}
			for _, c := range ep.conds {
				if c.Val && c.Pred.Op == "binop" && c.Pred.S == "==" {
					for i := 0; i < 2; i++ {
						call := c.Pred.Args[i]
						ri := -1
						if call.Op == "res" && len(call.Args) == 1 {
							// the helper may hand something back next to its verdict
							ri, _ = strconv.Atoi(call.S)
							call = call.Args[0]
						}
						if c.Pred.Args[1-i].Op == "nil" && call.Op == "call" && len(call.Args) == 2 && call.Args[0].eq(V) && call.Args[1].String() == "$0" {
							if f := P.calleeOfTerm(call); f != nil && errIndex(f) >= 0 && (ri == errIndex(f) || (ri < 0 && f.Signature.Results().Len() == 1)) {
								crit[f] = true
								return ""
							}
						}
					}
				}
			}
			return "crit accepted without ok(crit helper(value, same map))"
		}},
		{3, "content type: uint | type/subtype text", ct},
		{16, "typ: uint | type/subtype text", ct},
		{4, "kid: bstr", bstr},
		{5, "IV: bstr, no Partial IV", func(ep *entryPath) string {
			if m := bstr(ep); m != "" {
				return m
			}
			if !absent(ep, 6) {
				return "IV accepted without the Partial IV absence test on the same map"
			}
			return ""
		}},
		{6, "Partial IV: bstr, no IV", func(ep *entryPath) string {
			if m := bstr(ep); m != "" {
				return m
			}
			if !absent(ep, 5) {
				return "Partial IV accepted without the IV absence test on the same map"
			}
			return ""
		}},
		{7, "counter signature: unprotected only, countersignature value", cs},
		{11, "counter signature v2: unprotected only, countersignature value", cs},
		{9, "countersignature0: unprotected only, bstr", unprotBstr},
		{12, "countersignature0 v2: unprotected only, bstr", unprotBstr},
	}
	for _, c := range table {
		ps := byLabel[c.label]
		o := r.ob("R13.1", fmt.Sprintf("label:%d", c.label), val, nil, c.what)
		if len(ps) == 0 {
			o.fail(fmt.Sprintf("no accepting path of the validator is specific to label %d: its value is unconstrained", c.label))
			continue
		}
		why := ""
		for _, ep := range ps {
			if m := c.check(ep); m != "" {
				why = m + " [path: " + ep.condStrings() + "]"
			}
		}
		if len(why) > 900 {
			why = why[:900] + "..."
		}
		o.check(why == "", fmt.Sprintf("%d accepting paths, all satisfy the cell", len(ps)), why)
	}
	r.floorSoft("R13.1", nAcc, 15, "accepting per-entry paths of the validator")
	checkValidatorUniqueness(r, "R13.3")
	checkValidatorExhaustive(r, "R13.1")
	// R13.2 encoders + decoders
	checkBucketEncoders(r, "R13.2")
	c05Buckets(r, "R13.2")
	iv := P.ivCheck()
	for _, T := range P.structureTypes() {
		if D := P.methodOf(T, "UnmarshalCBOR"); D != nil {
			if sts := P.receiverWrites(D); len(sts) == 1 && sts[0].complete {
				checkDecoderLayer(r, "R13.2", T.Obj().Name(), sts[0], nil, iv)
			} else {
				r.ob("R13.2", T.Obj().Name()+":stored-value", D, nil, "the decoder stores exactly one whole value").fail(fmt.Sprintf("%d assignments to the receiver", len(sts)))
			}
		}
	}
	checkStructureEncodersIV(r, "R13.2")
	checkUnprotectedEncoderTagFree(r, "R13.2")
	r.rule("R08.7", "(shared with C08) what a bucket encoder emits has passed a full generic decode under the decoder's mode options: a header set accepted on encode is not refused on decode for a value the decode mode rejects (integers beyond int64, invalid UTF-8 text or text labels).")
	checkBucketEncoderValueClosure(r, "R08.7")
	// the IV check itself: both directions
	{
		np := 0
		why := ""
		for _, p := range P.allPaths(iv) {
			if !p.feasible() {
				continue
			}
			fs := factSet{}
			for _, c := range p.conds {
				fs.add(c)
				// presence flags carried in a small struct built by a helper
				if e := P.expandStructCalls(c.Pred); !e.eq(c.Pred) {
					fs.add(normFact(e, c.Val))
				}
			}
			if k, _ := P.classifyErr(p.results()[0], fs); k == exitFailure {
				continue
			}
			np++
			// success: not (IV in protected and PIV in unprotected), not (PIV in protected and IV in unprotected)
			for _, pr := range [][2]int64{{5, 6}, {6, 5}} {
				a := fmt.Sprintf("call<%%F>(*$0.Protected, iface<int64>(%d))", pr[0])
				b := fmt.Sprintf("call<%%F>(*$0.Unprotected, iface<int64>(%d))", pr[1])
				if len(iv.Params) == 2 {
					a = fmt.Sprintf("call<%%F>($0, iface<int64>(%d))", pr[0])
					b = fmt.Sprintf("call<%%F>($1, iface<int64>(%d))", pr[1])
				}
				// the presence test is a boolean in-package lookup or the
				// found-flag of one
				absent := func(pat string) bool {
					pat = strings.Replace(pat, "%F", "%", 1)
					return len(fs.matchAll([]factPat{fp("!" + pat)}, nil)) > 0 || len(fs.matchAll([]factPat{fp("!res<1>(" + pat + ")")}, nil)) > 0
				}
				ma, mb := absent(a), absent(b)
				if !ma && !mb {
					why = fmt.Sprintf("the IV check can succeed with label %d protected and label %d unprotected", pr[0], pr[1])
				}
			}
		}
		r.ob("R13.2", shortFn(iv)+":both-directions", iv, nil, "the cross-bucket check refuses IV/Partial IV in both directions").check(why == "" && np > 0, fmt.Sprintf("%d success paths", np), why)
	}
	// R13.4
	c05LabelScanOnly(r, "R13.4")
	// R13.5
	var cfs []*ssa.Function
	for f := range crit {
		cfs = append(cfs, f)
	}
	sort.Slice(cfs, func(i, j int) bool { return cfs[i].String() < cfs[j].String() })
	r.floor("R13.5", len(cfs), 1, "crit helper")
	for _, cf := range cfs {
		r.analysed(cf)
		arr := mustPat("res<0>(typeassert<[]any,ok>($0))")
		var L *loopInfo
		for _, l := range findLoops(cf) {
			if l.over != nil && P.terms.of(l.over).eq(arr) && l.fullRange {
				L = l
			}
		}
		for _, x := range P.factsOf(cf).exits {
			if x.kind == exitFailure {
				continue
			}
			o := r.ob("R13.5", shortFn(cf)+":exit:"+exitID(P, cf, x), cf, x.ret, "crit: []any, non-empty, every element int|tstr and present in the same map")
			miss, _ := x.facts.firstMissing([]factPat{fp("res<1>(typeassert<[]any,ok>($0))")}, nil)
			if miss == "" && !x.facts.holdsNonEmpty(arr) {
				miss = "len(crit array) != 0"
			}
			why := ""
			switch {
			case miss != "":
				why = "missing " + miss
			case L == nil:
				why = "no full-range loop over the crit array"
			case !(L.exit == x.ret.Block() || L.exit.Dominates(x.ret.Block())):
				why = "success is reachable without completing the loop"
			default:
				for _, p := range P.enumPaths(cf, L.body, func(b *ssa.BasicBlock) bool { return b == L.header }, false) {
					if p.ret != nil {
						fs := factSet{}
						for _, c := range p.conds {
							fs.add(c)
						}
						if k, _ := P.classifyErr(p.results()[errIndex(cf)], fs); k != exitFailure {
							why = "the loop body can return success"
						}
						continue
					}
					typed, present := false, false
					for _, c := range p.conds {
						if name, arg := P.predCallOf(c.Pred); c.Val && arg != nil && (isClass[name] == "int" || isClass[name] == "tstr") && strings.Contains(arg.String(), "index(") {
							typed = true
						}
						// presence test: a boolean in-package lookup (f(map, elem) or the found-flag of one) that is true
						pc := c.Pred
						if pc.Op == "res" && len(pc.Args) == 1 {
							pc = pc.Args[0]
						}
						if c.Val && pc.Op == "call" && len(pc.Args) == 2 && pc.Args[0].String() == "$1" && strings.Contains(pc.Args[1].String(), "index(") && P.calleeOfTerm(pc) != nil {
							present = true
						}
					}
					if !typed {
						why = "an element can pass without the int|tstr test"
					} else if !present {
						why = "an element can pass without the presence test in the same map"
					}
				}
			}
			o.check(why == "", "[]any, len != 0, per element int|tstr and present", why)
		}
	}
	// R13.6
	checkLabelLookups(r, "R13.6", "C13")
	// decode-side uniqueness options
	for _, mc := range P.modeConfigs() {
		if !mc.enc {
			checkModeOptions(r, "R13.3", mc, map[string]int64{"DupMapKey": P.cborConst("DupMapKeyEnforcedAPF"), "IntDec": P.cborConst("IntDecConvertSigned")}, nil)
		}
	}
}

// checkBucketEncoders: both bucket encoders validate (with the right flag)
// every non-empty header they encode (R13.2 / R08.5 / R09.4).
func checkBucketEncoders(r *Report, rule string) {
	P := r.P
	val := P.headerValidator()
	for _, tn := range []struct {
		name string
		flag string
	}{{"ProtectedHeader", "true"}, {"UnprotectedHeader", "false"}} {
		enc := P.methodOf(P.mustNamed(tn.name), "MarshalCBOR")
		if enc == nil {
			undecidedf("anchor not found: %s.MarshalCBOR", tn.name)
		}
		np := 0
		for _, p := range P.allPaths(enc) {
			if !p.feasible() {
				continue
			}
			fs := factSet{}
			for _, c := range p.conds {
				fs.add(c)
			}
			res := p.results()
			if k, _ := P.classifyErr(res[1], fs); k == exitFailure {
				continue
			}
			np++
			o := r.ob(rule, shortFn(enc)+":path:"+pathID(p), enc, p.ret, "bucket encoder: empty header, or ok(validator(h, "+tn.flag+"))")
			empty := fs.holdsEmpty(T0())
			okv := len(fs.matchAll([]factPat{fp(okp("call<" + shortFn(val) + ">($0, " + tn.flag + ")"))}, nil)) > 0
			o.check(empty || okv, fmt.Sprintf("empty:%v validated:%v", empty, okv), "a non-empty header can be encoded without ok("+shortFn(val)+"(h, "+tn.flag+"))")
		}
		r.floor(rule, np, 2, "success paths of "+shortFn(enc))
	}
}

// checkUnprotectedEncoderTagFree: the unprotected bucket is decoded as part
// of the enclosing structure, i.e. under the envelope mode. When that mode
// forbids tags, whatever the bucket encoder emits from a (validated) map must
// have passed that restriction too - header values are arbitrary Go values
// and the encoder would otherwise emit tags (cbor.Tag, big integers, time,
// user types) that the library's own decoders refuse (D6; R08.6 / R13.2).
func checkUnprotectedEncoderTagFree(r *Report, rule string) {
	P := r.P
	// envelope modes: the modes the structure decoders hand the whole input to
	forb := P.cborConst("TagsForbidden")
	envForbids := map[string]bool{}
	anyEnv := false
	for _, mc := range P.modeConfigs() {
		if !mc.enc && mc.global != "" && mc.opts["TagsMd"] == forb && len(mc.unknown) == 0 {
			envForbids[mc.global] = true
		}
	}
	envelopeStrict := false
	for _, T := range P.structureTypes() {
		D := P.methodOf(T, "UnmarshalCBOR")
		if D == nil {
			continue
		}
		for f := range P.reachable([]*ssa.Function{D}) {
			for _, ci := range callsIn(f, nil) {
				c := ci.Common()
				if !(c.IsInvoke() && c.Method.Name() == "Unmarshal" && isCBORMode(c.Value.Type()) && len(c.Args) == 2) {
					continue
				}
				dst := c.Args[1].Type()
				if mi, ok := c.Args[1].(*ssa.MakeInterface); ok {
					dst = mi.X.Type()
				}
				if P.isWireStructPtr(dst) {
					anyEnv = true
					if g, ok := P.isModeLoad(P.terms.of(c.Value), false); ok && envForbids[g] {
						envelopeStrict = true
					}
				}
			}
		}
	}
	enc := P.methodOf(P.mustNamed("UnprotectedHeader"), "MarshalCBOR")
	if enc == nil || !anyEnv {
		undecidedf("anchor not found: UnprotectedHeader.MarshalCBOR / envelope decode calls")
	}
	n := 0
	for _, x := range P.factsOf(enc).exits {
		if x.kind == exitFailure {
			continue
		}
		b := P.resolveValue(x.results[0])
		if _, isConst := byteArr(b); isConst {
			continue // the constant empty map
		}
		n++
		o := r.ob(rule, shortFn(enc)+":tag-free:"+exitID(P, enc, x), enc, x.ret, "bytes emitted for the unprotected bucket have passed the envelope mode's tag restriction (the decoders read the bucket under that mode)")
		if !envelopeStrict {
			o.ok("the envelope mode admits tags", false)
			continue
		}
		fs := exitFacts(P, x)
		ok := false
		for _, m := range fs.matchAll([]factPat{fp(okp("call<invoke:cbor.DecMode.Wellformed>(%M, %B)"))}, nil) {
			if g, isM := P.isModeLoad(m["M"], false); isM && envForbids[g] && (m["B"].eq(x.results[0]) || m["B"].eq(b)) {
				ok = true
			}
		}
		for _, m := range fs.matchAll([]factPat{fp(okp("call<invoke:cbor.DecMode.Unmarshal>(%M, %B, %D)"))}, nil) {
			if g, isM := P.isModeLoad(m["M"], false); isM && envForbids[g] && (m["B"].eq(x.results[0]) || m["B"].eq(b)) {
				ok = true // a full decode under that mode checks well-formedness (and the tag restriction) first
			}
		}
		o.check(ok, "ok(tags-forbidden mode.Wellformed(result))", "the encoder returns "+truncate(x.results[0].String(), 100)+" without checking it under the tags-forbidden envelope mode: a header value that encodes to a CBOR tag is emitted, and every structure decoder then refuses the library's own output")
	}
	r.floor(rule, n, 1, "non-constant success exits of the unprotected bucket encoder")
}

// checkBucketEncoderValueClosure (R08.7): header values are arbitrary Go
// values, so no static argument bounds what the generic encoder emits for
// them; the bucket decoders, however, read the map under decode modes that
// refuse some well-formed CBOR (integers beyond int64 under IntDecConvertSigned,
// text that is not valid UTF-8, byte-string map keys, ...). The only way the
// encoder's output can be closed under the decoder is that the encoded map has
// passed a full generic decode under such a mode before it is returned (D7).
// Decided per success path of the two bucket encoders: every encoded header
// map (Marshal of a map-typed value) inside the returned bytes is the source
// of a successful Unmarshal into a generic destination under a package decode
// mode whose options, TagsMd apart, equal those of every decode mode the
// bucket's own decoder reaches.
func checkBucketEncoderValueClosure(r *Report, rule string) {
	P := r.P
	decCfg := map[string]*modeConfig{}
	for _, mc := range P.modeConfigs() {
		if !mc.enc && mc.global != "" {
			decCfg[mc.global] = mc
		}
	}
	sameApartFromTags := func(a, b *modeConfig) bool {
		if len(a.unknown) > 0 || len(b.unknown) > 0 {
			return false
		}
		for k, v := range a.opts {
			if k != "TagsMd" && b.opts[k] != v {
				return false
			}
		}
		for k, v := range b.opts {
			if k != "TagsMd" && a.opts[k] != v {
				return false
			}
		}
		return true
	}
	generic := []string{"*map[any]any", "*map[interface{}]interface{}", "*any", "*interface{}"}
	total := 0
	for _, tn := range []string{"ProtectedHeader", "UnprotectedHeader"} {
		T := P.mustNamed(tn)
		enc := P.methodOf(T, "MarshalCBOR")
		dec := P.methodOf(T, "UnmarshalCBOR")
		if enc == nil || dec == nil {
			undecidedf("anchor not found: %s.MarshalCBOR / UnmarshalCBOR", tn)
		}
		// decode modes the bucket's decoder reaches
		used := map[string]bool{}
		for f := range P.reachable([]*ssa.Function{dec}) {
			for _, ci := range callsIn(f, nil) {
				c := ci.Common()
				if c.IsInvoke() && isCBORMode(c.Value.Type()) && (c.Method.Name() == "Unmarshal" || c.Method.Name() == "Wellformed") {
					if g, ok := P.isModeLoad(P.terms.of(c.Value), false); ok {
						used[g] = true
					}
				}
			}
		}
		if len(used) == 0 {
			undecidedf("no decode mode found below %s.UnmarshalCBOR", tn)
		}
		for _, p := range P.allPaths(enc) {
			if !p.feasible() {
				continue
			}
			fs := factSet{}
			for _, c := range p.conds {
				fs.add(c)
			}
			res := p.results()
			if k, _ := P.classifyErr(res[1], fs); k == exitFailure {
				continue
			}
			// encoded maps inside the returned bytes
			var maps []*Term
			seen := map[string]bool{}
			P.resolveValue(res[0]).walk(func(u *Term) {
				if b, ok := unify(mustPat("res<0>(call<invoke:cbor.EncMode.Marshal>(%E, iface<%>(%H)))"), u, bindings{}); ok {
					if u.Args[0].Args[1].Op == "iface" && strings.HasPrefix(u.Args[0].Args[1].S, "map[") && !seen[u.String()] {
						_ = b
						seen[u.String()] = true
						maps = append(maps, u)
					}
				}
			})
			for _, m := range maps {
				total++
				o := r.ob(rule, shortFn(enc)+":decodable:"+pathID(p), enc, p.ret, "the encoded header map has passed a full generic decode under the bucket decoder's mode options before it is returned")
				ok, why := false, "no successful DecMode.Unmarshal of the encoded map into a generic destination on this path"
				for _, dt := range generic {
					for _, b := range fs.matchAll([]factPat{fp(okp("call<invoke:cbor.DecMode.Unmarshal>(%M, %B, iface<" + dt + ">(%D))"))}, nil) {
						if !(b["B"].eq(m) || P.resolveValue(b["B"]).eq(m)) {
							continue
						}
						g, isM := P.isModeLoad(b["M"], false)
						if !isM || decCfg[g] == nil {
							why = "the trial decode does not use a package decode mode with constant options"
							continue
						}
						agree := true
						for u := range used {
							if decCfg[u] == nil || !sameApartFromTags(decCfg[g], decCfg[u]) {
								agree = false
								why = "the trial decode's mode " + g + " differs from the decoder's mode " + u + " in options other than TagsMd"
							}
						}
						if agree {
							ok = true
						}
					}
				}
				o.check(ok, "ok(decode mode.Unmarshal(encoded map, *generic))", "the encoder returns "+truncate(m.String(), 90)+" unchecked: "+why+" - a header value or text label the generic encoder accepts but the library's decode mode refuses (uint64 >= 2^63, invalid UTF-8 text) is emitted, and the library's own decoder then refuses the output")
			}
		}
	}
	r.floor(rule, total, 2, "encoded header maps on success paths of the bucket encoders")
}

// isWireStructPtr: *T (possibly wrapped in an interface at the call) with T a wire struct.
func (P *Prog) isWireStructPtr(t types.Type) bool {
	for _, w := range P.wireStructs() {
		if shortType(t) == "*"+w.Obj().Name() {
			return true
		}
	}
	return false
}

// checkStructureEncodersIV: every structure encoder carries ok(cross-bucket
// IV check) on its own Headers (R13.2 / R08.5).
func checkStructureEncodersIV(r *Report, rule string) {
	P := r.P
	iv := P.ivCheck()
	ne := 0
	for _, T := range P.structureTypes() {
		enc := P.methodOf(T, "MarshalCBOR")
		if enc == nil {
			continue
		}
		for _, x := range P.factsOf(enc).exits {
			if x.kind == exitFailure {
				continue
			}
			ne++
			fs := exitFacts(P, x)
			ok := false
			for _, ivp := range ivOKs(iv, "$0.Headers") {
				if len(fs.matchAll([]factPat{fp(ivp)}, nil)) > 0 {
					ok = true
				}
			}
			r.ob(rule, shortFn(enc)+":iv:"+exitID(P, enc, x), enc, x.ret, "structure encoder carries ok(cross-bucket IV check) on its Headers").check(ok, "ok("+shortFn(iv)+"($0.Headers))", "an encoder success exit lacks ok("+shortFn(iv)+"(Headers))")
		}
	}
	r.floor(rule, ne, 5, "structure encoder success exits")
}

// checkValidatorUniqueness: every accepted entry normalised its label and
// passed the duplicate test on the normalised label (R13.3 / R08.5).
// checkValidatorExhaustive: the validator accepts a map only after its loop
// has visited every entry: no non-failure return inside the per-entry loop,
// and every non-failure exit of the function lies behind the loop's exit.
func checkValidatorExhaustive(r *Report, rule string) {
	P := r.P
	val := P.headerValidator()
	eps, L := P.validatorEntryPaths(val)
	why := ""
	for _, ep := range eps {
		if ep.p.ret != nil && ep.accepted {
			why = "success is returned from inside the per-entry loop at " + P.instrPos(ep.p.ret) + ": entries not yet visited are never validated"
		}
	}
	for _, x := range P.factsOf(val).exits {
		if x.kind == exitFailure {
			continue
		}
		if !(L.exit == x.ret.Block() || L.exit.Dominates(x.ret.Block())) && why == "" {
			why = "a non-failure exit at " + P.instrPos(x.ret) + " is reachable without exhausting the per-entry loop"
		}
	}
	r.ob(rule, shortFn(val)+":exhaustive", val, nil, "the validator accepts only after every entry has been visited").check(why == "", "every non-failure exit lies behind the loop exit", why)
}

func checkValidatorUniqueness(r *Report, rule string) {
	P := r.P
	val := P.headerValidator()
	norm := P.labelNormalizer()
	eps, _ := P.validatorEntryPaths(val)
	why := ""
	helperFills := false
	for _, ep := range eps {
		if !ep.accepted {
			continue
		}
		okNorm, okDup := false, false
		for _, c := range ep.conds {
			if c.Val && c.Pred.Op == "res" && c.Pred.S == "1" && c.Pred.Args[0].Op == "call" && c.Pred.Args[0].S == shortFn(norm) {
				okNorm = true
			}
		}
		if t, ins := P.dupTested(ep.conds, norm); t {
			okDup = true
			if ins {
				helperFills = true
			}
		}
		if !okNorm {
			why = "an entry is accepted without a successful label normalisation"
		} else if !okDup {
			why = "an entry is accepted without the duplicate test on its normalised label"
		}
	}
	r.ob(rule, shortFn(val)+":unique", val, nil, "every accepted entry normalised its label and passed the duplicate test").check(why == "", "normalise ok and !seen(label) on every accepting path", why)
	// the set is filled with the normalised label
	filled := helperFills
	for _, b := range val.Blocks {
		for _, in := range b.Instrs {
			if mu, ok := in.(*ssa.MapUpdate); ok && strings.Contains(P.terms.of(mu.Key).String(), "call<"+shortFn(norm)+">") && P.terms.of(mu.Map).Op == "makemap" {
				filled = true
			}
		}
	}
	r.ob(rule, shortFn(val)+":records", val, nil, "the normalised label is recorded in the seen-set").check(filled, "seen[normalised label] = ...", "no insertion of the normalised label into a local set")
}

// dupTested: the conditions contain a passed duplicate test of a label
// produced by the normaliser against a local set: the inline form `_, seen :=
// set[L]; !seen`, or the true result of a test-and-insert helper (which then
// also records the label: second result).
func (P *Prog) dupTested(conds []Fact, norm *ssa.Function) (tested, inserted bool) {
	isNorm := func(t *Term) bool { return strings.Contains(t.String(), "call<"+shortFn(norm)+">") }
	for _, c := range conds {
		if !c.Val && c.Pred.Op == "res" && c.Pred.S == "1" && c.Pred.Args[0].Op == "lookup" && c.Pred.Args[0].S == "ok" && isNorm(c.Pred.Args[0].Args[1]) && c.Pred.Args[0].Args[0].Op == "makemap" {
			tested = true
		}
		if c.Val && c.Pred.Op == "call" && len(c.Pred.Args) == 2 && c.Pred.Args[0].Op == "makemap" && isNorm(c.Pred.Args[1]) {
			if h := P.calleeOfTerm(c.Pred); h != nil && P.isTestAndInsert(h) {
				tested, inserted = true, true
			}
		}
	}
	return
}

// isTestAndInsert: h(set, key) bool returns true only when key was absent
// from set and has been inserted on that path.
func (P *Prog) isTestAndInsert(h *ssa.Function) bool {
	if len(h.Params) != 2 || h.Signature.Results().Len() != 1 || boolResultIndex(h) != 0 {
		return false
	}
	nTrue := 0
	for _, p := range P.allPaths(h) {
		if !p.feasible() {
			continue
		}
		rt := p.results()[0]
		if rt.Op == "const" && rt.S == "false" {
			continue
		}
		if !(rt.Op == "const" && rt.S == "true") {
			return false
		}
		nTrue++
		absent := false
		for _, c := range p.conds {
			if !c.Val && c.Pred.Op == "res" && c.Pred.S == "1" && c.Pred.Args[0].Op == "lookup" && c.Pred.Args[0].Args[0].String() == "$0" && c.Pred.Args[0].Args[1].String() == "$1" {
				absent = true
			}
		}
		put := false
		p.instrs(func(in ssa.Instruction) {
			if mu, ok := in.(*ssa.MapUpdate); ok && p.eng.of(mu.Map).String() == "$0" && p.eng.of(mu.Key).String() == "$1" {
				put = true
			}
		})
		if !absent || !put {
			return false
		}
	}
	return nTrue > 0
}

func mutC13() []mutant {
	return []mutant{
		{Name: "uint8 labels are sign-extended on normalisation", File: "headers.go", Rule: "R13.7",
			Old: "\tcase uint8:\n\t\tlabel = int64(v)\n", New: "\tcase uint8:\n\t\tlabel = int64(int8(v))\n"},
		{Name: "D2 re-created: hasLabel looks the label up with a bare key", File: "headers.go", Quick: true, Rule: "R13.6",
			Old: "\t_, ok := lookupLabel(h, label)\n\treturn ok", New: "\t_, ok := h[label]\n\treturn ok"},
		{Name: "D5 re-created: the bstr predicate accepts a nil byte slice", File: "headers.go", Quick: true, Rule: "R13.1",
			Old: "\tb, ok := v.([]byte)\n\treturn ok && b != nil", New: "\t_, ok := v.([]byte)\n\treturn ok"},
		{Name: "uint content type ends the whole validation early", File: "headers.go", Rule: "R13.1", Key: "exhaustive", Nth: 2,
			Old: "\t\t\tisTstr := canTstr(value)\n", New: "\t\t\tif canUint(value) {\n\t\t\t\treturn nil\n\t\t\t}\n\t\t\tisTstr := canTstr(value)\n"},
		{Name: "kid arm also accepts text", File: "headers.go", Quick: true, Rule: "R13.1",
			Old: "\t\t\tif !canBstr(value) {\n\t\t\t\treturn errors.New(\"header parameter: kid: require bstr type\")", New: "\t\t\tif !canBstr(value) && !canTstr(value) {\n\t\t\t\treturn errors.New(\"header parameter: kid: require bstr type\")"},
		{Name: "crit allowed in the unprotected bucket", File: "headers.go", Rule: "R13.1",
			Old: "\t\t\tif !protected {\n\t\t\t\treturn errors.New(\"header parameter: crit: not allowed\")\n\t\t\t}\n", New: ""},
		{Name: "label 11 arm loses the protected refusal", File: "headers.go", Rule: "R13.1",
			Old: "\t\t\tif protected {\n\t\t\t\treturn errors.New(\"header parameter: Countersignature version 2: not allowed\")\n\t\t\t}\n", New: ""},
		{Name: "canUint loses int32", File: "headers.go", Rule: "R13.1",
			Old: "\tcase int32:\n\t\treturn v >= 0\n", New: ""},
		{Name: "canUint accepts negative int16", File: "headers.go", Rule: "R13.1",
			Old: "\tcase int16:\n\t\treturn v >= 0\n", New: "\tcase int16:\n\t\treturn true\n"},
		{Name: "normalizeLabel loses uint16", File: "headers.go", Rule: "R13.7",
			Old: "\tcase uint16:\n\t\tlabel = int64(v)\n", New: ""},
		{Name: "validator call removed from the unprotected decoder", File: "headers.go", Rule: "R13.2",
			Old: "\tif err := validateHeaderParameters(header, false); err != nil {\n\t\treturn fmt.Errorf(\"unprotected header: %w\", err)\n\t}\n\t*h = header", New: "\t*h = header"},
		{Name: "protected encoder validates with protected=false", File: "headers.go", Rule: "R13.2",
			Old: "\t\terr := validateHeaderParameters(h, true)\n", New: "\t\terr := validateHeaderParameters(h, false)\n"},
		{Name: "duplicate test on the un-normalised label", File: "headers.go", Rule: "R13.3",
			Old: "\t\tlabel, ok := normalizeLabel(label)\n\t\tif !ok {\n\t\t\treturn errors.New(\"header label: require int / tstr type\")\n\t\t}\n\n\t\t// Validate that there are no duplicated labels.\n\t\t// Reference: https://datatracker.ietf.org/doc/html/rfc8152#section-3\n\t\tif _, ok := existing[label]; ok {",
			New: "\t\traw := label\n\t\tlabel, ok := normalizeLabel(label)\n\t\tif !ok {\n\t\t\treturn errors.New(\"header label: require int / tstr type\")\n\t\t}\n\n\t\t// Validate that there are no duplicated labels.\n\t\t// Reference: https://datatracker.ietf.org/doc/html/rfc8152#section-3\n\t\tif _, ok := existing[raw]; ok {"},
		{Name: "Partial IV arm forgets the IV test", File: "headers.go", Rule: "R13.1",
			Old: "\t\t\tif hasLabel(h, HeaderLabelIV) {\n\t\t\t\treturn errors.New(\"header parameter: IV and PartialIV: parameters must not both be present\")\n\t\t\t}\n", New: ""},
		{Name: "content type no longer requires exactly one slash", File: "headers.go", Rule: "R13.1", Nth: 2,
			Old: "if strings.Count(v, \"/\") != 1 {", New: "if strings.Count(v, \"/\") < 1 {"},
		{Name: "crit elements no longer need to be present", File: "headers.go", Rule: "R13.5",
			Old: "\t\tif _, ok := lookupLabel(headers, label); !ok {\n\t\t\treturn fmt.Errorf(\"missing critical header: %v\", label)\n\t\t}\n", New: ""},
		{Name: "Signature encoder skips the cross-bucket IV check", File: "headers.go", Rule: "R13.2",
			Old: "func (h *Headers) marshal() (cbor.RawMessage, cbor.RawMessage, error) {\n\tif err := h.ensureIV(); err != nil {\n\t\treturn nil, nil, err\n\t}\n", New: "func (h *Headers) marshal() (cbor.RawMessage, cbor.RawMessage, error) {\n"},
		{Name: "cross-bucket IV check only one direction", File: "headers.go", Rule: "R13.2",
			Old: "\tif hasLabel(h.Protected, HeaderLabelPartialIV) && hasLabel(h.Unprotected, HeaderLabelIV) {\n\t\treturn errors.New(\"IV (unprotected) and PartialIV (protected) parameters must not both be present\")\n\t}\n", New: ""},
		{Name: "HeaderLabelKeyID renumbered", File: "headers.go", Rule: "R13.1",
			Old: "HeaderLabelKeyID               int64 = 4", New: "HeaderLabelKeyID               int64 = 14"},
	}
}

// checkLabelNormalizer (R13.7; shared with C06: the normaliser's result is a
// boxed int64 or a string, so comparing two normalised labels cannot panic).
func checkLabelNormalizer(r *Report, rule string) {
	P := r.P
	norm := P.labelNormalizer()
	{
		kt, ok, why := P.acceptedKinds(norm)
		want := wantKinds(nil, signedKinds, unsignedKinds, []string{"string"})
		o := r.ob(rule, shortFn(norm)+":kinds", norm, nil, "normalisation accepts the ten integer kinds and string")
		o.check(ok && kindsEqual(kt, want), kt.String(), "accepts "+kt.String()+" "+why)
		// conversions
		bad := ""
		for _, p := range P.allPaths(norm) {
			res := p.results()
			if res[1].Op == "const" && res[1].S == "false" {
				continue
			}
			v := res[0]
			switch {
			case v.String() == "$0":
				// string arm: must be under typeassert<string>
				if !p.has(Fact{&Term{Op: "res", S: "1", Args: []*Term{{Op: "typeassert", S: "string,ok", Args: []*Term{T("param", "0")}}}}, true}) {
					bad = "the label is returned unchanged on a path that is not the string arm"
				}
			case v.Op == "iface" && v.S == "int64":
				if why := intOfParam(P, v.Args[0], p, 0); why != "" {
					bad = "an accepting path returns the int64 " + truncate(v.Args[0].String(), 120) + ": " + why
				}
			case v.Op == "iface" && v.S == "string" && v.Args[0].String() == "res<0>(typeassert<string,ok>($0))" && p.has(Fact{&Term{Op: "res", S: "1", Args: []*Term{{Op: "typeassert", S: "string,ok", Args: []*Term{T("param", "0")}}}}, true}):
				// the string arm returning the asserted value re-wrapped: the same string
			default:
				bad = "an accepting path returns " + v.String() + ", neither an int64 nor the string itself"
			}
		}
		r.ob(rule, shortFn(norm)+":result", norm, nil, "integers are returned as int64, strings unchanged").check(bad == "", "int64 / string", bad)
	}
}

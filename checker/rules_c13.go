package main

// C13 — header parameter rules, identical on encode and decode.

import (
	"go/types"
	"sort"

	"golang.org/x/tools/go/ssa"
)

// headerMapValues: SSA values that denote header maps: values of type
// ProtectedHeader / UnprotectedHeader, conversions of them, and map[any]any
// parameters of in-package functions that receive such a value at some call
// site (fixpoint over call sites).
func (P *Prog) headerMapParams() map[*ssa.Parameter]bool {
	isHdrType := func(t types.Type) bool {
		return isNamed(t, cosePath, "ProtectedHeader") || isNamed(t, cosePath, "UnprotectedHeader")
	}
	params := map[*ssa.Parameter]bool{}
	var isHdr func(v ssa.Value, depth int) bool
	isHdr = func(v ssa.Value, depth int) bool {
		if depth > 8 {
			return false
		}
		if isHdrType(v.Type()) {
			return true
		}
		switch x := v.(type) {
		case *ssa.ChangeType:
			return isHdr(x.X, depth+1)
		case *ssa.Parameter:
			return params[x]
		case *ssa.Phi:
			for _, e := range x.Edges {
				if isHdr(e, depth+1) {
					return true
				}
			}
		}
		return false
	}
	for changed := true; changed; {
		changed = false
		for _, fn := range P.Funcs {
			for _, ci := range callsIn(fn, nil) {
				callee := staticCallee(ci)
				if callee == nil || !P.inPkg(callee) {
					continue
				}
				for i, a := range ci.Common().Args {
					if i < len(callee.Params) && !params[callee.Params[i]] && isHdr(a, 0) {
						if _, ok := callee.Params[i].Type().Underlying().(*types.Map); ok {
							params[callee.Params[i]] = true
							changed = true
						}
					}
				}
			}
		}
	}
	return params
}

func (P *Prog) isHeaderMapValue(v ssa.Value, params map[*ssa.Parameter]bool, depth int) bool {
	if depth > 8 {
		return false
	}
	if isNamed(v.Type(), cosePath, "ProtectedHeader") || isNamed(v.Type(), cosePath, "UnprotectedHeader") {
		return true
	}
	switch x := v.(type) {
	case *ssa.ChangeType:
		return P.isHeaderMapValue(x.X, params, depth+1)
	case *ssa.Parameter:
		return params[x]
	case *ssa.Phi:
		for _, e := range x.Edges {
			if P.isHeaderMapValue(e, params, depth+1) {
				return true
			}
		}
	}
	return false
}

// labelNormalizer: the in-package func(any) (any, bool) applied to ranged
// header-map keys by the header validator.
func (P *Prog) labelNormalizer() *ssa.Function {
	counts := map[*ssa.Function]int{}
	for _, fn := range P.Funcs {
		for _, ci := range callsIn(fn, nil) {
			c := staticCallee(ci)
			if c == nil || !P.inPkg(c) || len(c.Params) != 1 || c.Signature.Results().Len() != 2 {
				continue
			}
			if c.Params[0].Type().String() != "any" && c.Params[0].Type().String() != "interface{}" {
				continue
			}
			if b, ok := c.Signature.Results().At(1).Type().(*types.Basic); !ok || b.Kind() != types.Bool {
				continue
			}
			// argument is a ranged map key
			if ex, ok := ci.Common().Args[0].(*ssa.Extract); ok {
				if _, ok := ex.Tuple.(*ssa.Next); ok && ex.Index == 1 {
					counts[c]++
				}
			}
		}
	}
	var best *ssa.Function
	for f, n := range counts {
		if best == nil || n > counts[best] || (n == counts[best] && f.String() < best.String()) {
			best = f
		}
	}
	return best
}

// checkLabelLookups implements R13.6 (shared by C04, C08, C13).
func checkLabelLookups(r *Report, rule, prop string) {
	P := r.P
	params := P.headerMapParams()
	norm := P.labelNormalizer()
	if norm == nil {
		undecidedf("anchor not found: label normalisation function")
	}
	n := 0
	var fns []*ssa.Function
	fns = append(fns, P.Funcs...)
	sort.Slice(fns, func(i, j int) bool { return fns[i].String() < fns[j].String() })
	for _, fn := range fns {
		for _, b := range fn.Blocks {
			for _, in := range b.Instrs {
				lk, ok := in.(*ssa.Lookup)
				if !ok {
					continue
				}
				if _, isMap := lk.X.Type().Underlying().(*types.Map); !isMap {
					continue
				}
				if !P.isHeaderMapValue(lk.X, params, 0) {
					continue
				}
				n++
				keyT := P.terms.of(lk.Index)
				o := r.ob(rule, shortFn(fn)+":lookup:"+keyT.String(), fn, lk, "keyed read of a header map by label is insensitive to the Go integer type spelling the label")
				// discharged when the same function also scans the same map
				// normalising each key (fallback scan)
				scan := false
				for _, l := range findLoops(fn) {
					if l.kind != "map-range" || l.over == nil || !P.terms.of(l.over).eq(P.terms.of(lk.X)) {
						continue
					}
					for blk := range l.blocks {
						for _, i2 := range blk.Instrs {
							if ci, ok := i2.(ssa.CallInstruction); ok && staticCallee(ci) == norm {
								if ex, ok := ci.Common().Args[0].(*ssa.Extract); ok && ex.Index == 1 {
									if nx, ok := ex.Tuple.(*ssa.Next); ok {
										if rg, ok := nx.Iter.(*ssa.Range); ok && rg == l.rangeInstr() {
											scan = true
										}
									}
								}
							}
						}
					}
				}
				o.check(scan, "function falls back to a scan that applies "+shortFn(norm)+" to every key of the same map",
					"bare keyed lookup "+P.terms.of(lk.X).String()+"["+keyT.String()+"]: finds the label only when it is spelt with the same Go type (int64(5) vs int(5)); no normalising scan of the map in this function")
			}
		}
	}
	r.floor(rule, n, 1, "keyed header-map lookups")
}

func (l *loopInfo) rangeInstr() *ssa.Range {
	iff, ok := l.header.Instrs[len(l.header.Instrs)-1].(*ssa.If)
	if !ok {
		return nil
	}
	if ex, ok := iff.Cond.(*ssa.Extract); ok {
		if nx, ok := ex.Tuple.(*ssa.Next); ok {
			if rg, ok := nx.Iter.(*ssa.Range); ok {
				return rg
			}
		}
	}
	return nil
}

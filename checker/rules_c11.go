package main

// C11 — COSE_Sign verification/signing is positional and all-or-nothing.

import (
	"fmt"
	"go/token"
	"go/types"
	"strconv"
	"strings"

	"golang.org/x/tools/go/ssa"
)

func init() {
	register(&propSpec{id: "C11", title: "COSE_Sign is positional and all-or-nothing", run: runC11, mutants: mutC11, design: "DESIGN.md section 3, C11"})
}

// elemIndexOf: v = X[idx] (load of IndexAddr, or Index).
func elemIndexOf(v ssa.Value) (base, idx ssa.Value) {
	for {
		if ct, ok := v.(*ssa.ChangeType); ok {
			v = ct.X
			continue
		}
		break
	}
	switch x := v.(type) {
	case *ssa.UnOp:
		if x.Op == token.MUL {
			if ia, ok := x.X.(*ssa.IndexAddr); ok {
				return ia.X, ia.Index
			}
		}
	case *ssa.Index:
		return x.X, x.Index
	}
	return nil, nil
}

// positionalLoopOK checks R11.2 for the non-failure exit x of fn; invoke is the
// key invocation every element must have passed ("invoke:Verifier.Verify" or
// "invoke:Signer.Sign"). Returns "" when the obligation holds.
func positionalLoopOK(P *Prog, fn *ssa.Function, x *exitInfo, invoke string) string {
	var keyParam *ssa.Parameter
	want := "Verifier"
	if strings.Contains(invoke, "Signer") {
		want = "Signer"
	}
	for _, p := range fn.Params {
		if s, ok := p.Type().(*types.Slice); ok && isNamed(s.Elem(), cosePath, want) {
			keyParam = p
		}
	}
	if keyParam == nil {
		return "no []" + want + " parameter"
	}
	var loops []*loopInfo
	for _, l := range findLoops(fn) {
		loops = append(loops, l)
	}
	if len(loops) != 1 {
		return fmt.Sprintf("expected exactly one loop, found %d", len(loops))
	}
	L := loops[0]
	if !(L.kind == "slice-range" || L.kind == "counted") || !L.fullRange {
		return "the loop is not a full-range index loop (kind " + L.kind + ")"
	}
	overT := P.terms.of(L.over)
	if !strings.HasPrefix(overT.String(), "*$0.") {
		return "the loop does not range over a field of the receiver: " + overT.String()
	}
	if !(L.exit == x.ret.Block() || L.exit.Dominates(x.ret.Block())) {
		return "a non-failure exit is reachable without completing the loop"
	}
	paths := P.enumPaths(fn, L.body, func(b *ssa.BasicBlock) bool { return b == L.header }, false)
	if len(paths) == 0 {
		return "loop body has no path"
	}
	back := 0
	for _, p := range paths {
		if p.ret != nil {
			// leaving the loop from the body: must be a failure exit
			res := p.results()
			ei := errIndex(fn)
			fs := factSet{}
			for _, c := range p.conds {
				fs.add(c)
			}
			k, _ := P.classifyErr(res[ei], fs)
			if k != exitFailure {
				return "the loop body can return without an error (" + res[ei].String() + ") at " + P.instrPos(p.ret)
			}
			continue
		}
		if p.stop != L.header {
			continue
		}
		back++
		// find the per-element call on this path
		var found ssa.CallInstruction
		why := "an iteration can complete without a successful per-element call"
		p.instrs(func(in ssa.Instruction) {
			ci, ok := in.(ssa.CallInstruction)
			if !ok || found != nil {
				return
			}
			callee := ci.Common().StaticCallee()
			if callee == nil || !P.inPkg(callee) || ci.Value() == nil {
				return
			}
			args := ci.Common().Args
			if len(args) < 2 {
				return
			}
			// receiver is Signatures[idx]
			base, idx := elemIndexOf(args[0])
			if base == nil || !P.terms.of(base).eq(overT) {
				return
			}
			if idx != L.idx {
				why = "per-element call's receiver is not indexed by the loop index at " + P.instrPos(ci)
				return
			}
			// some argument is keyParam[idx]
			okKey := false
			keyArg := -1
			for ai, a := range args[1:] {
				b2, i2 := elemIndexOf(a)
				if b2 == ssa.Value(keyParam) {
					if i2 == L.idx {
						okKey = true
						keyArg = ai + 1
					} else {
						why = "the " + want + " handed to the per-element call is not indexed by the loop index at " + P.instrPos(ci)
					}
				}
			}
			if !okKey {
				if !strings.Contains(why, "not indexed") {
					why = "the per-element call does not receive " + keyParam.Name() + "[i] at " + P.instrPos(ci)
				}
				return
			}
			// callee invokes the key it was given, on its success paths
			sum := P.successFacts(callee)
			var inv *Term
			for _, c := range sum.findOK(func(call *Term) bool { return call.S == invoke }) {
				if c.Args[0].String() == "$"+strconv.Itoa(keyArg) {
					inv = c
				}
			}
			if inv == nil {
				why = "the per-element callee " + shortFn(callee) + " does not carry ok(" + invoke + ") on its " + want + " parameter"
				return
			}
			// success of this call is a condition of the path
			if !p.has(okFact(p.eng.of(ci.Value()))) {
				why = "the error of the per-element call is not tested on the way to the next iteration at " + P.instrPos(ci)
				return
			}
			found = ci
		})
		if found == nil {
			return why
		}
	}
	if back == 0 {
		return "loop has no back edge path"
	}
	return ""
}

func runC11(r *Report, tier string) {
	P := r.P
	// round 6
	r.rule("R05.4", "(shared with C05) no structure decoder stores an empty signature: a COSE_Sign whose element carries a zero-length signature in any head width is refused, not decoded into a message that can only fail later.")
	checkDecodersRefuseEmptySignature(r, "R05.4")
	r.rule("R11.1", "SignMessage.Verify/Sign: before the loop, payload non-nil, len(Signatures) != 0 and len(Signatures) == len(verifiers|signers).")
	r.rule("R11.2", "the per-signature call sits in a full-range index loop over m.Signatures; receiver Signatures[i] and key verifiers[i]/signers[i] use the same index value; its error is tested every iteration and any non-nil error leaves through a failure exit; success is only reachable from the loop exit.")
	r.rule("R11.3", "SignMessage encoder: len(Signatures) != 0 and each element's encoder succeeded (which itself requires non-nil element and non-empty signature); decoder: non-empty signature list and each element decoded by the Signature decoder.")
	r.rule("R11.4", "each element is signed/verified through the Signature key site (so C02/C04/C20 rules apply per position).")
	sm := P.mustNamed("SignMessage")
	for _, name := range []string{"Verify", "Sign"} {
		fn := P.methodOf(sm, name)
		if fn == nil {
			undecidedf("anchor not found: SignMessage.%s", name)
		}
		invoke := "invoke:Verifier.Verify"
		if name == "Sign" {
			invoke = "invoke:Signer.Sign"
		}
		var keyParam *Term
		for i, p := range fn.Params {
			if _, ok := p.Type().(*types.Slice); ok && p.Type().String() != "[]byte" {
				keyParam = T("param", strconv.Itoa(i))
			}
		}
		sigs := &Term{Op: "load", Args: []*Term{{Op: "field", S: "Signatures", Args: []*Term{T("param", "0")}}}}
		payload := &Term{Op: "load", Args: []*Term{{Op: "field", S: "Payload", Args: []*Term{T("param", "0")}}}}
		n := 0
		for _, x := range P.factsOf(fn).exits {
			r.paths++
			if x.kind == exitFailure {
				continue
			}
			n++
			id := fmt.Sprintf("%s:exit:%s", shortFn(fn), exitID(P, fn, x))
			o := r.ob("R11.1", id+":count-gate", fn, x.ret, "payload non-nil, signatures non-empty, counts equal on every non-failure exit")
			fs := x.facts
			c1 := fs.holdsNonNil(payload)
			c2 := fs.holdsNonEmpty(sigs)
			c3 := keyParam != nil && fs.holdsEq(tLen(sigs), tLen(keyParam))
			o.check(c1 && c2 && c3, "facts payload!=nil, len(Signatures)!=0, len(Signatures)==len(keys)",
				fmt.Sprintf("payload non-nil:%v signatures non-empty:%v len(Signatures)==len(%s):%v", c1, c2, want(name), c3))
			o2 := r.ob("R11.2", id+":loop", fn, x.ret, "positional exhaustive loop")
			why := positionalLoopOK(P, fn, x, invoke)
			o2.check(why == "", "full-range loop, same index for signature and key, error tested and returned", why)
		}
		r.floor("R11.1", n, 1, "non-failure exits of SignMessage."+name)
		// R11.4: the per-element callee is the Signature method with a key site
		sigT := P.mustNamed("Signature")
		callee := P.methodOf(sigT, name)
		o4 := r.ob("R11.4", shortFn(fn)+":per-element-site", fn, nil, "elements go through the Signature key site")
		has := false
		for _, ci := range callsIn(fn, nil) {
			if staticCallee(ci) == callee {
				has = true
			}
		}
		ks := false
		for _, s := range P.keySites() {
			if s.fn == callee {
				ks = true
			}
		}
		o4.check(has && ks, "calls "+shortFn(callee)+" which holds a key site", "SignMessage."+name+" does not call Signature."+name+" or that method has no key site")
	}
	checkSignMessageEncoderElems(r, "R11.3")
	// every use of the (shared) protected bytes sees them as they were
	r.rule("R01.5", "(shared with C01) the ToBeSigned builders write no memory that existed before the call.")
	checkBuilderPurity(r, "R01.5")
	// decoder
	checkSignMessageDecoderElems(r, "R11.3")
	// "over that signer's own Sig_structure": verification neither repairs nor
	// otherwise writes the message it judges
	r.rule("R04.2", "(shared with C04) the verification gate succeeds only for alg equal or alg absent with external data, and writes nothing.")
	checkGatesOnly(r)
	r.rule("R16.2", "(shared with C16) a built-in ES* SignDigest that reports success returns the encode helper's result (never an empty signature with a nil error).")
	checkECDSASignDigestPaths(r, "R16.2")
	r.rule("R18.1", "(shared with C18) SignMessage.Verify and Signature.Verify write no memory that existed before the call.")
	for _, tn := range []string{"SignMessage", "Signature"} {
		fn := P.methodOf(P.mustNamed(tn), "Verify")
		if fn == nil {
			undecidedf("anchor not found: %s.Verify", tn)
		}
		ws := P.effects.summary(fn).writes
		r.ob("R18.1", shortFn(fn)+":writes", fn, nil, "write set on pre-existing memory is empty").check(len(ws) == 0, "empty write set", "writes "+writeList(ws, P))
	}
}

// checkSignMessageEncoderElems: the COSE_Sign encoder succeeds only with a
// non-empty list every element of which passed the Signature encoder, which
// itself refuses nil and unsigned elements (R11.3, shared with R20.3).
func checkSignMessageEncoderElems(r *Report, rule string) {
	P := r.P
	sm := P.mustNamed("SignMessage")
	// R11.3 encoder
	enc := P.methodOf(sm, "MarshalCBOR")
	dec := P.methodOf(sm, "UnmarshalCBOR")
	if enc == nil || dec == nil {
		undecidedf("anchor not found: SignMessage.MarshalCBOR/UnmarshalCBOR")
	}
	sigs := &Term{Op: "load", Args: []*Term{{Op: "field", S: "Signatures", Args: []*Term{T("param", "0")}}}}
	for _, x := range P.factsOf(enc).exits {
		if x.kind == exitFailure {
			continue
		}
		o := r.ob(rule, shortFn(enc)+":exit:"+exitID(P, enc, x), enc, x.ret, "encoder: signatures non-empty and every element encoded by the Signature encoder")
		c1 := x.facts.holdsNonEmpty(sigs)
		why := perElementLoopOK(P, enc, x, sigs, P.methodOf(P.mustNamed("Signature"), "MarshalCBOR"))
		o.check(c1 && why == "", "len(Signatures)!=0 and per-element ok(Signature.MarshalCBOR)", fmt.Sprintf("signatures non-empty:%v; %s", c1, why))
	}
	// element encoder requires non-nil and non-empty signature
	selem := P.methodOf(P.mustNamed("Signature"), "MarshalCBOR")
	for _, x := range P.factsOf(selem).exits {
		if x.kind == exitFailure {
			continue
		}
		o := r.ob(rule, shortFn(selem)+":exit:"+exitID(P, selem, x), selem, x.ret, "Signature encoder: receiver non-nil, signature non-empty")
		sg := &Term{Op: "load", Args: []*Term{{Op: "field", S: "Signature", Args: []*Term{T("param", "0")}}}}
		o.check(x.facts.holdsNonNil(T("param", "0")) && x.facts.holdsNonEmpty(sg), "facts recv!=nil, len(Signature)!=0", "an exit of the Signature encoder lacks the nil/empty-signature refusal")
	}
}

// checkSignMessageDecoderElems: the COSE_Sign decoder refuses an empty
// signature list and decodes every element with the Signature decoder
// (shared by R11.3 and R05.4).
func checkSignMessageDecoderElems(r *Report, rule string) {
	P := r.P
	dec := P.methodOf(P.mustNamed("SignMessage"), "UnmarshalCBOR")
	if dec == nil {
		undecidedf("anchor not found: SignMessage.UnmarshalCBOR")
	}
	for _, x := range P.factsOf(dec).exits {
		if x.kind == exitFailure {
			continue
		}
		o := r.ob(rule, shortFn(dec)+":exit:"+exitID(P, dec, x), dec, x.ret, "decoder: raw signature list non-empty and every element decoded by the Signature decoder")
		// non-empty raw list: some fact !(0 == len(X)) where X is a field named Signatures of the decoded wire struct
		c1 := false
		var listT *Term
		for _, f := range x.facts {
			if !f.Val && f.Pred.Op == "binop" && f.Pred.S == "==" && f.Pred.Args[0].String() == "0" && f.Pred.Args[1].Op == "len" {
				inner := f.Pred.Args[1].Args[0]
				if inner.Op == "field" && inner.Args[0].Op == "mod" {
					c1 = true
					listT = inner
				}
			}
		}
		why := "no non-empty check of the decoded signature list"
		if c1 {
			why = perElementLoopOK(P, dec, x, listT, P.methodOf(P.mustNamed("Signature"), "UnmarshalCBOR"))
		}
		o.check(c1 && why == "", "len(raw list)!=0 and per-element ok(Signature.UnmarshalCBOR)", why)
	}
}

func want(name string) string {
	if name == "Sign" {
		return "signers"
	}
	return "verifiers"
}

// perElementLoopOK: exit x of fn is only reachable after a full-range loop
// over `over` in which every iteration passed ok(callee(... element ...)).
func perElementLoopOK(P *Prog, fn *ssa.Function, x *exitInfo, over *Term, callee *ssa.Function) string {
	return perElementLoopOKd(P, fn, x, over, callee, 0)
}

func perElementLoopOKd(P *Prog, fn *ssa.Function, x *exitInfo, over *Term, callee *ssa.Function, depth int) string {
	return perElementLoopOKf(P, fn, x, over, callee, depth, nil)
}

// impliesCallee: success of g implies ok(callee(...)) on something derived
// from g's own parameter (g is the callee or a thin adapter around it).
func impliesCallee(P *Prog, g, callee *ssa.Function) bool {
	if g == callee {
		return true
	}
	if g == nil || !P.inPkg(g) || errIndex(g) < 0 {
		return false
	}
	n := 0
	for _, gx := range P.factsOf(g).exits {
		if gx.kind == exitFailure {
			continue
		}
		n++
		found := false
		for _, f := range exitFacts(P, gx) {
			if !f.Val || f.Pred.Op != "binop" || f.Pred.S != "==" {
				continue
			}
			for i := 0; i < 2; i++ {
				c := f.Pred.Args[i]
				if c.Op == "res" && len(c.Args) == 1 {
					c = c.Args[0]
				}
				if f.Pred.Args[1-i].Op == "nil" && c.Op == "call" && c.S == shortFn(callee) && c.contains(func(u *Term) bool { return u.Op == "param" }) {
					found = true
				}
			}
		}
		if !found {
			return false
		}
	}
	return n > 0
}

// perElementLoopOKf: fnArgs maps parameter indexes of fn to the functions the
// caller passes there (a per-element function handed to a generic loop helper).
func perElementLoopOKf(P *Prog, fn *ssa.Function, x *exitInfo, over *Term, callee *ssa.Function, depth int, fnArgs map[int]*ssa.Function) string {
	if callee == nil {
		return "per-element callee not found"
	}
	var L *loopInfo
	for _, l := range findLoops(fn) {
		if l.over != nil && P.terms.of(l.over).eq(over) {
			L = l
		}
	}
	if L == nil {
		// the loop may live in a helper that receives the list: the exit must
		// hold the helper's success and every non-failure exit of the helper
		// must satisfy the rule for its parameter
		if depth < 3 {
			for _, ci := range callsIn(fn, nil) {
				h := staticCallee(ci)
				if h == nil || !P.inPkg(h) || h == callee || ci.Value() == nil {
					continue
				}
				k := -1
				for i, a := range ci.Common().Args {
					if P.terms.of(a).eq(over) {
						k = i
					}
				}
				if k < 0 {
					continue
				}
				if hei := errIndex(h); hei >= 0 {
					errV := P.terms.of(ci.Value())
					if h.Signature.Results().Len() > 1 {
						errV = &Term{Op: "res", S: strconv.Itoa(hei), Args: []*Term{errV}}
					}
					if !x.facts.has(okFact(errV)) {
						continue
					}
				} else if !ci.Block().Dominates(x.ret.Block()) {
					continue
				}
				why := ""
				for _, hx := range P.factsOf(h).exits {
					if hx.kind == exitFailure {
						continue
					}
					// functions handed to the helper by value
					fa := map[int]*ssa.Function{}
					for i, a := range ci.Common().Args {
						switch fv := a.(type) {
						case *ssa.Function:
							fa[i] = fv
						case *ssa.MakeClosure:
							if g, ok := fv.Fn.(*ssa.Function); ok && len(fv.Bindings) == 0 {
								fa[i] = g
							}
						}
					}
					if w := perElementLoopOKf(P, h, hx, T("param", strconv.Itoa(k)), callee, depth+1, fa); w != "" {
						why = w
					}
				}
				if why == "" {
					return ""
				}
				return "in helper " + shortFn(h) + ": " + why
			}
		}
		return "no loop ranges over " + over.String()
	}
	if !(L.kind == "slice-range" || L.kind == "counted") || !L.fullRange {
		return "the loop over " + over.String() + " is not a full-range index loop"
	}
	if !(L.exit == x.ret.Block() || L.exit.Dominates(x.ret.Block())) {
		return "a non-failure exit is reachable without completing the loop"
	}
	for _, p := range P.enumPaths(fn, L.body, func(b *ssa.BasicBlock) bool { return b == L.header }, false) {
		if p.ret != nil {
			res := p.results()
			fs := factSet{}
			for _, c := range p.conds {
				fs.add(c)
			}
			if k, _ := P.classifyErr(res[errIndex(fn)], fs); k != exitFailure {
				return "the loop body can return without an error at " + P.instrPos(p.ret)
			}
			continue
		}
		ok := false
		p.instrs(func(in ssa.Instruction) {
			ci, isCall := in.(ssa.CallInstruction)
			if !isCall || ci.Value() == nil {
				return
			}
			viaParam := false
			if staticCallee(ci) != callee {
				// the per-element function received as a parameter
				prm, isPrm := ci.Common().Value.(*ssa.Parameter)
				if !isPrm || ci.Common().IsInvoke() || fnArgs == nil || !impliesCallee(P, fnArgs[paramIndex(prm)], callee) {
					return
				}
				viaParam = true
			}
			// one argument (receiver or data) is over[idx]
			elem := false
			for _, a := range ci.Common().Args {
				if b, i := elemIndexOf(a); b != nil && i == L.idx && P.terms.of(b).eq(over) {
					elem = true
				}
			}
			if !elem {
				return
			}
			errV := p.eng.of(ci.Value())
			if ci.Value().Type().String() != "error" {
				ei := errIndex(callee)
				if viaParam {
					// the error result of the function value's own signature
					ei = -1
					if tup, isTup := ci.Value().Type().(*types.Tuple); isTup {
						for k := tup.Len() - 1; k >= 0; k-- {
							if tup.At(k).Type().String() == "error" {
								ei = k
								break
							}
						}
					}
					if ei < 0 {
						return
					}
				}
				errV = &Term{Op: "res", S: strconv.Itoa(ei), Args: []*Term{errV}}
			}
			if p.has(okFact(errV)) {
				ok = true
			}
		})
		if !ok {
			return "an iteration can complete without ok(" + shortFn(callee) + "(element))"
		}
	}
	return ""
}

func mutC11() []mutant {
	loopV := "\t\tif err := signature.Verify(verifiers[i], protected, m.Payload, external); err != nil {\n\t\t\treturn err\n\t\t}\n"
	return []mutant{
		{Name: "Verify loop uses verifiers[0] for every signature", File: "sign.go", Quick: true, Rule: "R11.2",
			Old: "signature.Verify(verifiers[i], protected", New: "signature.Verify(verifiers[i/len(verifiers)], protected"},
		{Name: "Verify loop uses verifiers in reverse order", File: "sign.go", Rule: "R11.2",
			Old: "signature.Verify(verifiers[i], protected", New: "signature.Verify(verifiers[len(verifiers)-1-i], protected"},
		{Name: "Verify loop ignores the per-signature error", File: "sign.go", Rule: "R11.2",
			Old: loopV, New: "\t\t_ = signature.Verify(verifiers[i], protected, m.Payload, external)\n"},
		{Name: "Verify loop continues after an error", File: "sign.go", Rule: "R11.2",
			Old: loopV, New: "\t\tif err := signature.Verify(verifiers[i], protected, m.Payload, external); err != nil {\n\t\t\tcontinue\n\t\t}\n"},
		{Name: "Verify loop skips the first signature", File: "sign.go", Rule: "R11.2",
			Old: "\tfor i, signature := range m.Signatures {\n\t\tif err := signature.Verify(", New: "\tfor i, signature := range m.Signatures {\n\t\tif i == 0 {\n\t\t\tcontinue\n\t\t}\n\t\tif err := signature.Verify("},
		{Name: "Verify count check only refuses too few verifiers", File: "sign.go", Quick: true, Rule: "R11.1",
			Old: "\tswitch len(m.Signatures) {\n\tcase 0:\n\t\treturn ErrNoSignatures\n\tcase len(verifiers):\n\t\t// no ops\n\tdefault:\n\t\treturn fmt.Errorf(\"%d verifiers for %d signatures\", len(verifiers), len(m.Signatures))\n\t}",
			New: "\tif len(m.Signatures) == 0 {\n\t\treturn ErrNoSignatures\n\t}\n\tif len(verifiers) < len(m.Signatures) {\n\t\treturn fmt.Errorf(\"%d verifiers for %d signatures\", len(verifiers), len(m.Signatures))\n\t}"},
		{Name: "Sign loop uses signers[0]", File: "sign.go", Rule: "R11.2",
			Old: "signature.Sign(rand, signers[i], protected", New: "signature.Sign(rand, signers[i/len(signers)], protected"},
		{Name: "SignMessage encoder skips elements with empty signature", File: "sign.go", Rule: "R11.3",
			Old: "\t\tsigCBOR, err := sig.MarshalCBOR()\n\t\tif err != nil {\n\t\t\treturn nil, err\n\t\t}", New: "\t\tsigCBOR, err := sig.MarshalCBOR()\n\t\tif err != nil {\n\t\t\tcontinue\n\t\t}"},
		{Name: "SignMessage decoder accepts an empty signature list", File: "sign.go", Rule: "R11.3",
			Old: "\tif len(raw.Signatures) == 0 {\n\t\treturn ErrNoSignatures\n\t}\n", New: ""},
		{Name: "Signature encoder drops the empty-signature refusal", File: "sign.go", Rule: "R11.3",
			Old: "\tif len(s.Signature) == 0 {\n\t\treturn nil, ErrEmptySignature\n\t}\n", New: ""},
	}
}

package main

// E0: loading of /repo into type-checked syntax + SSA, with the sanity
// assertions DESIGN.md 2.2 asks for. Nothing of /repo is ever executed.

import (
	"fmt"
	"go/ast"
	"go/token"
	"go/types"
	"os"
	"path/filepath"
	"sort"
	"strings"

	"golang.org/x/tools/go/packages"
	"golang.org/x/tools/go/ssa"
	"golang.org/x/tools/go/ssa/ssautil"
)

const cosePath = "github.com/veraison/go-cose"
const cborPath = "github.com/fxamacker/cbor/v2"

// Prog is one loaded variant of the repository (the real tree, or the real
// tree with one file replaced through an overlay by a mutator).
type Prog struct {
	Repo         string
	kindsBusy    map[*ssa.Function]bool
	expandKeep   func(*ssa.Function) bool // functions expand() leaves as calls (set temporarily)
	casePathMemo map[*ssa.Function][]*Path
	Fset         *token.FileSet
	Pkg          *packages.Package
	SSA          *ssa.Program
	SPkg         *ssa.Package
	Funcs        []*ssa.Function // all source functions of the package incl. closures, sorted
	Files        []string
	byName       map[string]*ssa.Function
	terms        *termEngine
	effects      *effectEngine
	facts        map[*ssa.Function]*factResult
	constGlobals map[string]*Term
}

// undecided is panicked by engines/rules when the checker cannot do its job
// (exit 2, never a VIOLATION).
type undecided struct{ msg string }

func undecidedf(format string, a ...any) { panic(undecided{fmt.Sprintf(format, a...)}) }

func loadProg(repo string, overlay map[string][]byte, env []string) (*Prog, error) {
	cfg := &packages.Config{
		Mode:    packages.LoadSyntax,
		Dir:     repo,
		Tests:   false,
		Overlay: overlay,
		Env: append(append(os.Environ(),
			"GOWORK=off", "GOFLAGS=-mod=mod", "GOPROXY=off", "GOSUMDB=off", "GOTOOLCHAIN=local"), env...),
	}
	pkgs, err := packages.Load(cfg, ".")
	if err != nil {
		return nil, fmt.Errorf("load: %w", err)
	}
	if len(pkgs) != 1 {
		return nil, fmt.Errorf("load: expected exactly one root package, got %d", len(pkgs))
	}
	p := pkgs[0]
	if p.PkgPath != cosePath {
		return nil, fmt.Errorf("load: root package is %q, expected %q", p.PkgPath, cosePath)
	}
	if len(p.Errors) > 0 {
		var sb strings.Builder
		for _, e := range p.Errors {
			sb.WriteString(e.Error())
			sb.WriteString("; ")
		}
		return nil, fmt.Errorf("load: type errors: %s", sb.String())
	}
	if p.Types == nil || p.TypesInfo == nil {
		return nil, fmt.Errorf("load: no type information")
	}
	prog, spkgs := ssautil.Packages(pkgs, ssa.InstantiateGenerics)
	prog.Build()
	if len(spkgs) != 1 || spkgs[0] == nil {
		return nil, fmt.Errorf("load: no SSA package")
	}
	P := &Prog{Repo: repo, Fset: p.Fset, Pkg: p, SSA: prog, SPkg: spkgs[0], byName: map[string]*ssa.Function{}}
	for _, f := range p.CompiledGoFiles {
		P.Files = append(P.Files, filepath.Base(f))
	}
	sort.Strings(P.Files)
	// source functions: members, methods of named types, and their closures
	seen := map[*ssa.Function]bool{}
	var add func(f *ssa.Function)
	add = func(f *ssa.Function) {
		if f == nil || seen[f] {
			return
		}
		seen[f] = true
		if f.Blocks != nil || f.Synthetic == "" {
			P.Funcs = append(P.Funcs, f)
		}
		for _, a := range f.AnonFuncs {
			add(a)
		}
	}
	for _, m := range P.SPkg.Members {
		switch m := m.(type) {
		case *ssa.Function:
			if m.Synthetic == "" || m.Name() == "init" {
				add(m)
			}
		case *ssa.Type:
			for _, T := range []types.Type{m.Type(), types.NewPointer(m.Type())} {
				ms := prog.MethodSets.MethodSet(T)
				for i := 0; i < ms.Len(); i++ {
					fn := prog.MethodValue(ms.At(i))
					if fn != nil && fn.Synthetic == "" && fn.Pkg == P.SPkg {
						add(fn)
					}
				}
			}
		}
	}
	// instantiations of the package's generic functions (their Pkg is nil)
	for f := range ssautil.AllFunctions(prog) {
		if o := f.Origin(); o != nil && o != f && o.Pkg == P.SPkg && f.Blocks != nil {
			add(f)
		}
	}
	sort.Slice(P.Funcs, func(i, j int) bool { return P.Funcs[i].String() < P.Funcs[j].String() })
	for _, f := range P.Funcs {
		P.byName[f.String()] = f
		// generic instantiations carry type arguments with package paths: also
		// register them under the name a printed call term resolves to
		if k := unshortFn(shortFn(f)); P.byName[k] == nil {
			P.byName[k] = f
		}
	}
	P.terms = newTermEngine(P)
	P.effects = newEffectEngine(P)
	P.facts = map[*ssa.Function]*factResult{}
	return P, nil
}

// assertFloors implements the loader floors of DESIGN.md 2.2 for the real tree.
func (P *Prog) assertFloors() error {
	if len(P.Files) < 15 {
		return fmt.Errorf("loader floor: %d files < 15", len(P.Files))
	}
	n := 0
	for _, f := range P.Funcs {
		if f.Synthetic == "" {
			n++
		}
	}
	if n < 130 {
		return fmt.Errorf("loader floor: %d source functions < 130", n)
	}
	return nil
}

func (P *Prog) pos(p token.Pos) string {
	if !p.IsValid() {
		return "-"
	}
	pp := P.Fset.Position(p)
	return fmt.Sprintf("%s:%d:%d", filepath.Base(pp.Filename), pp.Line, pp.Column)
}

// instrPos gives the best position for an instruction (falls back to the
// function for NoPos instructions such as rotated range loops).
func (P *Prog) instrPos(i ssa.Instruction) string {
	if i == nil {
		return "-"
	}
	if p := i.Pos(); p.IsValid() {
		return P.pos(p)
	}
	// try operands
	for _, op := range i.Operands(nil) {
		if *op != nil {
			if p := (*op).Pos(); p.IsValid() {
				return P.pos(p)
			}
		}
	}
	if i.Parent() != nil {
		return P.pos(i.Parent().Pos())
	}
	return "-"
}

// fn looks a function up by exported anchor. Methods: "(*T).M" or "(T).M";
// package functions: "F".
func (P *Prog) fn(name string) *ssa.Function {
	if strings.HasPrefix(name, "(") {
		// (*T).M
		r := strings.Index(name, ").")
		recv, meth := name[1:r], name[r+2:]
		full := "(" + strings.Replace(recv, "*", "*"+cosePath+".", 1) + ")." + meth
		if !strings.HasPrefix(recv, "*") {
			full = "(" + cosePath + "." + recv + ")." + meth
		}
		return P.byName[full]
	}
	return P.byName[cosePath+"."+name]
}

func (P *Prog) mustFn(name string) *ssa.Function {
	f := P.fn(name)
	if f == nil {
		undecidedf("anchor not found: function %s", name)
	}
	return f
}

// namedType returns the package-level named type.
func (P *Prog) namedType(name string) *types.Named {
	o := P.Pkg.Types.Scope().Lookup(name)
	if o == nil {
		return nil
	}
	n, _ := o.Type().(*types.Named)
	return n
}

func (P *Prog) mustNamed(name string) *types.Named {
	n := P.namedType(name)
	if n == nil {
		undecidedf("anchor not found: type %s", name)
	}
	return n
}

func (P *Prog) global(name string) *ssa.Global {
	g, _ := P.SPkg.Members[name].(*ssa.Global)
	return g
}

func (P *Prog) constVal(name string) (int64, bool) {
	o := P.Pkg.Types.Scope().Lookup(name)
	c, ok := o.(*types.Const)
	if !ok {
		return 0, false
	}
	return constInt64(c.Val())
}

func (P *Prog) mustConst(name string) int64 {
	v, ok := P.constVal(name)
	if !ok {
		undecidedf("anchor not found: integer constant %s", name)
	}
	return v
}

// inPkg reports whether fn is a function with a body defined in the package.
func (P *Prog) inPkg(fn *ssa.Function) bool {
	if fn == nil || fn.Blocks == nil {
		return false
	}
	if fn.Pkg == P.SPkg {
		return true
	}
	// an instantiation of one of the package's generic functions
	o := fn.Origin()
	return o != nil && o != fn && o.Pkg == P.SPkg
}

// funcDecl finds the syntax of a function (for mutators).
func (P *Prog) funcDecl(fn *ssa.Function) *ast.FuncDecl {
	if fd, ok := fn.Syntax().(*ast.FuncDecl); ok {
		return fd
	}
	return nil
}

func shortFn(fn *ssa.Function) string {
	if fn == nil {
		return "<nil>"
	}
	s := fn.String()
	s = strings.ReplaceAll(s, cosePath+".", "")
	s = strings.ReplaceAll(s, cborPath+".", "cbor.")
	return s
}

func shortType(t types.Type) string {
	if t == nil {
		return "?"
	}
	s := t.String()
	s = strings.ReplaceAll(s, cosePath+".", "")
	s = strings.ReplaceAll(s, cborPath+".", "cbor.")
	return s
}

package main

// C09 — re-encoding a decoded message preserves header bytes and signatures.

import (
	"fmt"

	"golang.org/x/tools/go/ssa"
)

func init() {
	register(&propSpec{id: "C09", title: "raw header bytes are captured, preferred and re-emitted verbatim", run: runC09, mutants: mutC09, design: "DESIGN.md section 3, C09"})
}

func runC09(r *Report, tier string) {
	r.rule("R09.1", "capture: every structure decoder stores Headers.RawProtected / RawUnprotected (and Payload, Signature) straight from the same-named slots of the decoded wire struct, as the value term at the single receiver store shows (any later rewrite would show in the term); slot types are RawMessage / bstr-nil.")
	r.rule("R09.2", "preference: MarshalProtected / MarshalUnprotected return the raw bytes themselves exactly when present, otherwise the deterministic encoding of the map.")
	r.rule("R09.3", "emission: every structure encoder's wire struct carries exactly the two bucket marshalers' results and the receiver's Payload / Signature; COSE_Sign emits its signatures in slice order, each through the Signature encoder, and decodes them in order.")
	r.rule("R09.4", "canonical fallback: with the raw fields cleared the bucket slots reduce to the validating bucket encoders under the deterministic encoder configuration.")
	r.assumes("A2: RawMessage slots are stored and emitted verbatim by the library", "A4: the encoder configuration checked here yields deterministic CBOR")
	P := r.P
	checkDecoderSlots(r, "R09.1")
	checkMarshalBuckets(r, "R09.2")
	checkEncoderSlots(r, "R09.3")
	checkSignMessageOrder(r, "R09.3")
	checkBucketEncoders(r, "R09.4")
	for _, mc := range P.modeConfigs() {
		if mc.enc {
			checkModeOptions(r, "R09.4", mc, map[string]int64{"Sort": P.cborConst("SortBytewiseLexical"), "IndefLength": P.cborConst("IndefLengthForbidden")}, nil)
		}
	}
	// the captured bytes are the decoded value's own: fresh destinations, no
	// aliasing of the input or of an earlier decode (C19's rules; without
	// them "untouched" does not mean "unchanged")
	runC19(r, tier)
	// every use of the (shared) protected bytes sees them as they were
	r.rule("R01.5", "(shared with C01) the ToBeSigned builders write no memory that existed before the call.")
	checkBuilderPurity(r, "R01.5")
	// nothing outside the decoders drops or replaces the retained raw bytes
	// of a decoded message it hands on (the hash-envelope verifier returns
	// the message it decoded)
	r.rule("R02.4", "(shared with C02) Headers.RawProtected / RawUnprotected of a value reached through a pointer, or of a local that is returned by address, are written only in the decoder family.")
	checkRawBucketWriters(r, "R02.4")
	// the heads the encoders always emit in shortest form (tag, outer array)
	// are shortest-form on every accepted input
	r.rule("R05.3", "(shared with C05) each structure decoder's success implies the exact prefix head(tag) || 0x80+n of its kind.")
	checkStructurePrefixes(r, "R05.3")
}

// checkSignMessageOrder: the COSE_Sign encoder appends the encoding of
// Signatures[i] in a full-range loop, and the decoder appends the decoded
// element for raw.Signatures[i] likewise (positions are preserved).
func checkSignMessageOrder(r *Report, rule string) {
	P := r.P
	sm := P.mustNamed("SignMessage")
	for _, name := range []string{"MarshalCBOR", "UnmarshalCBOR"} {
		fn := P.methodOf(sm, name)
		if fn == nil {
			undecidedf("anchor not found: SignMessage.%s", name)
		}
		o := r.ob(rule, shortFn(fn)+":order", fn, nil, "elements are appended in a full-range index loop, one per source element")
		// the list value that is emitted / stored: when a helper computes it,
		// the loop is looked for in the helper
		var listV *Term
		if name == "MarshalCBOR" {
			if wire, _, _, _ := P.encoderWireValueRaw(fn); wire != nil {
				listV = projectField(wire, "Signatures")
			}
		} else if sts := P.receiverWrites(fn); len(sts) == 1 {
			listV = projectField(sts[0].val, "Signatures")
		}
		for d := 0; d < 3 && listV != nil; d++ {
			if listV.Op == "res" && listV.S == "0" && listV.Args[0].Op == "call" {
				if h := P.calleeOfTerm(listV.Args[0]); h != nil && P.inPkg(h) && len(findLoops(fn)) == 0 {
					fn = h
					listV = P.terms.successResult(h, 0)
					continue
				}
			}
			break
		}
		var L *loopInfo
		for _, l := range findLoops(fn) {
			if (l.kind == "slice-range" || l.kind == "counted") && l.fullRange {
				L = l
			}
		}
		if L == nil || len(findLoops(fn)) != 1 {
			o.fail(fmt.Sprintf("expected exactly one full-range loop, found %d loops", len(findLoops(fn))))
			continue
		}
		why := ""
		np := 0
		for _, p := range P.enumPaths(fn, L.body, func(b *ssa.BasicBlock) bool { return b == L.header }, false) {
			if p.ret != nil {
				continue
			}
			np++
			appends := 0
			p.instrs(func(in ssa.Instruction) {
				switch c := in.(type) {
				case *ssa.Call:
					if b, ok := c.Call.Value.(*ssa.Builtin); ok && b.Name() == "append" {
						appends++
						// the accumulator is the loop-carried phi
						if ph, ok := c.Call.Args[0].(*ssa.Phi); !ok || ph.Block() != L.header {
							why = "append does not extend the loop's accumulator"
						}
						// the appended element derives from the element at the loop index
						if !dependsOnElem(c.Call.Args[1], L, 0, map[ssa.Value]bool{}) {
							why = "appended element " + truncate(p.eng.of(c.Call.Args[1]).String(), 120) + " is not derived from the element at the loop index"
						}
					}
				case *ssa.Store:
					// out[i] = v with out = make(T, len(over)) and the same index
					ia, ok := c.Addr.(*ssa.IndexAddr)
					if !ok || ia.Index != L.idx {
						return
					}
					bt := p.eng.of(ia.X)
					sized := bt.Op == "makeslice" && bt.Args[0].eq(tLen(p.eng.of(L.over)))
					if !sized {
						return
					}
					appends++
					if !dependsOnElem(c.Val, L, 0, map[ssa.Value]bool{}) {
						why = "stored element " + truncate(p.eng.of(c.Val).String(), 120) + " is not derived from the element at the loop index"
					}
				}
			})
			if appends != 1 && why == "" {
				why = fmt.Sprintf("an iteration adds %d elements", appends)
			}
		}
		if np == 0 {
			why = "loop has no continuing path"
		}
		o.check(why == "", "one append per iteration, element at the loop index, accumulator carried", why)
	}
}

// dependsOnElem: v is computed (through operands, or through calls that
// receive a local it points to) from over[idx] of loop L.
func dependsOnElem(v ssa.Value, L *loopInfo, depth int, seen map[ssa.Value]bool) bool {
	if v == nil || depth > 12 || seen[v] {
		return false
	}
	seen[v] = true
	switch x := v.(type) {
	case *ssa.IndexAddr:
		if x.Index == L.idx && (x.X == L.over || sameLoad(x.X, L.over)) {
			return true
		}
	case *ssa.Index:
		if x.Index == L.idx && (x.X == L.over || sameLoad(x.X, L.over)) {
			return true
		}
	case *ssa.Alloc:
		// values stored into the local, and calls that fill it
		for _, ref := range *x.Referrers() {
			switch u := ref.(type) {
			case *ssa.Store:
				if u.Addr == ssa.Value(x) && dependsOnElem(u.Val, L, depth+1, seen) {
					return true
				}
			case *ssa.IndexAddr, *ssa.FieldAddr:
				for _, r2 := range *u.(ssa.Value).Referrers() {
					if st, ok := r2.(*ssa.Store); ok && dependsOnElem(st.Val, L, depth+1, seen) {
						return true
					}
				}
			case ssa.CallInstruction:
				for _, a := range u.Common().Args {
					if a != ssa.Value(x) && dependsOnElem(a, L, depth+1, seen) {
						return true
					}
				}
			}
		}
	}
	if in, ok := v.(ssa.Instruction); ok {
		for _, op := range in.Operands(nil) {
			if *op != nil && dependsOnElem(*op, L, depth+1, seen) {
				return true
			}
		}
	}
	return false
}

func sameLoad(a, b ssa.Value) bool {
	ua, ok1 := a.(*ssa.UnOp)
	ub, ok2 := b.(*ssa.UnOp)
	if !ok1 || !ok2 {
		return false
	}
	fa, ok1 := ua.X.(*ssa.FieldAddr)
	fb, ok2 := ub.X.(*ssa.FieldAddr)
	return ok1 && ok2 && fa.X == fb.X && fa.Field == fb.Field
}

func containsAll(s string, subs ...string) bool {
	for _, x := range subs {
		if !contains(s, x) {
			return false
		}
	}
	return true
}

func contains(s, sub string) bool {
	return len(sub) == 0 || (len(s) >= len(sub) && indexOf(s, sub) >= 0)
}

func indexOf(s, sub string) int {
	for i := 0; i+len(sub) <= len(s); i++ {
		if s[i:i+len(sub)] == sub {
			return i
		}
	}
	return -1
}

func mutC09() []mutant {
	return []mutant{
		{Name: "Sign1 decoder leaves RawUnprotected empty", File: "sign1.go", Quick: true, Rule: "R09.1",
			Old: "\t\t\tRawProtected:   raw.Protected,\n\t\t\tRawUnprotected: raw.Unprotected,\n\t\t},\n\t\tPayload:   raw.Payload,", New: "\t\t\tRawProtected:   raw.Protected,\n\t\t},\n\t\tPayload:   raw.Payload,"},
		{Name: "UnmarshalFromRaw clears RawProtected after parsing", File: "headers.go", Rule: "R09.1",
			Old: "\tif err := h.ensureIV(); err != nil {\n\t\treturn err\n\t}\n\treturn nil\n}\n\n// ensureSigningAlgorithm", New: "\tif err := h.ensureIV(); err != nil {\n\t\treturn err\n\t}\n\th.RawProtected = nil\n\treturn nil\n}\n\n// ensureSigningAlgorithm"},
		{Name: "MarshalUnprotected prefers the map when it is non-empty", File: "headers.go", Quick: true, Rule: "R09.2",
			Old: "\tif len(h.RawUnprotected) > 0 {\n\t\treturn h.RawUnprotected, nil\n\t}", New: "\tif len(h.RawUnprotected) > 0 && len(h.Unprotected) == 0 {\n\t\treturn h.RawUnprotected, nil\n\t}"},
		{Name: "Signature encoder re-encodes the unprotected map", File: "sign.go", Rule: "R09.3",
			Old: "\tsig := signature{\n\t\tProtected:   protected,\n\t\tUnprotected: unprotected,", New: "\tif s.Headers.Unprotected != nil {\n\t\tunprotected, err = encMode.Marshal(s.Headers.Unprotected)\n\t\tif err != nil {\n\t\t\treturn nil, err\n\t\t}\n\t}\n\tsig := signature{\n\t\tProtected:   protected,\n\t\tUnprotected: unprotected,"},
		{Name: "wire bucket slot becomes a plain byte slice", File: "sign.go", Rule: "R09.1",
			Old: "type signature struct {\n\t_           struct{} `cbor:\",toarray\"`\n\tProtected   cbor.RawMessage\n\tUnprotected cbor.RawMessage", New: "type signature struct {\n\t_           struct{} `cbor:\",toarray\"`\n\tProtected   cbor.RawMessage\n\tUnprotected []byte"},
		{Name: "COSE_Sign encoder emits the signatures in reverse order", File: "sign.go", Rule: "R09.3",
			Old: "\tfor _, sig := range m.Signatures {\n\t\tsigCBOR, err := sig.MarshalCBOR()", New: "\tfor i := range m.Signatures {\n\t\tsig := m.Signatures[len(m.Signatures)-1-i]\n\t\tsigCBOR, err := sig.MarshalCBOR()"},
		{Name: "header marshaller normalises the protected bucket's head", File: "headers.go", Rule: "R09.3",
			Old: "\tprotected, err := h.MarshalProtected()\n\tif err != nil {\n\t\treturn nil, nil, err\n\t}\n\tunprotected, err := h.MarshalUnprotected()", New: "\tprotected, err := h.MarshalProtected()\n\tif err != nil {\n\t\treturn nil, nil, err\n\t}\n\tif protected, err = deterministicBinaryString(protected); err != nil {\n\t\treturn nil, nil, err\n\t}\n\tunprotected, err := h.MarshalUnprotected()"},
		{Name: "encoder sorts map keys length-first", File: "cbor.go", Rule: "R09.4",
			Old: "Sort:        cbor.SortCoreDeterministic, // sort map keys", New: "Sort:        cbor.SortLengthFirst, // sort map keys"},
	}
}

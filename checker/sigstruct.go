package main

// Spec terms for the RFC 9052 / RFC 9338 signature structures, written as
// patterns over canonical value-flow terms (pattern.go).

import (
	"fmt"
	"strings"

	"golang.org/x/tools/go/ssa"
)

type specBuilder struct{ n int }

func (sb *specBuilder) v(name string) *Term {
	sb.n++
	return T("var", fmt.Sprintf("%s%d", name, sb.n))
}

func pLoad(ptr *Term) *Term { return &Term{Op: "load", Args: []*Term{ptr}} }
func pField(base *Term, f string) *Term {
	return &Term{Op: "field", S: f, Args: []*Term{base}}
}
func pIface(typ string, x *Term) *Term { return &Term{Op: "iface", S: typ, Args: []*Term{x}} }

// pEnc: result 0 of <enc mode>.Marshal(x); all encodes in one spec share %ENC.
func pEnc(x *Term) *Term {
	return &Term{Op: "res", S: "0", Args: []*Term{{Op: "call", S: "invoke:cbor.EncMode.Marshal", Args: []*Term{T("var", "ENC"), x}}}}
}

// pProt: the protected bucket's bytes of Headers pointer h: the raw bytes or
// the encoding of the map.
func pProt(h *Term) *Term {
	return canon(&Term{Op: "choice", Args: []*Term{pLoad(pField(h, "RawProtected")), pEnc(pIface("ProtectedHeader", pLoad(pField(h, "Protected"))))}})
}

// pDet: head-normalised bstr: x itself or the re-encoding of its content.
func (sb *specBuilder) pDet(x *Term) *Term {
	s := sb.v("S")
	dec := &Term{Op: "call", S: "invoke:cbor.DecMode.Unmarshal", Args: []*Term{T("var", "DECTF"), x, pIface("*[]byte", s)}}
	return canon(&Term{Op: "choice", Args: []*Term{x, pEnc(pIface("[]byte", &Term{Op: "mod", Args: []*Term{dec, s}}))}})
}

// pN2E: nil external data becomes the empty byte string.
func pN2E(x *Term) *Term {
	return &Term{Op: "gate", Args: []*Term{{Op: "binop", S: "==", Args: []*Term{x, T("nil", "")}}, {Op: "arr", S: "byte"}, x}}
}

func pArrAny(els ...*Term) *Term { return &Term{Op: "arr", S: "any", Args: els} }

// sig1Spec: Enc(["Signature1", DetBstr(ProtBytes(recv.Headers)), NilToEmpty(ext), recv.Payload]).
func sig1Spec() *Term {
	sb := &specBuilder{}
	h := pField(T("param", "0"), "Headers")
	return pEnc(pIface("[]any", pArrAny(
		pIface("string", T("const", `"Signature1"`)),
		pIface("cbor.RawMessage", sb.pDet(pProt(h))),
		pIface("[]byte", pN2E(T("var", "EXT"))),
		pIface("[]byte", pLoad(pField(T("param", "0"), "Payload"))),
	)))
}

// sigSpec: Enc(["Signature", DetBstr(body), DetBstr(ProtBytes(recv.Headers)), NilToEmpty(ext), payload]).
func sigSpec() *Term {
	sb := &specBuilder{}
	h := pField(T("param", "0"), "Headers")
	return pEnc(pIface("[]any", pArrAny(
		pIface("string", T("const", `"Signature"`)),
		pIface("cbor.RawMessage", sb.pDet(T("var", "BODY"))),
		pIface("cbor.RawMessage", sb.pDet(pProt(h))),
		pIface("[]byte", pN2E(T("var", "EXT"))),
		pIface("[]byte", T("var", "PAYLOAD")),
	)))
}

// contentTerm: expanded, canonical term of the content argument at a key site.
func (P *Prog) contentTerm(s *keySite) *Term {
	return canon(P.terms.expand(P.terms.of(s.content), 8))
}

// firstDiff locates where a pattern and a term stop matching (for reports).
func firstDiff(pt, t *Term, path string) string {
	if pt.Op == "var" {
		return ""
	}
	if t == nil {
		return path + ": term ends"
	}
	if pt.Op == "choice" && (t.Op == "choice" || t.Op == "gate") {
		if _, ok := unifyChoice(pt.Args, flattenAlts(t), bindings{}); ok {
			return ""
		}
		return fmt.Sprintf("%s: alternatives differ: expected %d alternatives like %s, found %s", path, len(pt.Args), truncate(pt.String(), 160), truncate(t.String(), 240))
	}
	if pt.Op != t.Op || (pt.S != t.S && pt.S != "%") || len(pt.Args) != len(t.Args) {
		return fmt.Sprintf("%s: expected %s, found %s", path, truncate(pt.String(), 160), truncate(t.String(), 240))
	}
	for i := range pt.Args {
		if _, ok := unify(pt.Args[i], t.Args[i], bindings{}); !ok {
			return firstDiff(pt.Args[i], t.Args[i], fmt.Sprintf("%s/%s[%d]", path, pt.Op, i))
		}
	}
	return path + ": variables bound inconsistently"
}

// encModeOK: the term is a load of a package-level encode mode variable.
func (P *Prog) isModeLoad(t *Term, enc bool) (string, bool) {
	if t == nil || t.Op != "load" || t.Args[0].Op != "global" {
		return "", false
	}
	g := P.global(t.Args[0].S)
	if g == nil {
		return "", false
	}
	want := "DecMode"
	if enc {
		want = "EncMode"
	}
	return g.Name(), isCBORNamed(deref(g.Type()), want)
}

// footprint lists the load leaves (as location strings) and parameters of t.
func footprint(t *Term) (loads []string, params []string) {
	seenL, seenP := map[string]bool{}, map[string]bool{}
	t.walk(func(u *Term) {
		switch u.Op {
		case "load":
			k := u.Args[0].String()
			if !seenL[k] {
				seenL[k] = true
				loads = append(loads, k)
			}
		case "param":
			if !seenP[u.S] {
				seenP[u.S] = true
				params = append(params, u.S)
			}
		}
	})
	return
}

// headNormalizer: the in-package function that calls DecMode.Wellformed (the
// bstr head normaliser).
func (P *Prog) headNormalizer() *ssa.Function {
	for _, fn := range P.Funcs {
		// bytes -> (bytes, error), checking its own argument
		if fn.Signature.Recv() != nil || len(fn.Params) != 1 || !isByteSlice(fn.Params[0].Type()) || fn.Signature.Results().Len() != 2 || !isByteSlice(fn.Signature.Results().At(0).Type()) {
			continue
		}
		for _, ci := range callsIn(fn, nil) {
			c := ci.Common()
			if c.IsInvoke() && c.Method.Name() == "Wellformed" && isCBORMode(c.Value.Type()) && len(c.Args) == 1 && P.terms.of(c.Args[0]).String() == "$0" {
				return fn
			}
		}
	}
	undecidedf("anchor not found: bstr head normaliser (caller of DecMode.Wellformed)")
	return nil
}

func hasForbiddenLeaf(loads []string, forbidden ...string) string {
	for _, l := range loads {
		for _, f := range forbidden {
			if strings.HasSuffix(l, "."+f) || strings.Contains(l, "."+f+".") || strings.Contains(l, "."+f+"[") {
				return l
			}
		}
	}
	return ""
}

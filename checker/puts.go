package main

// Map insertions of a function, directly or through in-package helpers
// (E8 support for the key constructors and encoders): a helper's insertions
// are instantiated with the call's arguments; an insertion made per element of
// a full-range loop over a slice parameter is instantiated once per element
// when the argument is a slice literal.

import (
	"golang.org/x/tools/go/ssa"
)

type putT struct {
	key, val *Term
	instr    *ssa.MapUpdate
	// elemOf: parameter index whose elements the put ranges over (-1: none)
	elemOf int
}

// putsDeep lists the insertions performed by the instructions `each`
// enumerates (of fn, evaluated with eng), in terms of fn's parameters.
func (P *Prog) putsDeep(fn *ssa.Function, eng *termEngine, each func(func(ssa.Instruction)), depth int) []putT {
	var out []putT
	strip := func(t *Term) *Term {
		if t.Op == "iface" && len(t.Args) == 1 {
			return t.Args[0]
		}
		return t
	}
	loops := findLoops(fn)
	each(func(in ssa.Instruction) {
		switch in := in.(type) {
		case *ssa.MapUpdate:
			pt := putT{key: strip(eng.of(in.Key)), val: strip(eng.of(in.Value)), instr: in, elemOf: -1}
			for _, l := range loops {
				if !l.fullRange || !l.blocks[in.Block()] || in.Block() == l.header {
					continue
				}
				if prm, ok := l.over.(*ssa.Parameter); ok && (l.kind == "slice-range" || l.kind == "counted") {
					pt.elemOf = paramIndex(prm)
				}
			}
			out = append(out, pt)
		case ssa.CallInstruction:
			h := staticCallee(in)
			if h == nil || !P.inPkg(h) || h.Blocks == nil || depth >= 2 || h == fn {
				return
			}
			args := in.Common().Args
			m := map[string]*Term{}
			for i, a := range args {
				m[itoa(int64(i))] = eng.of(a)
			}
			all := func(f func(ssa.Instruction)) {
				for _, b := range h.Blocks {
					for _, x := range b.Instrs {
						f(x)
					}
				}
			}
			for _, hp := range P.putsDeep(h, P.terms, all, depth+1) {
				if hp.elemOf < 0 {
					out = append(out, putT{key: hp.key.subst(m), val: hp.val.subst(m), instr: hp.instr, elemOf: -1})
					continue
				}
				arg := m[itoa(int64(hp.elemOf))]
				if arg == nil || arg.Op != "arr" {
					out = append(out, putT{key: hp.key.subst(m), val: hp.val.subst(m), instr: hp.instr, elemOf: -1})
					continue
				}
				// substitute the other parameters first (the elements are in the
				// caller's terms already), keeping the ranged one as a marker
				m2 := map[string]*Term{}
				for k, v := range m {
					m2[k] = v
				}
				m2[itoa(int64(hp.elemOf))] = T("param", "#elem")
				for _, el := range arg.Args {
					inst := func(t *Term) *Term {
						return elemInstantiate(t.subst(m2), "#elem", el)
					}
					out = append(out, putT{key: inst(hp.key), val: inst(hp.val), instr: hp.instr, elemOf: -1})
				}
			}
		}
	})
	return out
}

// elemInstantiate replaces loads of (fields of) param[k][i], i not constant,
// by (fields of) the element value el.
func elemInstantiate(t *Term, pk string, el *Term) *Term {
	return t.rewrite(func(u *Term) *Term {
		if u.Op != "load" {
			return nil
		}
		var path []string
		a := u.Args[0]
		for a.Op == "field" {
			path = append([]string{a.S}, path...)
			a = a.Args[0]
		}
		if a.Op == "index" && a.Args[0].Op == "param" && a.Args[0].S == pk && a.Args[1].Op != "const" {
			return projectPath(el, path)
		}
		return nil
	})
}

// constPuts: the insertions of putsDeep with integer-constant keys.
func constPuts(ps []putT) []mapPut {
	var out []mapPut
	for _, p := range ps {
		if n, ok := termConstInt(p.key); ok {
			out = append(out, mapPut{n, p.val, p.instr})
		}
	}
	return out
}

func allInstrs(fn *ssa.Function) func(func(ssa.Instruction)) {
	return func(f func(ssa.Instruction)) {
		for _, b := range fn.Blocks {
			for _, x := range b.Instrs {
				f(x)
			}
		}
	}
}

package main

// Map insertions of a function, directly or through in-package helpers
// (E8 support for the key constructors and encoders): a helper's insertions
// are instantiated with the call's arguments; an insertion made per element of
// a full-range loop over a slice parameter is instantiated once per element
// when the argument is a slice literal.

import (
	"go/types"

	"golang.org/x/tools/go/ssa"
)

type putT struct {
	key, val *Term
	instr    *ssa.MapUpdate
	// elemOf: parameter index whose elements the put ranges over (-1: none)
	elemOf int
}

// putsDeep lists the insertions performed by the instructions `each`
// enumerates (of fn, evaluated with eng), in terms of fn's parameters.
func (P *Prog) putsDeep(fn *ssa.Function, eng *termEngine, each func(func(ssa.Instruction)), depth int) []putT {
	var out []putT
	strip := func(t *Term) *Term {
		if t.Op == "iface" && len(t.Args) == 1 {
			return t.Args[0]
		}
		return t
	}
	loops := findLoops(fn)
	each(func(in ssa.Instruction) {
		switch in := in.(type) {
		case *ssa.MapUpdate:
			pt := putT{key: strip(eng.of(in.Key)), val: strip(eng.of(in.Value)), instr: in, elemOf: -1}
			for _, l := range loops {
				if !l.fullRange || !l.blocks[in.Block()] || in.Block() == l.header {
					continue
				}
				if prm, ok := l.over.(*ssa.Parameter); ok && (l.kind == "slice-range" || l.kind == "counted") {
					pt.elemOf = paramIndex(prm)
				}
			}
			out = append(out, pt)
		case ssa.CallInstruction:
			h := staticCallee(in)
			if h == nil || !P.inPkg(h) || h.Blocks == nil || depth >= 2 || h == fn {
				return
			}
			args := in.Common().Args
			m := map[string]*Term{}
			for i, a := range args {
				m[itoa(int64(i))] = eng.of(a)
			}
			all := func(f func(ssa.Instruction)) {
				for _, b := range h.Blocks {
					for _, x := range b.Instrs {
						f(x)
					}
				}
			}
			for _, hp := range P.putsDeep(h, P.terms, all, depth+1) {
				if hp.elemOf < 0 {
					out = append(out, putT{key: hp.key.subst(m), val: hp.val.subst(m), instr: hp.instr, elemOf: -1})
					continue
				}
				arg := m[itoa(int64(hp.elemOf))]
				if arg == nil || arg.Op != "arr" {
					out = append(out, putT{key: hp.key.subst(m), val: hp.val.subst(m), instr: hp.instr, elemOf: -1})
					continue
				}
				// substitute the other parameters first (the elements are in the
				// caller's terms already), keeping the ranged one as a marker
				m2 := map[string]*Term{}
				for k, v := range m {
					m2[k] = v
				}
				m2[itoa(int64(hp.elemOf))] = T("param", "#elem")
				for _, el := range arg.Args {
					inst := func(t *Term) *Term {
						return elemInstantiate(t.subst(m2), "#elem", el)
					}
					out = append(out, putT{key: inst(hp.key), val: inst(hp.val), instr: hp.instr, elemOf: -1})
				}
			}
		}
	})
	return out
}

// elemInstantiate replaces loads of (fields of) param[k][i], i not constant,
// by (fields of) the element value el.
func elemInstantiate(t *Term, pk string, el *Term) *Term {
	return t.rewrite(func(u *Term) *Term {
		if u.Op != "load" {
			return nil
		}
		var path []string
		a := u.Args[0]
		for a.Op == "field" {
			path = append([]string{a.S}, path...)
			a = a.Args[0]
		}
		if a.Op == "index" && a.Args[0].Op == "param" && a.Args[0].S == pk && a.Args[1].Op != "const" {
			return projectPath(el, path)
		}
		return nil
	})
}

// constPuts: the insertions of putsDeep with integer-constant keys.
func constPuts(ps []putT) []mapPut {
	var out []mapPut
	for _, p := range ps {
		if n, ok := termConstInt(p.key); ok {
			out = append(out, mapPut{n, p.val, p.instr})
		}
	}
	return out
}

func allInstrs(fn *ssa.Function) func(func(ssa.Instruction)) {
	return func(f func(ssa.Instruction)) {
		for _, b := range fn.Blocks {
			for _, x := range b.Instrs {
				f(x)
			}
		}
	}
}

// putInst: one constant-key map insertion reachable from a function: in the
// function itself, in a helper that receives the map, or one iteration of a
// constant-bound loop over a local literal (evaluated with the index fixed).
type putInst struct {
	key   int64
	val   ssa.Value
	eng   *termEngine
	fn    *ssa.Function
	instr *ssa.MapUpdate
	// ctx: facts of the calling function that hold at the call of the helper
	// and speak only of the shared receiver
	ctx factSet
}

func (P *Prog) putInstances(fn *ssa.Function, ctx factSet, depth int) []putInst {
	var out []putInst
	loops := findLoops(fn)
	strip := func(t *Term) *Term {
		if t.Op == "iface" && len(t.Args) == 1 {
			return t.Args[0]
		}
		return t
	}
	for _, b := range fn.Blocks {
		for _, in := range b.Instrs {
			switch in := in.(type) {
			case *ssa.MapUpdate:
				var L *loopInfo
				for _, l := range loops {
					if l.constBound >= 1 && l.constBound <= 16 && l.idx != nil && (l.kind == "counted" || l.kind == "slice-range") && l.blocks[in.Block()] && in.Block() != l.header {
						L = l
					}
				}
				if L == nil {
					if n, ok := termConstInt(strip(P.terms.of(in.Key))); ok {
						out = append(out, putInst{n, in.Value, P.terms, fn, in, ctx})
					}
					continue
				}
				for j := int64(0); j < L.constBound; j++ {
					eng := P.terms.withConst(map[ssa.Value]int64{L.idx: j})
					if n, ok := termConstInt(strip(eng.of(in.Key))); ok {
						out = append(out, putInst{n, in.Value, eng, fn, in, ctx})
					}
				}
			case ssa.CallInstruction:
				h := staticCallee(in)
				if h == nil || !P.inPkg(h) || h.Blocks == nil || h == fn || depth >= 2 {
					continue
				}
				passesMap := false
				for _, a := range in.Common().Args {
					if _, isMap := a.Type().Underlying().(*types.Map); isMap {
						passesMap = true
					}
				}
				if !passesMap {
					continue
				}
				// facts about the shared receiver carry over
				hctx := factSet{}
				if h.Signature.Recv() != nil && len(in.Common().Args) > 0 && P.terms.of(in.Common().Args[0]).String() == "$0" {
					for _, f := range P.factsBefore(in) {
						onlyRecv := true
						f.Pred.walk(func(u *Term) {
							if (u.Op == "param" && u.S != "0") || u.Op == "alloc" {
								onlyRecv = false
							}
						})
						if onlyRecv {
							hctx.add(f)
						}
					}
				}
				for _, f := range ctx {
					hctx.add(f)
				}
				out = append(out, P.putInstances(h, hctx, depth+1)...)
			}
		}
	}
	return out
}

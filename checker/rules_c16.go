package main

// C16 — ECDSA signatures are fixed-width r||s and nothing else verifies.

import (
	"fmt"
	"go/types"
	"sort"
	"strings"

	"golang.org/x/tools/go/ssa"
)

func init() {
	register(&propSpec{id: "C16", title: "ECDSA r||s assembly, convergence of both signing paths, strict decode", run: runC16, mutants: mutC16, design: "DESIGN.md section 3, C16"})
}

const orderBytesPat = "binop</>(binop<+>(call<(*math/big.Int).BitLen>(*call<invoke:crypto/elliptic.Curve.Params>(%CURVE).N), 7), 8)"

// ecdsaHelpers: the encode helper func(elliptic.Curve, *big.Int, *big.Int)
// ([]byte, error) and the decode helper func(elliptic.Curve, []byte)
// (*big.Int, *big.Int, error), by signature.
func (P *Prog) ecdsaHelpers() (enc, dec *ssa.Function) {
	for _, fn := range P.Funcs {
		if fn.Signature.Recv() != nil || len(fn.Params) < 2 {
			continue
		}
		res := fn.Signature.Results()
		nCurve, nBig, nBytes := 0, 0, 0
		for _, p := range fn.Params {
			switch {
			case p.Type().String() == "crypto/elliptic.Curve":
				nCurve++
			case p.Type().String() == "*math/big.Int":
				nBig++
			case isByteSlice(p.Type()):
				nBytes++
			}
		}
		switch {
		case nCurve == 1 && nBig == 2 && res.Len() == 2 && isByteSlice(res.At(0).Type()) && errIndex(fn) == 1:
			enc = fn
		case nCurve == 1 && nBig == 0 && nBytes == 1 && len(fn.Params) == 2 && res.Len() == 3 && res.At(0).Type().String() == "*math/big.Int":
			dec = fn
		}
	}
	if enc == nil && !ecdsaHelpersOptional {
		undecidedf("anchor not found: ECDSA signature encode helper")
	}
	return
}

// ecdsaHelpersOptional: set while a rule that can do without the helpers looks them up.
var ecdsaHelpersOptional = false

// encRoles: parameter indexes of the encode helper (curve, r, s).
func encRoles(enc *ssa.Function) (curveI, rI, sI int) {
	curveI, rI, sI = -1, -1, -1
	for i, p := range enc.Params {
		switch p.Type().String() {
		case "crypto/elliptic.Curve":
			curveI = i
		case "*math/big.Int":
			if rI < 0 {
				rI = i
			} else {
				sI = i
			}
		}
	}
	return
}

func runC16(r *Report, tier string) {
	P := r.P
	r.rule("R16.1", "assembly: the encode helper allocates exactly 2n bytes with n = (BitLen(order N of the curve)+7)/8, writes r into [0:n) and s into [n:2n) through the integer-to-octets primitive, returns that buffer on success and nil bytes with either primitive's error; the primitive refuses negative integers and integers wider than the buffer before FillBytes (big-endian, zero-padded).")
	r.rule("R16.2", "both signing paths converge: every success exit of every built-in ES* SignDigest is the encode helper's result for the key's own curve and (r, s) = the two results of ecdsa.Sign, resp. the first and second field of the struct asn1.Unmarshal filled from the crypto.Signer's output; no path returns the ASN.1 bytes; Sign is SignDigest of the hash.")
	r.rule("R16.3", "strict decode: the decode helper succeeds only under len(sig) == 2n with the same n term as the encoder, r = OS2IP(sig[0:n]), s = OS2IP(sig[n:]); OS2IP is big-endian SetBytes; the verifier feeds ecdsa.Verify with exactly these for the key's own curve and maps the helper's failure to ErrVerification.")
	r.assumes("crypto/ecdsa.Verify performs the range checks on r and s; math/big FillBytes/SetBytes are big-endian")

	enc, dec := P.ecdsaHelpers()
	r.analysed(enc)
	if dec != nil {
		r.analysed(dec)
	}
	curveI, rI, sI := encRoles(enc)
	pc, pr, ps := "$"+itoa(int64(curveI)), "$"+itoa(int64(rI)), "$"+itoa(int64(sI))
	nPat := strings.Replace(orderBytesPat, "%CURVE", pc, 1)
	two := "binop<*>(" + nPat + ", 2)"
	buf := "makeslice<[]byte>(" + two + ", " + two + ")"

	// R16.1
	var prim *ssa.Function
	for _, x := range P.factsOf(enc).exits {
		id := shortFn(enc) + ":exit:" + exitID(P, enc, x)
		if x.kind == exitFailure {
			o := r.ob("R16.1", id+":no-bytes", enc, x.ret, "on error the helper returns nil bytes and the primitive's error")
			c := delegCall(x.results[1])
			o.check(x.results[0].Op == "nil" && c != nil && P.calleeOfTerm(c) != nil, "nil, primitive's error", "returns "+truncate(x.results[0].String(), 80)+" with "+truncate(x.results[1].String(), 80))
			continue
		}
		o := r.ob("R16.1", id+":assembly", enc, x.ret, "returns a 2n-byte buffer filled by primitive(r, buf[:n]) and primitive(s, buf[n:])")
		if _, ok := unify(mustPat(buf), x.results[0], bindings{}); !ok {
			o.fail("the returned buffer is " + truncate(x.results[0].String(), 200) + ", expected make([]byte, 2n) with n = (BitLen(curve order)+7)/8")
			continue
		}
		fs := exitFacts(P, x)
		miss, b := fs.firstMissing([]factPat{
			fp(okp("call<%P>(" + pr + ", slice(" + buf + ", _(), " + nPat + ", _()))")),
			fp(okp("call<%P2>(" + ps + ", slice(" + buf + ", " + nPat + ", _(), _()))")),
		}, nil)
		_ = b
		if miss != "" {
			// %P in the S position is not a variable: match any callee by wildcard
			miss, _ = fs.firstMissing([]factPat{
				fp(okp("call<%>(" + pr + ", slice(" + buf + ", _(), " + nPat + ", _()))")),
				fp(okp("call<%>(" + ps + ", slice(" + buf + ", " + nPat + ", _(), _()))")),
			}, nil)
		}
		o.check(miss == "", "ok(prim(r, buf[:n])) and ok(prim(s, buf[n:]))", "missing on the success exit: "+truncate(miss, 300))
		for _, c := range fs.findOK(func(call *Term) bool { return len(call.Args) == 2 && call.Args[0].String() == pr }) {
			prim = P.calleeOfTerm(c)
		}
	}
	if prim != nil {
		r.analysed(prim)
		for _, x := range P.factsOf(prim).exits {
			if x.kind == exitFailure {
				continue
			}
			o := r.ob("R16.1", shortFn(prim)+":exit:"+exitID(P, prim, x), prim, x.ret, "integer-to-octets: non-negative, fits the buffer, then FillBytes into the buffer")
			miss, _ := x.facts.firstMissing([]factPat{
				fp("!binop<<>(call<(*math/big.Int).Sign>($0), 0)"),
				fp("!binop<<>(binop<*>(len($1), 8), call<(*math/big.Int).BitLen>($0))"),
			}, nil)
			fill := false
			for _, ci := range callsIn(prim, nil) {
				if c := staticCallee(ci); c != nil && shortFn(c) == "(*math/big.Int).FillBytes" {
					a := ci.Common().Args
					fill = P.terms.of(a[0]).String() == "$0" && P.terms.of(a[1]).String() == "$1"
				}
			}
			o.check(miss == "" && fill, "sign and width checked, x.FillBytes(buf)", fmt.Sprintf("missing %s; FillBytes(x, buf): %v", miss, fill))
		}
	} else {
		r.ob("R16.1", shortFn(enc)+":primitive", enc, nil, "integer-to-octets primitive identified").fail("no primitive call on r found")
	}

	// R16.2
	checkECDSASignDigestPaths(r, "R16.2")
	// the curve the signers size their output by is the caller's key's: the
	// constructor stores the key it was given (its reported public half)
	{
		ns := P.mustFn("NewSigner")
		nk := 0
		for _, p := range P.ctorVPaths(ns, nil, 0) {
			if p.keyField == nil || len(p.res) == 0 || p.res[0].Op != "iface" || !strings.Contains(strings.ToLower(p.res[0].S), "ecdsa") {
				continue
			}
			nk++
			kf := p.keyField
			if kf.Op == "res" && kf.S == "0" && kf.Args[0].Op == "typeassert" {
				kf = kf.Args[0].Args[0]
			}
			ks := kf.String()
			r.ob("R16.2", fmt.Sprintf("NewSigner:ecdsa-key:%s:%s", p.res[0].S, p.id), ns, p.ret, "the ECDSA signer object holds the caller's key (so r||s is sized by that key's curve on both signing paths)").check(ks == "$1" || ks == "call<invoke:crypto.Signer.Public>($1)", truncate(p.keyField.String(), 100), "the signer's key field holds "+truncate(p.keyField.String(), 200)+": the signature width no longer follows the key's own curve")
		}
		r.floor("R16.2", nk, 2, "ECDSA signer constructions in NewSigner")
	}

	checkECDSAStrictDecode(r, "R16.3")

	// "rejected with a verification error": the verification path has no
	// instruction that can fault on a signature of any length or content
	r.rule("R06.1", "(shared with C06) panic-site audit of every function reachable from the built-in ES* Verify / VerifyDigest: indexing, re-slicing, bare type assertions and interface comparisons are guarded.")
	var roots []*ssa.Function
	for _, m := range []struct{ iface, name string }{{"Verifier", "Verify"}, {"DigestVerifier", "VerifyDigest"}} {
		for _, fn := range P.implementors(P.iface(m.iface), m.name) {
			if st, ok := deref(fn.Signature.Recv().Type()).Underlying().(*types.Struct); ok {
				for i := 0; i < st.NumFields(); i++ {
					if strings.Contains(st.Field(i).Type().String(), "crypto/ecdsa.") {
						roots = append(roots, fn)
					}
				}
			}
		}
	}
	roots = uniqFuncs(roots)
	r.floor("R06.1", len(roots), 2, "built-in ES* verification methods")
	scope := P.reachable(roots)
	A := &audit{r: r, P: P, scope: scope, loops: map[*ssa.Function][]*loopInfo{}}
	var fns []*ssa.Function
	for f := range scope {
		fns = append(fns, f)
	}
	sort.Slice(fns, func(i, j int) bool { return fns[i].String() < fns[j].String() })
	r.analysed(fns...)
	ord := map[string]int{}
	mkKey := func(fn *ssa.Function, kind, what string) string {
		k := shortFn(fn) + ":" + kind + ":" + what
		ord[k]++
		if ord[k] > 1 {
			return fmt.Sprintf("%s#%d", k, ord[k])
		}
		return k
	}
	counts := map[string]int{}
	A.auditPanicSites("R06.1", fns, mkKey, counts)
	r.floorSoft("R06.1", counts["slice"], 2, "re-slice expressions on the ECDSA verification path")
}

// checkECDSAStrictDecode: R16.3 (also part of C03: any change of the signature bytes must change (r, s) or be refused).
func checkECDSAStrictDecode(r *Report, rule string) {
	P := r.P
	ecdsaHelpersOptional = true
	_, dec := P.ecdsaHelpers()
	ecdsaHelpersOptional = false
	nPat := strings.Replace(orderBytesPat, "%CURVE", "$0", 1)
	nP2 := strings.Replace(orderBytesPat, "%CURVE", "$0", 1)
	// site-based: wherever a built-in verifier hands (r, s) to ecdsa.Verify,
	// the exact-length fact for the key's own curve holds and r, s are the
	// big-endian integers of the two halves of the signature parameter
	nSites := 0
	for _, fn := range P.builtinVerifierMethods() {
		for _, ci := range callsIn(fn, nil) {
			if c := staticCallee(ci); c == nil || c.String() != "crypto/ecdsa.Verify" {
				continue
			}
			nSites++
			a := ci.Common().Args
			sig := "$" + itoa(int64(len(fn.Params)-1))
			fs := P.factsBefore(ci)
			N := strings.Replace(orderBytesPat, "%CURVE", "%C", 1)
			ms := fs.matchAll([]factPat{fp("binop<==>(binop<*>(" + N + ", 2), len(" + sig + "))")}, nil)
			okLen := false
			var curve *Term
			for _, b := range ms {
				cs := b["C"].String()
				if strings.HasPrefix(cs, "**$0.") && strings.HasSuffix(cs, ".Curve") {
					okLen, curve = true, b["C"]
				}
			}
			half := func(v ssa.Value, pat string) bool {
				if !okLen {
					return false
				}
				t := P.terms.expand(P.terms.of(v), 4)
				pat = strings.Replace(pat, "%N", N, -1)
				b, ok := unify(mustPat("call<(*math/big.Int).SetBytes>(%A, "+pat+")"), t, bindings{"C": curve})
				return ok && b["A"].Op == "alloc"
			}
			okR := half(a[2], "slice("+sig+", _(), %N, _())")
			okS := half(a[3], "slice("+sig+", %N, _(), _())")
			r.ob(rule, shortFn(fn)+":strict-at-verify", fn, ci, "at ecdsa.Verify: len(signature) == 2n for the key's own curve, r = big-endian(signature[:n]), s = big-endian(signature[n:])").check(okLen && okR && okS, "len == 2n, r||s split at n", fmt.Sprintf("exact-length fact for the key's curve before ecdsa.Verify: %v; r is the integer of signature[:n]: %v; s of signature[n:]: %v", okLen, okR, okS))
		}
	}
	r.floor(rule, nSites, 1, "ecdsa.Verify call sites in built-in verifiers")
	if dec == nil {
		return
	}
	for _, x := range P.factsOf(dec).exits {
		if x.kind == exitFailure {
			continue
		}
		o := r.ob(rule, shortFn(dec)+":exit:"+exitID(P, dec, x), dec, x.ret, "decode succeeds only for len(sig) == 2n, splitting at n")
		miss, _ := x.facts.firstMissing([]factPat{fp("binop<==>(binop<*>(" + nP2 + ", 2), len($1))")}, nil)
		os2ip := func(t *Term, slicePat string) bool {
			// through a helper, or directly new(big.Int).SetBytes(slice)
			if _, ok := unify(mustPat("call<%>("+slicePat+")"), t, bindings{}); ok {
				return true
			}
			b, ok := unify(mustPat("call<(*math/big.Int).SetBytes>(%A, "+slicePat+")"), t, bindings{})
			return ok && b["A"].Op == "alloc"
		}
		okR := os2ip(x.results[0], "slice($1, _(), "+nP2+", _())")
		okS := os2ip(x.results[1], "slice($1, "+nP2+", _(), _())")
		o.check(miss == "" && okR && okS, "len(sig) == 2n; r = OS2IP(sig[:n]); s = OS2IP(sig[n:])", fmt.Sprintf("exact-length fact missing: %q; r from sig[:n]: %v; s from sig[n:]: %v", truncate(miss, 120), okR, okS))
		// OS2IP
		if c := x.results[0]; c.Op == "call" && len(c.Args) == 1 {
			if f := P.calleeOfTerm(c); f != nil {
				rt := P.terms.successResult(f, 0)
				okO := rt != nil && rt.Op == "call" && rt.S == "(*math/big.Int).SetBytes" && len(rt.Args) == 2 && rt.Args[0].Op == "alloc" && rt.Args[1].String() == "$0"
				r.ob(rule, shortFn(f)+":octets-to-integer", f, nil, "OS2IP is new(big.Int).SetBytes(x)").check(okO, "SetBytes on a fresh integer", "OS2IP returns "+fmt.Sprint(rt))
			}
		}
	}
	// same n on both sides: by construction both were matched against the same pattern over the curve parameter
	r.ob(rule, "n:sibling-equality", nil, nil, "encoder and decoder compute n by the same term").ok("both match "+nPat, true)
	// verifier
	for _, fn := range P.builtinVerifierMethods() {
		for _, ci := range callsIn(fn, nil) {
			if c := staticCallee(ci); c == nil || c.String() != "crypto/ecdsa.Verify" {
				continue
			}
			a := ci.Common().Args
			rT, sT := P.terms.of(a[2]), P.terms.of(a[3])
			o := r.ob(rule, shortFn(fn)+":verify-inputs", fn, ci, "ecdsa.Verify receives the decode helper's (r, s) for the key's own curve and the signature parameter")
			okV := rT.Op == "res" && sT.Op == "res" && rT.S == "0" && sT.S == "1" && rT.Args[0].eq(sT.Args[0]) && rT.Args[0].Op == "call" && rT.Args[0].S == shortFn(dec)
			if okV {
				d := rT.Args[0]
				okV = strings.HasPrefix(d.Args[0].String(), "**$0.") && strings.HasSuffix(d.Args[0].String(), ".Curve") && d.Args[1].Op == "param"
			}
			o.check(okV, "Verify(key, digest, decode(curve, signature))", "r, s = "+truncate(rT.String(), 120)+", "+truncate(sT.String(), 120))
		}
	}
}

func mutC16() []mutant {
	return []mutant{
		{Name: "s written before r", File: "ecdsa.go", Quick: true, Rule: "R16.1",
			Old: "\tif err := I2OSP(r, sig[:n]); err != nil {\n\t\treturn nil, err\n\t}\n\tif err := I2OSP(s, sig[n:]); err != nil {", New: "\tif err := I2OSP(s, sig[:n]); err != nil {\n\t\treturn nil, err\n\t}\n\tif err := I2OSP(r, sig[n:]); err != nil {"},
		{Name: "n taken from the field size instead of the group order", File: "ecdsa.go", Rule: "R16.1", Nth: 1,
			Old: "\tn := (curve.Params().N.BitLen() + 7) / 8\n", New: "\tn := (curve.Params().BitSize + 7) / 8\n"},
		{Name: "decode refuses only short signatures", File: "ecdsa.go", Quick: true, Rule: "R16.3",
			Old: "\tif len(sig) != n*2 {", New: "\tif len(sig) < n*2 {"},
		{Name: "crypto.Signer path returns the ASN.1 bytes when they have the right length", File: "ecdsa.go", Rule: "R16.2",
			Old: "\tvar sig struct {\n\t\tR, S *big.Int\n\t}", New: "\tif len(sigASN1) == 64 {\n\t\treturn sigASN1, nil\n\t}\n\tvar sig struct {\n\t\tR, S *big.Int\n\t}"},
		{Name: "decode splits at half the signature", File: "ecdsa.go", Rule: "R16.3",
			Old: "\treturn OS2IP(sig[:n]), OS2IP(sig[n:]), nil", New: "\treturn OS2IP(sig[:len(sig)/2]), OS2IP(sig[len(sig)/2:]), nil"},
		{Name: "ASN.1 struct fields swapped", File: "ecdsa.go", Rule: "R16.2",
			Old: "\treturn encodeECDSASignature(es.key.Curve, sig.R, sig.S)", New: "\treturn encodeECDSASignature(es.key.Curve, sig.S, sig.R)"},
		{Name: "I2OSP no longer refuses negative integers", File: "ecdsa.go", Rule: "R16.1",
			Old: "\tif x.Sign() < 0 {\n\t\treturn errors.New(\"I2OSP: negative integer\")\n\t}\n", New: ""},
		{Name: "native path encodes for a fixed curve", File: "ecdsa.go", Rule: "R16.2",
			Old: "\treturn encodeECDSASignature(es.key.Curve, r, s)", New: "\treturn encodeECDSASignature(elliptic.P256(), r, s)"},
		{Name: "verifier decodes for a fixed curve", File: "ecdsa.go", Rule: "R16.3",
			Old: "\tr, s, err := decodeECDSASignature(ev.key.Curve, signature)", New: "\tr, s, err := decodeECDSASignature(elliptic.P256(), signature)"},
	}
}

// checkECDSASignDigestPaths (R16.2; shared with C17: a digest handed to
// SignDigest reaches the key unchanged, so signatures made from a digest and
// from the message verify alike).
func checkECDSASignDigestPaths(r *Report, rule string) {
	P := r.P
	enc, _ := P.ecdsaHelpers()
	curveI, rI, sI := encRoles(enc)
	nsd := 0
	for _, fn := range P.implementors(P.iface("DigestSigner"), "SignDigest") {
		// ES* signers: those that reach the encode helper or handle an ecdsa key
		rt := deref(fn.Signature.Recv().Type())
		st, _ := rt.Underlying().(*types.Struct)
		isEC := false
		if st != nil {
			for i := 0; i < st.NumFields(); i++ {
				if strings.Contains(st.Field(i).Type().String(), "crypto/ecdsa.") {
					isEC = true
				}
			}
		}
		if !isEC {
			continue
		}
		nsd++
		for _, x := range P.factsOf(fn).exits {
			if x.kind == exitFailure {
				continue
			}
			o := r.ob(rule, shortFn(fn)+":exit:"+exitID(P, fn, x), fn, x.ret, "success is the encode helper's pair for the key's curve and (r, s) in order")
			c := delegCall(x.results[1])
			if !x.delegated || c == nil || c.S != shortFn(enc) || !pairDelegated(x.results[0], x.results[1]) {
				o.fail("a success exit returns " + truncate(x.results[0].String(), 160) + " instead of the encode helper's result")
				continue
			}
			if len(c.Args) != len(enc.Params) {
				o.fail("the encode helper is called with an unexpected argument list: " + truncate(c.String(), 160))
				continue
			}
			curveOK := strings.HasPrefix(c.Args[curveI].String(), "**$0.") && strings.HasSuffix(c.Args[curveI].String(), ".Curve")
			rT, sT := c.Args[rI], c.Args[sI]
			// (r, s) may be fields of what a parsing helper returns
			if rT.Op == "field" && sT.Op == "field" && helperResult(P, rT) != nil {
				rT, sT = P.terms.expand(rT, 1), P.terms.expand(sT, 1)
			}
			order := ""
			switch {
			case rT.Op == "res" && sT.Op == "res" && rT.Args[0].eq(sT.Args[0]) && rT.Args[0].Op == "call" && rT.Args[0].S == "crypto/ecdsa.Sign":
				if !(rT.S == "0" && sT.S == "1") {
					order = "r and s are results " + rT.S + " and " + sT.S + " of ecdsa.Sign"
				}
				// key and digest
				k := rT.Args[0].Args
				if !(k[0].String() == "$1" && strings.HasPrefix(k[1].String(), "*$0.") && k[2].String() == "$2") {
					order = "ecdsa.Sign is not called with (rand, own key, digest): " + rT.Args[0].String()
				}
			case rT.Op == "field" && sT.Op == "field" && rT.Args[0].eq(sT.Args[0]) && rT.Args[0].Op == "mod" && rT.Args[0].Args[0].Op == "call" && rT.Args[0].Args[0].S == "encoding/asn1.Unmarshal":
				// field order in the decoded struct
				um := rT.Args[0].Args[0]
				ty := strings.TrimPrefix(um.Args[1].S, "*struct{")
				first := strings.Fields(ty)
				okOrder := len(first) > 0 && first[0] == rT.S && strings.Contains(ty, "; "+sT.S+" ")
				if !strings.HasPrefix(um.Args[1].S, "*struct{") {
					// a named struct type: its declared field order
					okOrder = false
					if nt := P.namedType(strings.TrimPrefix(um.Args[1].S, "*")); nt != nil {
						if st, isSt := nt.Underlying().(*types.Struct); isSt && st.NumFields() == 2 {
							okOrder = st.Field(0).Name() == rT.S && st.Field(1).Name() == sT.S
						}
					}
				}
				if !okOrder {
					order = "ASN.1 SEQUENCE {r, s} is decoded into struct " + um.Args[1].S + " but r is taken from field " + rT.S + " and s from " + sT.S
				}
				src := um.Args[0]
				if !(src.Op == "res" && src.S == "0" && src.Args[0].Op == "call" && src.Args[0].S == "invoke:crypto.Signer.Sign" && src.Args[0].Args[1].String() == "$1" && src.Args[0].Args[2].String() == "$2") {
					order = "the ASN.1 bytes are not the crypto.Signer's output for (rand, digest): " + truncate(src.String(), 160)
				}
				if !exitFacts(P, x).has(okFact(&Term{Op: "res", S: "1", Args: []*Term{um}})) {
					order = "asn1.Unmarshal's error is not checked"
				}
			default:
				order = "r, s are " + truncate(rT.String(), 100) + ", " + truncate(sT.String(), 100)
			}
			o.check(curveOK && order == "", "encode(own curve, r, s)", fmt.Sprintf("curve is the key's own: %v (%s); %s", curveOK, c.Args[0], order))
		}
	}
	r.floor(rule, nsd, 2, "built-in ES* SignDigest methods")
}

package main

// E4/E5: per-function write effects on memory that existed before the call,
// classified by root (param / global / unknown; writes to memory fresh in the
// activation are dropped), propagated over the call graph; plus the external
// contract table (DESIGN.md 2.6 and Appendix A).

import (
	"fmt"
	"go/types"
	"os"
	"sort"
	"strconv"
	"strings"

	"golang.org/x/tools/go/ssa"
)

// Loc is a memory region: a root plus an access path.
type Loc struct {
	Kind   string // "param", "global", "unknown", "fresh"
	Param  int
	Global string
	Path   []string
	Why    string
}

func (l Loc) String() string {
	s := l.Kind
	switch l.Kind {
	case "param":
		s = "$" + strconv.Itoa(l.Param)
	case "global":
		s = "@" + l.Global
	case "unknown":
		s = "unknown(" + l.Why + ")"
	}
	for _, p := range l.Path {
		if strings.HasPrefix(p, "[") {
			s += p
		} else {
			s += "." + p
		}
	}
	return s
}

type effWrite struct {
	kind   string // param/global/unknown
	param  int
	global string
	path   []string
	instr  ssa.Instruction // the writing instruction (innermost)
	via    []string        // call chain from the summarised function down to instr
	what   string
	// kind "callparam": the function calls its func-typed parameter `param`;
	// cpArgs are the origins of the arguments it passes (in its own terms)
	cpArgs [][]Loc
	// tops: the blocks of the summarised function whose instructions produce
	// this write (directly or through a call)
	tops []*ssa.BasicBlock
	// method: non-empty when the function invokes this method on its
	// interface-typed parameter `param` (instead of calling a func parameter)
	method string
}

func (w effWrite) loc() Loc {
	return Loc{Kind: w.kind, Param: w.param, Global: w.global, Path: w.path, Why: w.what}
}

func (w effWrite) key() string {
	// the call chain is deliberately not part of the identity: through a
	// recursive callee it grows without bound while denoting the same write
	return w.loc().String() + "|" + w.what + "|" + fmt.Sprint(w.instr.Pos())
}

type effSummary struct {
	fn     *ssa.Function
	writes []effWrite
	// notes: things that made the summary imprecise (uncontracted callee etc.)
	notes []string
}

func (s *effSummary) sig() string {
	ks := make([]string, 0, len(s.writes))
	seen := map[string]bool{}
	for _, w := range s.writes {
		k := w.loc().String()
		if w.kind == "unknown" {
			k = "unknown"
		}
		if w.kind == "callparam" {
			k = "callparam:" + strconv.Itoa(w.param) + ":" + w.method
			for _, ls := range w.cpArgs {
				k += "("
				for _, l := range ls {
					k += l.String() + ","
				}
				k += ")"
			}
		}
		if !seen[k] {
			seen[k] = true
			ks = append(ks, k)
		}
	}
	sort.Strings(ks)
	return strings.Join(ks, ";")
}

type effectEngine struct {
	liveMemo map[string]map[*ssa.BasicBlock]bool
	P        *Prog
	sums     map[*ssa.Function]*effSummary
	rounds   int
	computed bool
}

func newEffectEngine(P *Prog) *effectEngine {
	return &effectEngine{P: P, sums: map[*ssa.Function]*effSummary{}}
}

const maxPathDepth = 6

// summary returns the current summary of fn (empty before the first round).
func (E *effectEngine) summary(fn *ssa.Function) *effSummary {
	if s, ok := E.sums[fn]; ok {
		return s
	}
	return &effSummary{fn: fn}
}

// computeAll iterates rounds until the summaries are stable. Each round uses
// only the previous round's summaries (no recursion), starting from empty:
// the least fixpoint of the may-write equations.
func (E *effectEngine) computeAll() {
	if E.computed {
		return
	}
	P := E.P
	for round := 0; ; round++ {
		if round > 40 {
			undecidedf("effects: no fixpoint after %d rounds", round)
		}
		P.terms = newTermEngine(P)
		next := map[*ssa.Function]*effSummary{}
		for _, fn := range P.Funcs {
			if fn.Blocks == nil {
				continue
			}
			next[fn] = E.compute(fn)
		}
		same := len(next) == len(E.sums)
		if same {
			for fn, s := range next {
				if o, ok := E.sums[fn]; !ok || o.sig() != s.sig() {
					same = false
					if round > 36 && os.Getenv("COSECHECK_DEBUG") != "" {
						fmt.Fprintf(os.Stderr, "effects round %d: %s\n  old %s\n  new %s\n", round, shortFn(fn), o.sig(), s.sig())
					}
					break
				}
			}
		}
		E.sums = next
		E.rounds = round + 1
		if same {
			break
		}
	}
	E.computed = true
}

func (E *effectEngine) compute(fn *ssa.Function) *effSummary {
	P := E.P
	e := P.terms
	s := &effSummary{fn: fn}
	seen := map[string]int{}
	var curBlock *ssa.BasicBlock
	add := func(l Loc, in ssa.Instruction, via []string, what string) {
		if l.Kind == "fresh" {
			return
		}
		p := l.Path
		if len(p) > maxPathDepth {
			p = p[:maxPathDepth]
		}
		w := effWrite{kind: l.Kind, param: l.Param, global: l.Global, path: p, instr: in, via: via, what: what}
		if l.Kind == "unknown" {
			w.what = what + " (" + l.Why + ")"
		}
		k := w.key()
		if i, dup := seen[k]; dup {
			if curBlock != nil {
				s.writes[i].tops = append(s.writes[i].tops, curBlock)
			}
			return
		}
		seen[k] = len(s.writes)
		if curBlock != nil {
			w.tops = []*ssa.BasicBlock{curBlock}
		}
		s.writes = append(s.writes, w)
	}
	for _, b := range fn.Blocks {
		curBlock = b
		for _, in := range b.Instrs {
			switch in := in.(type) {
			case *ssa.Store:
				root, path := e.addrPath(in.Addr)
				for _, l := range E.originsOfRoot(root, path, 0) {
					add(l, in, nil, "store")
				}
			case *ssa.MapUpdate:
				for _, l := range E.originsOf(e.of(in.Map), []string{"[*]"}, 0) {
					add(l, in, nil, "mapupdate")
				}
			case ssa.CallInstruction:
				E.callEffects(fn, in, add, s)
			}
		}
	}
	sort.Slice(s.writes, func(i, j int) bool { return s.writes[i].key() < s.writes[j].key() })
	return s
}

// originsOfRoot: origins of the memory at root.path where root is the SSA
// root value of an address.
func (E *effectEngine) originsOfRoot(root ssa.Value, path []string, depth int) []Loc {
	switch r := root.(type) {
	case *ssa.Alloc:
		return []Loc{{Kind: "fresh"}}
	case *ssa.Parameter:
		return []Loc{{Kind: "param", Param: paramIndex(r), Path: path}}
	case *ssa.Global:
		return []Loc{{Kind: "global", Global: r.Name(), Path: path}}
	case *ssa.FreeVar:
		// captured variable of the enclosing function: local to that
		// activation when the binding is an Alloc
		if mc := closureBinding(r); mc != nil {
			if _, ok := mc.(*ssa.Alloc); ok {
				return []Loc{{Kind: "fresh"}}
			}
		}
		return []Loc{{Kind: "unknown", Why: "free variable " + r.Name()}}
	}
	return E.originsOf(E.P.terms.of(root), path, depth)
}

func closureBinding(fv *ssa.FreeVar) ssa.Value {
	fn := fv.Parent()
	idx := -1
	for i, f := range fn.FreeVars {
		if f == fv {
			idx = i
		}
	}
	if idx < 0 || fn.Parent() == nil {
		return nil
	}
	for _, b := range fn.Parent().Blocks {
		for _, in := range b.Instrs {
			if mc, ok := in.(*ssa.MakeClosure); ok && mc.Fn == fn && idx < len(mc.Bindings) {
				return mc.Bindings[idx]
			}
		}
	}
	return nil
}

// originsOf maps a value term (of reference or struct type) + path below it to
// the memory regions it may denote.
func (E *effectEngine) originsOf(t *Term, path []string, depth int) []Loc {
	if depth > 12 {
		return []Loc{{Kind: "unknown", Why: "origin depth"}}
	}
	cat := func(p ...string) []string { return append(append([]string{}, p...), path...) }
	switch t.Op {
	case "param":
		i, _ := strconv.Atoi(t.S)
		return []Loc{{Kind: "param", Param: i, Path: path}}
	case "global":
		return []Loc{{Kind: "global", Global: t.S, Path: path}}
	case "alloc", "makemap", "makeslice", "arr", "zero", "nil", "const", "convert", "closure", "fn", "makechan", "binop", "unop", "len", "cap":
		return []Loc{{Kind: "fresh"}}
	case "struct":
		if len(path) > 0 && !strings.HasPrefix(path[0], "[") {
			return E.originsOf(projectField(t, path[0]), path[1:], depth+1)
		}
		var out []Loc
		for _, a := range t.Args {
			out = append(out, E.originsOf(a, path, depth+1)...)
		}
		return dedupLocs(out)
	case "update":
		if len(path) > 0 && !strings.HasPrefix(path[0], "[") {
			return E.originsOf(projectField(t, path[0]), path[1:], depth+1)
		}
		return dedupLocs(append(E.originsOf(t.Args[0], path, depth+1), E.originsOf(t.Args[1], nil, depth+1)...))
	case "load":
		rk, p := termLoc(t.Args[0])
		full := append(append([]string{}, p...), path...)
		switch {
		case strings.HasPrefix(rk, "param:"):
			i, _ := strconv.Atoi(rk[6:])
			return []Loc{{Kind: "param", Param: i, Path: full}}
		case strings.HasPrefix(rk, "global:"):
			return []Loc{{Kind: "global", Global: rk[7:], Path: full}}
		case strings.HasPrefix(rk, "alloc:"):
			return []Loc{{Kind: "fresh"}}
		}
		// pointer from elsewhere: origins of that pointer
		base := t.Args[0]
		for base.Op == "field" || base.Op == "index" {
			base = base.Args[0]
		}
		return E.originsOf(base, full, depth+1)
	case "field":
		return E.originsOf(t.Args[0], cat(t.S), depth+1)
	case "index":
		return E.originsOf(t.Args[0], cat("[*]"), depth+1)
	case "lookup":
		return E.originsOf(t.Args[0], cat("[*]"), depth+1)
	case "iface", "typeassert":
		return E.originsOf(t.Args[0], path, depth+1)
	case "slice":
		return E.originsOf(t.Args[0], path, depth+1)
	case "append":
		out := E.originsOf(t.Args[0], path, depth+1)
		return dedupLocs(append(out, Loc{Kind: "fresh"}))
	case "phi", "alt":
		var out []Loc
		for _, a := range t.Args {
			out = append(out, E.originsOf(a, path, depth+1)...)
		}
		return dedupLocs(out)
	case "gate":
		return dedupLocs(append(E.originsOf(t.Args[1], path, depth+1), E.originsOf(t.Args[2], path, depth+1)...))
	case "cyc":
		// back reference into a loop phi: its origins are those of the phi's
		// other alternatives (least fixpoint), nothing to add here
		return nil
	case "mod":
		// a location written by an in-package decoder method: decoders store
		// only values built from mode.Unmarshal results, i.e. fresh memory
		// (this is rule R19.3/R19.4 of C19, checked there)
		if t.Args[0].Op == "call" && strings.HasSuffix(t.Args[0].S, ").UnmarshalCBOR") && E.P.calleeOfTerm(t.Args[0]) != nil {
			return dedupLocs(append(E.originsOf(t.Args[1], path, depth+1), Loc{Kind: "fresh"}))
		}
		// a location modified by a call: a decoder stores fresh memory (A2/A3
		// for zero-valued destinations); other calls: what was there or
		// something the callee made
		if t.Args[0].Op == "call" && strings.HasSuffix(t.Args[0].S, "DecMode.Unmarshal") {
			return dedupLocs(append(E.originsOf(t.Args[1], path, depth+1), Loc{Kind: "fresh"}))
		}
		return dedupLocs(append(E.originsOf(t.Args[1], path, depth+1), Loc{Kind: "unknown", Why: "value modified by " + t.Args[0].S}))
	case "res", "call":
		call, idx := t, 0
		if t.Op == "res" {
			call = t.Args[0]
			idx, _ = strconv.Atoi(t.S)
		}
		if call.Op != "call" {
			return []Loc{{Kind: "unknown", Why: "result of " + call.Op}}
		}
		if fn := E.P.calleeOfTerm(call); fn != nil {
			m := map[string]*Term{}
			for i, a := range call.Args {
				m[strconv.Itoa(i)] = a
			}
			var out []Loc
			for _, r := range E.P.terms.returns(fn) {
				if idx >= len(r.results) {
					continue
				}
				rt := r.results[idx]
				if rt.contains(func(u *Term) bool { return u.Op == "call" && u.S == call.S }) {
					continue // recursion: the other returns cover it
				}
				out = append(out, E.originsOf(rt.subst(m), path, depth+2)...)
			}
			if len(out) == 0 {
				out = []Loc{{Kind: "fresh"}}
			}
			return dedupLocs(out)
		}
		// external
		if ct, ok := contractByName(call.S); ok {
			if ct.fresh {
				return []Loc{{Kind: "fresh"}}
			}
			if ct.aliasArg >= 0 && ct.aliasArg < len(call.Args) {
				return E.originsOf(call.Args[ct.aliasArg], path, depth+1)
			}
		}
		return []Loc{{Kind: "unknown", Why: "result of " + call.S}}
	}
	return []Loc{{Kind: "unknown", Why: t.Op}}
}

func dedupLocs(ls []Loc) []Loc {
	seen := map[string]bool{}
	var out []Loc
	for _, l := range ls {
		k := l.String()
		if l.Kind == "fresh" {
			k = "fresh"
		}
		if !seen[k] {
			seen[k] = true
			out = append(out, l)
		}
	}
	return out
}

func isRefType(t types.Type) bool {
	switch u := t.Underlying().(type) {
	case *types.Pointer, *types.Map, *types.Slice, *types.Interface, *types.Chan, *types.Signature:
		return true
	case *types.Struct:
		for i := 0; i < u.NumFields(); i++ {
			if isRefType(u.Field(i).Type()) {
				return true
			}
		}
	case *types.Array:
		return isRefType(u.Elem())
	}
	return false
}

func (E *effectEngine) callEffects(fn *ssa.Function, in ssa.CallInstruction, add func(Loc, ssa.Instruction, []string, string), s *effSummary) {
	P := E.P
	e := P.terms
	c := in.Common()
	writeArg := func(arg ssa.Value, sub []string, what string) {
		for _, l := range E.originsOf(e.of(arg), sub, 0) {
			add(l, in, nil, what)
		}
	}
	if c.IsInvoke() {
		ic := invokeContract(c)
		if prm, isParam := c.Value.(*ssa.Parameter); ic == nil && isParam {
			// a method of an interface parameter: resolved at the callers that
			// pass a value of a known concrete type
			w := effWrite{kind: "callparam", param: paramIndex(prm), method: c.Method.Name(), instr: in, what: "invoke of " + c.Method.Name() + " on parameter " + prm.Name()}
			for _, a := range c.Args {
				var ls []Loc
				if isRefType(a.Type()) {
					ls = dedupLocs(E.originsOf(e.of(a), nil, 0))
				}
				w.cpArgs = append(w.cpArgs, ls)
			}
			s.writes = append(s.writes, w)
			return
		}
		if ic == nil {
			s.notes = append(s.notes, fmt.Sprintf("%s: uncontracted interface call %s", P.instrPos(in), calleeName(c)))
			// conservatively: writes through every reference argument
			for _, a := range c.Args {
				if isRefType(a.Type()) {
					for _, l := range E.originsOf(e.of(a), nil, 0) {
						if l.Kind != "fresh" {
							add(Loc{Kind: "unknown", Why: "uncontracted " + calleeName(c)}, in, nil, "invoke")
						}
					}
				}
			}
			return
		}
		for _, i := range ic.writes {
			if i == -1 {
				writeArg(c.Value, nil, "invoke:"+c.Method.Name())
			} else if i < len(c.Args) {
				writeArg(c.Args[i], nil, "invoke:"+c.Method.Name())
			}
		}
		return
	}
	if b, ok := c.Value.(*ssa.Builtin); ok {
		switch b.Name() {
		case "append":
			writeArg(c.Args[0], []string{"[*]"}, "append")
		case "copy":
			writeArg(c.Args[0], []string{"[*]"}, "copy")
		case "delete":
			writeArg(c.Args[0], []string{"[*]"}, "delete")
		case "clear":
			writeArg(c.Args[0], []string{"[*]"}, "clear")
		}
		return
	}
	callee := c.StaticCallee()
	if callee == nil {
		// call of a function value (closure): defer func(){...}() etc.
		if mc, ok := c.Value.(*ssa.MakeClosure); ok {
			callee = mc.Fn.(*ssa.Function)
		} else if prm, ok := c.Value.(*ssa.Parameter); ok {
			// a call of a func-typed parameter: resolved at the callers
			w := effWrite{kind: "callparam", param: paramIndex(prm), instr: in, what: "call of parameter " + prm.Name()}
			for _, a := range c.Args {
				var ls []Loc
				if isRefType(a.Type()) {
					ls = dedupLocs(E.originsOf(e.of(a), nil, 0))
				}
				w.cpArgs = append(w.cpArgs, ls)
			}
			s.writes = append(s.writes, w)
			return
		} else {
			s.notes = append(s.notes, fmt.Sprintf("%s: dynamic call", P.instrPos(in)))
			add(Loc{Kind: "unknown", Why: "dynamic call"}, in, nil, "dyncall")
			return
		}
	}
	if P.inPkg(callee) {
		live := E.liveBlocks(callee, in)
		for _, w := range E.summary(callee).writes {
			if live != nil && len(w.tops) > 0 {
				// constant arguments (a flag, a struct literal of constants)
				// make some blocks of the callee unreachable from this call
				reach := false
				for _, b := range w.tops {
					if live[b] {
						reach = true
					}
				}
				if !reach {
					continue
				}
			}
			via := append([]string{shortFn(callee)}, w.via...)
			switch w.kind {
			case "param":
				if w.param >= len(c.Args) {
					continue
				}
				for _, l := range E.originsOfArg(c.Args[w.param], w.path, in) {
					add(l, w.instr, via, w.what)
				}
			case "global":
				add(w.loc(), w.instr, via, w.what)
			case "unknown":
				add(w.loc(), w.instr, via, w.what)
			case "callparam":
				E.applyCallParam(fn, in, w, via, add, s)
			}
		}
		return
	}
	ct, ok := lookupContract(callee)
	if !ok {
		// uncontracted external callee: undecided if it receives non-fresh
		// reference arguments
		for _, a := range c.Args {
			if !isRefType(a.Type()) {
				continue
			}
			for _, l := range E.originsOf(e.of(a), nil, 0) {
				if l.Kind != "fresh" {
					s.notes = append(s.notes, fmt.Sprintf("%s: uncontracted external callee %s receives %s", P.instrPos(in), shortFn(callee), l))
					add(Loc{Kind: "unknown", Why: "uncontracted " + shortFn(callee)}, in, nil, "extcall")
				}
			}
		}
		return
	}
	for _, i := range ct.writes {
		if i < len(c.Args) {
			writeArg(c.Args[i], nil, "ext:"+shortFn(callee))
		}
	}
}

// originsOfArg: the memory regions denoted by path `sub` below the pointer
// argument arg of call `in`. When the pointer leads into a local (alloc) and
// the path crosses a reference-typed component (map, slice, pointer,
// interface) the region is what that component refers to at the call - which
// may well be the caller's memory (a by-value struct copy shares its maps).
func (E *effectEngine) originsOfArg(arg ssa.Value, sub []string, in ssa.Instruction) []Loc {
	e := E.P.terms
	root, rpath := e.pointerRoot(arg)
	a, isAlloc := root.(*ssa.Alloc)
	if !isAlloc {
		return E.originsOf(e.of(arg), sub, 0)
	}
	full := append(append([]string{}, rpath...), sub...)
	t := deref(a.Type())
	for i := 0; i < len(full); i++ {
		switch u := t.Underlying().(type) {
		case *types.Struct:
			found := false
			for j := 0; j < u.NumFields(); j++ {
				if u.Field(j).Name() == full[i] {
					t, found = u.Field(j).Type(), true
				}
			}
			if !found {
				return []Loc{{Kind: "fresh"}}
			}
			continue
		case *types.Array:
			t = u.Elem()
			continue
		case *types.Map, *types.Slice, *types.Pointer, *types.Interface, *types.Chan, *types.Signature:
			// full[:i] names a reference held in the local: follow its value
			v := e.loadPath(a, full[:i], in)
			return E.originsOf(v, full[i:], 0)
		default:
			return []Loc{{Kind: "fresh"}}
		}
	}
	return []Loc{{Kind: "fresh"}}
}

// applyCallParam: the callee of call `in` calls its func-typed parameter
// w.param. When the argument is a known function (a bound method value, a
// function literal or a named function) that function's summary is applied to
// the arguments the callee passes; a func parameter of fn itself is passed on.
func (E *effectEngine) applyCallParam(fn *ssa.Function, in ssa.CallInstruction, w effWrite, via []string, add func(Loc, ssa.Instruction, []string, string), s *effSummary) {
	P := E.P
	e := P.terms
	c := in.Common()
	unknown := func(why string) {
		s.notes = append(s.notes, fmt.Sprintf("%s: %s", P.instrPos(in), why))
		add(Loc{Kind: "unknown", Why: why}, w.instr, via, "dyncall")
	}
	if w.param >= len(c.Args) {
		unknown("dynamic call")
		return
	}
	// origins (at this call site) of the i-th argument the callee passes on
	argOrigins := func(i int, sub []string) []Loc {
		var out []Loc
		if i >= len(w.cpArgs) {
			return []Loc{{Kind: "unknown", Why: "dynamic call argument"}}
		}
		for _, l := range w.cpArgs[i] {
			switch l.Kind {
			case "param":
				if l.Param < len(c.Args) {
					out = append(out, E.originsOf(e.of(c.Args[l.Param]), append(append([]string{}, l.Path...), sub...), 0)...)
				}
			case "fresh":
			default:
				l.Path = append(append([]string{}, l.Path...), sub...)
				out = append(out, l)
			}
		}
		return out
	}
	fv := c.Args[w.param]
	for {
		if ct, ok := fv.(*ssa.ChangeType); ok {
			fv = ct.X
			continue
		}
		break
	}
	var g *ssa.Function
	var recv ssa.Value
	if w.method != "" {
		// the argument must be a value of a known concrete type
		mi, ok := fv.(*ssa.MakeInterface)
		if !ok {
			if prm, isP := fv.(*ssa.Parameter); isP {
				nw := effWrite{kind: "callparam", param: paramIndex(prm), method: w.method, instr: w.instr, via: via, what: w.what}
				for i := range w.cpArgs {
					nw.cpArgs = append(nw.cpArgs, dedupLocs(argOrigins(i, nil)))
				}
				s.writes = append(s.writes, nw)
				return
			}
			unknown("interface method call on a value of unknown concrete type")
			return
		}
		if sel := P.SSA.MethodSets.MethodSet(mi.X.Type()).Lookup(P.Pkg.Types, w.method); sel != nil {
			g = P.SSA.MethodValue(sel)
		} else if sel := P.SSA.MethodSets.MethodSet(mi.X.Type()).Lookup(nil, w.method); sel != nil {
			g = P.SSA.MethodValue(sel)
		}
		if g == nil {
			unknown("method " + w.method + " of " + mi.X.Type().String() + " not found")
			return
		}
		recv = mi.X
	}
	switch x := fv.(type) {
	case *ssa.MakeInterface:
	case *ssa.MakeClosure:
		g = x.Fn.(*ssa.Function)
		if m := boundMethodOf(g); m != nil {
			g, recv = m, x.Bindings[0]
		}
	case *ssa.Function:
		g = x
	case *ssa.Parameter:
		nw := effWrite{kind: "callparam", param: paramIndex(x), instr: w.instr, via: via, what: w.what}
		for i := range w.cpArgs {
			nw.cpArgs = append(nw.cpArgs, dedupLocs(argOrigins(i, nil)))
		}
		s.writes = append(s.writes, nw)
		return
	}
	if g == nil {
		unknown("dynamic call of an unresolved function value")
		return
	}
	apply := func(ws []effWrite, off int) {
		for _, gw := range ws {
			gvia := append(append([]string{}, via...), shortFn(g))
			gvia = append(gvia, gw.via...)
			switch gw.kind {
			case "param":
				if recv != nil && gw.param == 0 {
					for _, l := range E.originsOf(e.of(recv), gw.path, 0) {
						add(l, gw.instr, gvia, gw.what)
					}
					continue
				}
				for _, l := range argOrigins(gw.param-off, gw.path) {
					add(l, gw.instr, gvia, gw.what)
				}
			case "global", "unknown":
				add(gw.loc(), gw.instr, gvia, gw.what)
			case "callparam":
				unknown("nested dynamic call")
			}
		}
	}
	if P.inPkg(g) {
		off := 0
		if recv != nil {
			off = 1
		}
		apply(E.summary(g).writes, off)
		return
	}
	if ct, ok := lookupContract(g); ok {
		for _, i := range ct.writes {
			j := i
			if recv != nil {
				if i == 0 {
					for _, l := range E.originsOf(e.of(recv), nil, 0) {
						add(l, w.instr, via, "ext:"+shortFn(g))
					}
					continue
				}
				j = i - 1
			}
			for _, l := range argOrigins(j, nil) {
				add(l, w.instr, via, "ext:"+shortFn(g))
			}
		}
		return
	}
	unknown("dynamic call of uncontracted " + shortFn(g))
}

// ---------------------------------------------------------------------------
// External contract table (Appendix A)

type contract struct {
	writes   []int // argument indexes (receiver = 0 for methods) written through
	fresh    bool  // result is fresh memory
	aliasArg int   // result aliases this argument (-1: none)
	retains  []int // arguments that may be retained
	panics   string
}

var contracts = map[string]contract{
	// errors / fmt / strconv / strings / bytes: read-only, fresh results
	"errors.New":        {fresh: true, aliasArg: -1},
	"fmt.Errorf":        {fresh: true, aliasArg: -1},
	"fmt.Sprint":        {fresh: true, aliasArg: -1},
	"fmt.Sprintf":       {fresh: true, aliasArg: -1},
	"strconv.FormatInt": {fresh: true, aliasArg: -1},
	"strings.Count":     {fresh: true, aliasArg: -1},
	"bytes.HasPrefix":   {fresh: true, aliasArg: -1},
	"bytes.Equal":       {fresh: true, aliasArg: -1},
	"maps.Clone[" + cosePath + ".ProtectedHeader " + "any any]": {fresh: true, aliasArg: -1},
	// reflect
	"reflect.ValueOf":         {fresh: true, aliasArg: -1},
	"(reflect.Value).Kind":    {fresh: true, aliasArg: -1},
	"(reflect.Value).CanInt":  {fresh: true, aliasArg: -1},
	"(reflect.Value).CanUint": {fresh: true, aliasArg: -1},
	"(reflect.Value).Int":     {fresh: true, aliasArg: -1, panics: "kind is a signed integer"},
	"(reflect.Value).Uint":    {fresh: true, aliasArg: -1, panics: "kind is an unsigned integer"},
	"(reflect.Value).Bytes":   {aliasArg: 0, panics: "kind is a byte slice or addressable byte array"},
	"(reflect.Value).String":  {fresh: true, aliasArg: -1},
	"(reflect.Value).Bool":    {fresh: true, aliasArg: -1, panics: "kind is bool"},
	// math/big
	"(*math/big.Int).SetBytes":  {writes: []int{0}, aliasArg: 0},
	"(*math/big.Int).Bytes":     {fresh: true, aliasArg: -1},
	"(*math/big.Int).BitLen":    {fresh: true, aliasArg: -1, panics: "receiver non-nil"},
	"(*math/big.Int).Sign":      {fresh: true, aliasArg: -1, panics: "receiver non-nil"},
	"(*math/big.Int).FillBytes": {writes: []int{1}, aliasArg: 1, panics: "len(buf) >= byte length of receiver"},
	// crypto
	"crypto/ecdsa.Sign":              {fresh: true, aliasArg: -1},
	"crypto/ecdsa.Verify":            {fresh: true, aliasArg: -1},
	"crypto/rsa.VerifyPSS":           {fresh: true, aliasArg: -1},
	"crypto/ed25519.Verify":          {fresh: true, aliasArg: -1, panics: "len(publicKey) == 32"},
	"crypto/ed25519.NewKeyFromSeed":  {fresh: true, aliasArg: -1, panics: "len(seed) == 32"},
	"(*crypto/ecdsa.PublicKey).ECDH": {fresh: true, aliasArg: -1},
	// standard-library functions that fault on arguments a decoded key or message
	// can carry (the panic audit has no recogniser for their preconditions, so a
	// call in audited code is reported unless the function recovers)
	"crypto/elliptic.Marshal":               {fresh: true, aliasArg: -1, panics: "(x, y) is a point of the curve"},
	"crypto/elliptic.MarshalCompressed":     {fresh: true, aliasArg: -1, panics: "(x, y) is a point of the curve"},
	"(*math/big.Int).Div":                   {writes: []int{0}, aliasArg: 0, panics: "divisor != 0"},
	"(*math/big.Int).Mod":                   {writes: []int{0}, aliasArg: 0, panics: "divisor != 0"},
	"(*math/big.Int).Quo":                   {writes: []int{0}, aliasArg: 0, panics: "divisor != 0"},
	"(*math/big.Int).Rem":                   {writes: []int{0}, aliasArg: 0, panics: "divisor != 0"},
	"crypto/rand.Int":                       {fresh: true, aliasArg: -1, panics: "max > 0"},
	"strings.Repeat":                        {fresh: true, aliasArg: -1, panics: "count >= 0"},
	"bytes.Repeat":                          {fresh: true, aliasArg: -1, panics: "count >= 0"},
	"crypto/elliptic.P256":                  {fresh: true, aliasArg: -1}, // shared immutable singleton: never written by the package (R18 checks writes separately)
	"crypto/elliptic.P384":                  {fresh: true, aliasArg: -1},
	"crypto/elliptic.P521":                  {fresh: true, aliasArg: -1},
	"(crypto.Hash).Available":               {fresh: true, aliasArg: -1},
	"(crypto.Hash).Size":                    {fresh: true, aliasArg: -1, panics: "hash is known"},
	"(crypto.Hash).New":                     {fresh: true, aliasArg: -1, panics: "hash is available"},
	"encoding/asn1.Unmarshal":               {writes: []int{1}, fresh: true, aliasArg: -1},
	"(" + cborPath + ".EncOptions).EncMode": {fresh: true, aliasArg: -1},
	"(" + cborPath + ".DecOptions).DecMode": {fresh: true, aliasArg: -1},
}

func contractKey(fn *ssa.Function) string {
	s := fn.String()
	// generic instantiation names: keep as is
	return s
}

func lookupContract(fn *ssa.Function) (contract, bool) {
	k := contractKey(fn)
	if c, ok := contracts[k]; ok {
		return c, true
	}
	// generic functions: match on origin name
	if o := fn.Origin(); o != nil {
		switch o.String() {
		case "maps.Clone":
			return contract{fresh: true, aliasArg: -1}, true
		case "maps.Copy":
			// copies the entries of the source into the destination map
			return contract{writes: []int{0}, aliasArg: -1}, true
		case "slices.Contains", "slices.Index", "slices.Equal":
			// read their arguments only (comparable element types: no user code runs)
			return contract{fresh: true, aliasArg: -1}, true
		}
	}
	return contract{}, false
}

func contractByName(short string) (contract, bool) {
	full := strings.ReplaceAll(short, "cbor.", cborPath+".")
	if c, ok := contracts[full]; ok {
		return c, true
	}
	if c, ok := contracts[short]; ok {
		return c, true
	}
	if strings.HasPrefix(short, "maps.Clone") {
		return contract{fresh: true, aliasArg: -1}, true
	}
	if strings.HasPrefix(short, "maps.Copy[") {
		return contract{writes: []int{0}, aliasArg: -1}, true
	}
	for _, pure := range []string{"slices.Contains[", "slices.Index[", "slices.Equal["} {
		if strings.HasPrefix(short, pure) {
			return contract{fresh: true, aliasArg: -1}, true
		}
	}
	if strings.HasPrefix(short, "invoke:") {
		if ic, ok := invokeContracts[strings.TrimPrefix(short, "invoke:")]; ok {
			return contract{fresh: ic.fresh, aliasArg: -1}, true
		}
	}
	return contract{}, false
}

type invContract struct {
	writes []int // -1 = receiver, else arg index (not counting receiver)
	fresh  bool
}

// invokeContracts: interface method calls, by "<iface type>.<method>".
var invokeContracts = map[string]invContract{
	"cbor.EncMode.Marshal":         {fresh: true},
	"cbor.DecMode.Unmarshal":       {writes: []int{1}},
	"cbor.DecMode.Wellformed":      {fresh: true},
	"Signer.Sign":                  {fresh: true}, // foreign implementations: read-only on arguments (assumption); in-package ones are analysed as entry points
	"Signer.Algorithm":             {fresh: true},
	"Verifier.Verify":              {fresh: true},
	"Verifier.Algorithm":           {fresh: true},
	"crypto.Signer.Sign":           {fresh: true},
	"crypto.Signer.Public":         {fresh: true},
	"hash.Hash.Write":              {writes: []int{-1}},
	"hash.Hash.Sum":                {fresh: true},
	"error.Error":                  {fresh: true},
	"crypto/elliptic.Curve.Params": {fresh: true},
}

func invokeContract(c *ssa.CallCommon) *invContract {
	k := shortType(c.Value.Type()) + "." + c.Method.Name()
	if ic, ok := invokeContracts[k]; ok {
		return &ic
	}
	return nil
}

// liveBlocks: when call `in` passes constants (a boolean or integer constant,
// or a struct literal with constant fields) to the loop-free in-package
// function callee, the blocks of callee that lie on a path whose conditions
// are not contradicted by those constants; nil when nothing can be said.
func (E *effectEngine) liveBlocks(callee *ssa.Function, in ssa.CallInstruction) map[*ssa.BasicBlock]bool {
	P := E.P
	c := in.Common()
	m := map[string]*Term{}
	hasConst := false
	for i, a := range c.Args {
		t := P.terms.of(a)
		if al, ok := a.(*ssa.Alloc); ok {
			_ = al
		}
		closed := func(u *Term) bool {
			switch u.Op {
			case "const", "zero":
				return true
			case "update":
				ok := false
				u.walk(func(x *Term) {
					if x.Op == "const" {
						ok = true
					}
				})
				return ok
			}
			return false
		}
		if closed(t) {
			hasConst = true
			m[itoa(int64(i))] = t
		}
	}
	if !hasConst || len(callee.Blocks) < 2 || len(findLoops(callee)) > 0 {
		return nil
	}
	key := callee.String()
	for i := range c.Args {
		if t, ok := m[itoa(int64(i))]; ok {
			key += "|" + itoa(int64(i)) + "=" + t.String()
		}
	}
	if E.liveMemo == nil {
		E.liveMemo = map[string]map[*ssa.BasicBlock]bool{}
	}
	if lv, ok := E.liveMemo[key]; ok {
		return lv
	}
	paths := P.allPaths(callee)
	if len(paths) == 0 || len(paths) > 256 {
		E.liveMemo[key] = nil
		return nil
	}
	live := map[*ssa.BasicBlock]bool{}
	for _, p := range paths {
		q := *p
		q.conds = nil
		for _, cd := range p.conds {
			q.conds = append(q.conds, normFact(cd.Pred.subst(m), cd.Val))
		}
		if q.feasible() {
			for _, b := range p.blocks {
				live[b] = true
			}
		}
	}
	E.liveMemo[key] = live
	return live
}

package main

// C14 — COSE_Key conversion round-trips every key and keeps coordinates full length.

import (
	"fmt"
	"go/types"
	"sort"
	"strings"

	"golang.org/x/tools/go/ssa"
)

func init() {
	register(&propSpec{id: "C14", title: "writer/reader label agreement, one curve table, coordinate padding, relaxed length guard", run: runC14, mutants: mutC14, design: "DESIGN.md section 3, C14"})
}

// mapPuts: constant-key insertions m[K] = v in fn (all of them, with the
// facts holding at each).
type mapPut struct {
	key   int64
	val   *Term
	instr *ssa.MapUpdate
}

func (P *Prog) mapPuts(fn *ssa.Function) []mapPut {
	var out []mapPut
	for _, b := range fn.Blocks {
		for _, in := range b.Instrs {
			mu, ok := in.(*ssa.MapUpdate)
			if !ok {
				continue
			}
			k := P.terms.of(mu.Key)
			if k.Op == "iface" {
				k = k.Args[0]
			}
			n, ok := termConstInt(k)
			if !ok {
				continue
			}
			v := P.terms.of(mu.Value)
			if v.Op == "iface" {
				v = v.Args[0]
			}
			out = append(out, mapPut{n, v, mu})
		}
	}
	return out
}

func runC14(r *Report, tier string) {
	P := r.P
	r.rule("R14.1", "writer/reader label agreement: the constructors store x, y, d under labels -2, -3, -4 (OKP: x -2, d -4); NewKeyFromPrivate/NewKeyFromPublic pass X, Y, D (Ed25519: sk[32:], sk[:32]) in that order; the accessors EC2()/OKP() read the same labels back in the same order; PublicKey()/PrivateKey() feed X, Y, D from x, y, d (Ed25519: seed first, public half at offset 32): the permutation role -> label -> role is the identity; the label constants are the RFC 9053 values.")
	r.rule("R14.2", "one curve table: NewKeyEC2 (alg -> curve), the derivation (curve -> alg), algorithmFromEllipticCurve (Go curve -> alg), curveSize (curve -> Go curve), PublicKey and PrivateKey (alg -> Go curve) are restrictions of one bijection P-256 <-> ES256 <-> elliptic.P256, P-384 <-> ES384 <-> P384, P-521 <-> ES512 <-> P521; curveSize is (BitSize(that curve)+7)/8.")
	r.rule("R14.3", "padding on encode: Key.MarshalCBOR replaces x (and, by an isomorphic arm, y) by make(size-len(v), size) ++ v exactly under kty == EC2, size > 0 and 0 < len(v) < size, with size = curveSize(the key's own curve) and v the coordinate stored under that same label.")
	r.rule("R14.4", "relaxed length guard: wherever the key decoder / consistency check compares an EC2 coordinate's length with the curve size, it refuses only len > size (never != or <), so keys with trimmed leading zeros stay acceptable.")
	r.rule("R14.8", "the key decoder applies a decode mode that admits tags to the key's bytes: Key.MarshalCBOR encodes extra parameters unchecked, and what it emits must parse back.")
	r.rule("R14.7", "converting a COSE_Key back to a Go key refuses only what the consistency check or the algorithm derivation refuse, an EC2 private key without x or y (compressed point), and unsupported algorithms; no representation-dependent test (e.g. on padded coordinates) stands between a parsed key and its Go form.")
	r.rule("R14.6", "the key decoder's result depends on the input only: on every non-failure exit every field of the receiver has been assigned (a reset followed by assignments, or unconditional assignments); nothing of a previously parsed key survives.")
	r.rule("R14.5", "same algorithm both ways: Key.Signer and Key.Verifier hand AlgorithmOrDefault(k) and the result of PrivateKey()/PublicKey() to NewSigner/NewVerifier (R15.3).")
	r.assumes("big.Int SetBytes/Bytes/FillBytes arithmetic; equality of the reconstructed key is a runtime fact")

	keyT := P.mustNamed("Key")
	// label constants
	for n, v := range map[string]int64{"KeyLabelEC2Curve": -1, "KeyLabelEC2X": -2, "KeyLabelEC2Y": -3, "KeyLabelEC2D": -4, "KeyLabelOKPCurve": -1, "KeyLabelOKPX": -2, "KeyLabelOKPD": -4} {
		got, ok := P.constVal(n)
		r.ob("R14.1", "const:"+n, nil, nil, fmt.Sprintf("%s == %d (RFC 9053 7.1/7.2)", n, v)).check(ok && got == v, itoa(got), fmt.Sprintf("%s = %d", n, got))
	}
	// constructors: label -> parameter
	for _, c := range []struct {
		fn   string
		want map[int64]string
	}{{"NewKeyEC2", map[int64]string{-2: "$1", -3: "$2", -4: "$3"}}, {"NewKeyOKP", map[int64]string{-2: "$1", -4: "$2"}}} {
		fn := P.mustFn(c.fn)
		r.analysed(fn)
		got := map[int64]string{}
		for _, mp := range constPuts(P.putsDeep(fn, P.terms, allInstrs(fn), 0)) {
			if mp.key != -1 {
				got[mp.key] = mp.val.String()
			}
		}
		o := r.ob("R14.1", c.fn+":labels", fn, nil, "constructor stores each coordinate under its own label")
		o.check(fmt.Sprint(got) == fmt.Sprint(c.want), fmt.Sprint(got), fmt.Sprintf("label -> parameter is %v, expected %v", got, c.want))
	}
	// NewKeyFromPrivate / NewKeyFromPublic argument order
	ec2 := P.mustFn("NewKeyEC2")
	okp := P.mustFn("NewKeyOKP")
	for _, c := range []struct {
		fn   string
		want []string // suffixes of args 1.. of NewKeyEC2
		okp  []string
	}{{"NewKeyFromPrivate", []string{".X", ".Y", ".D"}, []string{"32:", ":32"}}, {"NewKeyFromPublic", []string{".X", ".Y", "nil"}, []string{"whole", "nil"}}} {
		fn := P.mustFn(c.fn)
		r.analysed(fn)
		for _, ci := range callsIn(fn, nil) {
			switch staticCallee(ci) {
			case ec2:
				args := ci.Common().Args
				why := ""
				for i, suf := range c.want {
					at := P.terms.of(args[i+1]).String()
					if suf == "nil" {
						if at != "nil" {
							why = fmt.Sprintf("argument %d is %s, expected nil", i+1, at)
						}
						continue
					}
					if !(strings.HasPrefix(at, "call<(*math/big.Int).Bytes>(") && strings.HasSuffix(at, suf+")")) {
						why = fmt.Sprintf("argument %d is %s, expected the bytes of the key's %s", i+1, truncate(at, 120), suf)
					}
				}
				r.ob("R14.1", c.fn+":ec2-argument-order", fn, ci, "Go key fields X, Y, D are passed as x, y, d").check(why == "", "X, Y, D", why)
			case okp:
				args := ci.Common().Args
				x, d := P.terms.of(args[1]), P.terms.of(args[2])
				why := ""
				if c.okp[0] == "32:" {
					if !(x.Op == "slice" && x.Args[1].String() == "32" && x.Args[2].Op == "_") {
						why = "x is " + x.String() + ", expected sk[32:]"
					}
					if !(d.Op == "slice" && d.Args[1].Op == "_" && d.Args[2].String() == "32") {
						why = "d is " + d.String() + ", expected sk[:32]"
					}
				} else {
					if d.Op != "nil" {
						why = "d is " + d.String() + ", expected nil"
					}
				}
				r.ob("R14.1", c.fn+":okp-argument-order", fn, ci, "Ed25519 halves are passed as x (public) and d (seed)").check(why == "", "x = "+x.String()+", d = "+d.String(), why)
			}
		}
	}
	// accessors
	for _, c := range []struct {
		name string
		want []int64
	}{{"EC2", []int64{-1, -2, -3, -4}}, {"OKP", []int64{-1, -2, -4}}} {
		fn := P.methodOf(keyT, c.name)
		if fn == nil {
			undecidedf("anchor not found: Key.%s", c.name)
		}
		r.analysed(fn)
		why := ""
		for i, lbl := range c.want {
			rt := P.terms.successResult(fn, i)
			want := fmt.Sprintf("($0, iface<int64>(%d))", lbl)
			// the lookup may sit in a small helper taking the label
			for k := 0; k < 3 && rt != nil && !strings.Contains(rt.String(), want); k++ {
				nt := P.terms.expand(rt, 1)
				if nt.eq(rt) {
					break
				}
				rt = nt
			}
			if rt == nil || !strings.Contains(rt.String(), want) {
				why = fmt.Sprintf("result %d is %v, expected the parameter under label %d", i, rt, lbl)
			}
		}
		r.ob("R14.1", "Key."+c.name+":reads", fn, nil, "accessor returns (crv, x, y, d) from labels -1, -2, -3, -4 in that order").check(why == "", fmt.Sprint(c.want), why)
	}
	// reconstructors
	c14Reconstruct(r, keyT)

	// R14.2
	c14CurveTable(r, keyT)

	// R14.3
	checkKeyPadding(r, "R14.3")

	// R14.4
	{
		n := 0
		// the consistency check, the decoder and the helpers they are split into
		scope := []*ssa.Function{P.keyValidate(), P.methodOf(keyT, "UnmarshalCBOR")}
		for _, f := range append([]*ssa.Function{}, scope...) {
			for _, ci := range callsIn(f, nil) {
				c := staticCallee(ci)
				if c == nil || !P.inPkg(c) {
					continue
				}
				// helpers that work on the key: as receiver or as a parameter
				for _, prm := range c.Params {
					if isNamed(deref(prm.Type()), cosePath, "Key") {
						scope = append(scope, c)
						break
					}
				}
			}
		}
		for _, fn := range uniqFuncs(scope) {
			for _, b := range fn.Blocks {
				iff, ok := b.Instrs[len(b.Instrs)-1].(*ssa.If)
				if !ok {
					continue
				}
				ct := P.terms.of(iff.Cond)
				var visit func(t *Term)
				visit = func(t *Term) {
					if t.Op == "binop" && (t.S == "||" || t.S == "&&") {
						for _, a := range t.Args {
							visit(a)
						}
						return
					}
					// a length of something derived from the EC2 accessor, compared with
					// something derived from the curve-size function
					hasLen := t.contains(func(u *Term) bool {
						return u.Op == "len" && u.Args[0].contains(func(w *Term) bool { return w.Op == "call" && strings.HasSuffix(w.S, ").EC2") })
					})
					hasSize := t.contains(func(u *Term) bool {
						if u.Op != "call" {
							return false
						}
						f := P.calleeOfTerm(u)
						return f != nil && f.Signature.Recv() == nil && len(f.Params) == 1 && isNamed(f.Params[0].Type(), cosePath, "Curve") && f.Signature.Results().Len() == 1 && f.Signature.Results().At(0).Type().String() == "int"
					})
					if !hasLen || !hasSize {
						return
					}
					n++
					o := r.ob("R14.4", fmt.Sprintf("%s:length-guard#%d", shortFn(fn), n), fn, iff, "EC2 coordinate length is only refused when it exceeds the curve size")
					nc := normCond(t)
					okG := nc.Op == "binop" && nc.S == "<" && strings.Contains(nc.Args[0].String(), "call<") && nc.Args[1].Op == "len"
					if !okG && nc.Op == "binop" && nc.S == "<" && strings.Contains(nc.Args[0].String(), "call<") && nc.Args[1].Op == "max" {
						// size < max(len(x), len(y), len(d)): the longest one exceeds the size
						okG = true
						for _, a := range nc.Args[1].Args {
							if a.Op != "len" {
								okG = false
							}
						}
					}
					o.check(okG, nc.String(), "coordinate length compared by "+truncate(nc.String(), 200)+": anything but 'size < len' refuses keys whose coordinate lost leading zeros")
				}
				visit(ct)
			}
		}
		r.floorSoft("R14.4", n, 3, "coordinate length comparisons")
	}

	// R14.5
	for _, pr := range []struct{ name, conv, ctor string }{{"Signer", "PrivateKey", "NewSigner"}, {"Verifier", "PublicKey", "NewVerifier"}} {
		fn := P.methodOf(keyT, pr.name)
		aod := P.methodOf(keyT, "AlgorithmOrDefault")
		ok := false
		for _, x := range P.factsOf(fn).exits {
			if x.kind == exitFailure {
				continue
			}
			c := delegCall(x.errTerm)
			ok = c != nil && c.S == pr.ctor && c.Args[0].String() == "res<0>(call<"+shortFn(aod)+">($0))" && strings.Contains(c.Args[1].String(), "res<0>(call<(*Key)."+pr.conv+">($0))")
		}
		r.ob("R14.5", "Key."+pr.name+":same-algorithm", fn, nil, "object is built for AlgorithmOrDefault(k) and the converted key").check(ok, pr.ctor+"(AlgorithmOrDefault(k), "+pr.conv+"(k))", "Key."+pr.name+" does not end in "+pr.ctor+"(AlgorithmOrDefault(k), "+pr.conv+"(k))")
	}

	// R14.7: converting back refuses nothing beyond the documented cases
	for _, name := range []string{"PublicKey", "PrivateKey"} {
		fn := P.methodOf(keyT, name)
		nf := 0
		for _, p := range P.allPaths(fn) {
			if !p.feasible() {
				continue
			}
			res := p.results()
			fs := factSet{}
			for _, c := range p.conds {
				fs.add(c)
			}
			if k, _ := P.classifyErr(res[1], fs); k != exitFailure {
				continue
			}
			nf++
			et := P.expandErr(res[1], 0)
			why := ""
			switch c := delegCall(res[1]); {
			case c != nil && (P.calleeOfTerm(c) == P.keyValidate() || P.calleeOfTerm(c) == P.keyDerive()):
				// the consistency check's / the derivation's own verdict
			case strings.Contains(et.String(), "*@ErrAlgorithmNotSupported"):
				for _, cd := range p.conds {
					if cd.Val && cd.Pred.Op == "binop" && cd.Pred.S == "==" && cd.Pred.Args[0].Op == "const" && strings.HasPrefix(cd.Pred.Args[1].String(), "res<0>(call<"+shortFn(P.keyDerive())+">") {
						why = "ErrAlgorithmNotSupported is returned on the arm of a supported algorithm (" + cd.Pred.String() + ")"
					}
				}
			case strings.Contains(et.String(), "*@ErrInvalidPrivKey") && name == "PrivateKey":
				okc := false
				for _, cd := range p.conds {
					if cd.Val && cd.Pred.Op == "binop" && cd.Pred.S == "==" && cd.Pred.Args[0].String() == "0" && cd.Pred.Args[1].Op == "len" && strings.Contains(cd.Pred.Args[1].String(), ").EC2>") {
						okc = true
					}
				}
				if !okc {
					why = "ErrInvalidPrivKey is returned although x and y are both present: a refusal the round trip does not allow for (" + truncate(et.String(), 120) + ")"
				}
			default:
				why = "an additional refusal: " + truncate(et.String(), 160)
			}
			r.ob("R14.7", fmt.Sprintf("Key.%s:refusal:%s", name, pathID(p)), fn, p.ret, "a key that passed the consistency check is refused only for a missing coordinate (compressed point) or an unsupported algorithm").check(why == "", truncate(et.String(), 80), why)
		}
		r.floor("R14.7", nf, 3, "failure paths of Key."+name)
	}

	// ... and that verdict is about the key material, not about how the key
	// may be used: the consistency check's call tree does not read key_ops
	// (the public half of a sign-only private key converts like any other)
	{
		val := P.keyValidate()
		var bad []string
		for _, f := range P.fieldsRead(val, 0) {
			if f == "Ops" || strings.HasPrefix(f, "Ops.") {
				bad = append(bad, f)
			}
		}
		r.ob("R14.7", shortFn(val)+":control-footprint", val, nil, "the consistency check (and with it PublicKey / PrivateKey) does not depend on key_ops").check(len(bad) == 0, fmt.Sprintf("receiver fields read: %v", P.fieldsRead(val, 0)), "the consistency check reads "+strings.Join(bad, ", ")+": converting a key back then depends on its key_ops")
	}

	// R14.8: the key decoder reads everything the key encoder writes: extra
	// parameters are encoded as they are (any value, tags included), so the
	// decode mode applied to the key must admit tags
	{
		dec := P.methodOf(keyT, "UnmarshalCBOR")
		tagsOK := map[string]bool{}
		for _, mc := range P.modeConfigs() {
			if !mc.enc && mc.global != "" && mc.opts["TagsMd"] == 0 && len(mc.unknown) == 0 {
				tagsOK[mc.global] = true
			}
		}
		nm := 0
		for _, ci := range callsIn(dec, nil) {
			c := ci.Common()
			if c.IsInvoke() && isCBORMode(c.Value.Type()) && c.Method.Name() == "Unmarshal" && len(c.Args) == 2 && P.terms.of(c.Args[0]).String() == "$1" {
				nm++
				g, isM := P.isModeLoad(P.terms.of(c.Value), false)
				r.ob("R14.8", "Key.UnmarshalCBOR:mode", dec, ci, "the COSE_Key is decoded with a mode that admits tagged parameter values (the encoder emits them)").check(isM && tagsOK[g], "mode "+g, "the key is decoded with "+P.terms.of(c.Value).String()+": a key whose extra parameter encodes to a tag is emitted by Key.MarshalCBOR and refused here")
			}
		}
		r.floor("R14.8", nm, 1, "mode decodes of the key's bytes")
	}

	// R14.6: the parsed key is a function of the bytes: at every non-failure
	// exit of the decoder no field of the receiver still holds (or depends
	// on) what the receiver held before the call
	{
		dec := P.methodOf(keyT, "UnmarshalCBOR")
		if dec == nil {
			undecidedf("anchor not found: Key.UnmarshalCBOR")
		}
		st := keyT.Underlying().(*types.Struct)
		nx := 0
		for _, x := range P.factsOf(dec).exits {
			if x.kind == exitFailure {
				continue
			}
			nx++
			var stale []string
			for i := 0; i < st.NumFields(); i++ {
				f := st.Field(i).Name()
				v := P.terms.loadPath(dec.Params[0], []string{f}, x.ret)
				old := false
				v.walk(func(u *Term) {
					if u.Op == "load" {
						if rk, _ := termLoc(u.Args[0]); rk == "param:0" {
							old = true
						}
					}
				})
				if old {
					stale = append(stale, f)
				}
			}
			r.ob("R14.6", "Key.UnmarshalCBOR:exit:"+exitID(P, dec, x)+":history-free", dec, x.ret, "every field of the parsed key is assigned from the input on this exit").check(len(stale) == 0, fmt.Sprintf("%d fields assigned", st.NumFields()), "field(s) "+strings.Join(stale, ", ")+" can keep the value the Key held before the call")
		}
		r.floor("R14.6", nx, 1, "non-failure exits of the key decoder")
	}
	// serialising is a pure function of the key: the bytes returned are the
	// caller's own (a second serialisation cannot change the first)
	r.rule("R19.4", "(shared with C19) Key.MarshalCBOR returns fresh memory: the encoder's result, never a buffer that outlives the call.")
	checkEncoderOutputFresh(r, "R19.4", "Key")
}

// c14Reconstruct: PublicKey / PrivateKey feed X, Y, D from x, y, d.
// checkKeyPadding (R14.3; shared with C01: a key that went through its own
// encoder must still be the key): coordinates and d are left-padded to the
// curve size of the key's own curve, never right-padded or cut.
func checkKeyPadding(r *Report, rule string) {
	P := r.P
	keyT := P.mustNamed("Key")
	enc := P.methodOf(keyT, "MarshalCBOR")
	if enc == nil {
		undecidedf("anchor not found: Key.MarshalCBOR")
	}
	r.analysed(enc)
	EC2 := "call<(*Key).EC2>($0)"
	SIZE := "call<%>(res<0>(" + EC2 + "))"
	seen := map[int64]bool{}
	for _, mp := range P.putInstances(enc, factSet{}, 0) {
		if mp.key != -2 && mp.key != -3 && mp.key != -4 {
			continue
		}
		// padded values only: computed values, not the stored coordinate itself
		var raw ssa.Value = mp.val
		if mi, ok := raw.(*ssa.MakeInterface); ok {
			raw = mi.X
		}
		switch raw.(type) {
		case *ssa.Call, *ssa.Extract, *ssa.MakeSlice, *ssa.Slice:
		default:
			continue
		}
		idx := map[int64]string{-2: "1", -3: "2", -4: "3"}[mp.key]
		V := "res<" + idx + ">(" + EC2 + ")"
		o := r.ob(rule, fmt.Sprintf("Key.MarshalCBOR:pad:%d", mp.key), mp.fn, mp.instr, "padded coordinate is zeros(size-len(v)) ++ v for the coordinate of this label, under 0 < len(v) < size")
		pi, why := P.leftPadE(mp.eng, mp.fn, raw, 0)
		if pi == nil {
			o.fail("value is not the left-padding of this label's coordinate: " + why)
			seen[mp.key] = true
			continue
		}
		_, okS := unify(mustPat(SIZE), pi.size, bindings{})
		_, okV := unify(mustPat(V), pi.coord, bindings{})
		fs := P.factsBefore(mp.instr).clone()
		for _, f := range mp.ctx {
			fs.add(f)
		}
		// facts of a constant-bound loop body about "the element" hold
		// for this instance with the index fixed
		if mp.eng != P.terms {
			for _, f := range instanceFacts(P, mp.eng, mp.instr) {
				fs.add(f)
			}
		}
		gated := pi.gated == nil || fs.has(Fact{pi.gated, true})
		if gated {
			for _, f := range pi.guards {
				fs.add(f)
			}
		}
		miss, _ := fs.firstMissing([]factPat{fp("binop<==>(*$0.Type, 2)")}, nil)
		if miss == "" && !P.proveGE0(tSub(tLen(pi.coord), tInt(1)), fs) {
			miss = "0 < len(v)"
		}
		if miss == "" && !P.proveGE0(tSub(tSub(pi.size, tLen(pi.coord)), tInt(1)), fs) {
			miss = "len(v) < size"
		}
		if !gated {
			miss = "the helper's ok result is not tested before the value is stored"
		}
		o.check(okS && okV && miss == "", "value and guards match", fmt.Sprintf("size is curveSize(own curve): %v (%s); coordinate is this label's: %v (%s); missing guard: %s", okS, truncate(pi.size.String(), 80), okV, truncate(pi.coord.String(), 80), miss))
		seen[mp.key] = true
	}
	r.ob(rule, "Key.MarshalCBOR:both-coordinates", enc, nil, "x and y both have a padding arm").check(seen[-2] && seen[-3], "x and y", fmt.Sprintf("padding arm for x: %v, for y: %v", seen[-2], seen[-3]))
}

func c14Reconstruct(r *Report, keyT interface{ String() string }) {
	P := r.P
	kt := P.mustNamed("Key")
	for _, name := range []string{"PublicKey", "PrivateKey"} {
		fn := P.methodOf(kt, name)
		r.analysed(fn)
		// every SetBytes call: which coordinate goes where
		roles := map[string]string{} // field -> EC2 result index
		allocField := map[string]string{}
		// map fresh big.Int allocs / call results to the struct field they end up in
		for _, b := range fn.Blocks {
			for _, in := range b.Instrs {
				st, ok := in.(*ssa.Store)
				if !ok {
					continue
				}
				_, path := P.terms.addrPath(st.Addr)
				if len(path) == 0 {
					continue
				}
				f := path[len(path)-1]
				if f == "X" || f == "Y" || f == "D" {
					allocField[P.terms.of(st.Val).String()] = f
				}
			}
		}
		for _, ci := range callsIn(fn, nil) {
			c := staticCallee(ci)
			if c == nil || shortFn(c) != "(*math/big.Int).SetBytes" {
				continue
			}
			a := ci.Common().Args
			recv := P.terms.of(a[0]).String()
			src := P.terms.of(a[1]).String()
			call := P.terms.of(ci.Value()).String()
			field := allocField[recv]
			if field == "" {
				field = allocField[call]
			}
			if field == "" {
				// pub.X.SetBytes(x): receiver is the load of the field
				for _, f := range []string{"X", "Y", "D"} {
					if strings.HasSuffix(recv, "."+f) {
						field = f
					}
				}
			}
			for i := 1; i <= 3; i++ {
				if src == fmt.Sprintf("res<%d>(call<(*Key).EC2>($0))", i) {
					roles[field] = fmt.Sprint(i)
				}
			}
		}
		want := map[string]string{"X": "1", "Y": "2"}
		if name == "PrivateKey" {
			want["D"] = "3"
		}
		r.ob("R14.1", "Key."+name+":ec2-fields", fn, nil, "X, Y (and D) are set from the accessor's x, y (and d)").check(fmt.Sprint(roles) == fmt.Sprint(want), fmt.Sprint(roles), fmt.Sprintf("field <- EC2() result index is %v, expected %v", roles, want))
		// OKP
		if name == "PrivateKey" {
			var copies []string
			seed := ""
			for _, ci := range callsIn(fn, nil) {
				c := ci.Common()
				if b, ok := c.Value.(*ssa.Builtin); ok && b.Name() == "copy" {
					dst, src := P.terms.of(c.Args[0]), P.terms.of(c.Args[1])
					off := "0"
					if dst.Op == "slice" && dst.Args[0].Op == "slice" {
						off = dst.Args[1].String()
					} else if dst.Op == "slice" && dst.Args[1].Op != "_" && !(dst.Args[0].Op == "alloc") {
						off = dst.Args[1].String()
					}
					copies = append(copies, off+"<-"+src.String())
				}
				if sc := c.StaticCallee(); sc != nil && sc.String() == "crypto/ed25519.NewKeyFromSeed" {
					seed = P.terms.of(c.Args[0]).String()
				}
			}
			sort.Strings(copies)
			wantC := []string{"0<-res<2>(call<(*Key).OKP>($0))", "32<-res<1>(call<(*Key).OKP>($0))"}
			r.ob("R14.1", "Key.PrivateKey:okp-layout", fn, nil, "Ed25519 private key is seed (d) at offset 0 and public half (x) at offset 32, or derived from the seed").check(fmt.Sprint(copies) == fmt.Sprint(wantC) && seed == "res<2>(call<(*Key).OKP>($0))", fmt.Sprint(copies), fmt.Sprintf("copies %v, seed %q", copies, seed))
		} else {
			ok := false
			for _, x := range P.factsOf(fn).exits {
				if x.kind != exitFailure && strings.Contains(x.results[0].String(), "ed25519.PublicKey>(res<1>(call<(*Key).OKP>($0)))") {
					ok = true
				}
			}
			_ = ok
			okAny := false
			for _, p := range P.allPaths(fn) {
				res := p.results()
				if strings.Contains(res[0].String(), "res<1>(call<(*Key).OKP>($0))") {
					okAny = true
				}
				if strings.Contains(res[0].String(), "res<2>(call<(*Key).OKP>($0))") {
					okAny = false
					break
				}
			}
			r.ob("R14.1", "Key.PublicKey:okp", fn, nil, "Ed25519 public key is x").check(okAny, "x", "the Ed25519 public key is not built from x")
		}
	}
}

// c14CurveTable: R14.2.
func c14CurveTable(r *Report, keyT interface{ String() string }) {
	P := r.P
	kt := P.mustNamed("Key")
	type row struct {
		crv, alg int64
		goCurve  string
	}
	rows := []row{
		{P.mustConst("CurveP256"), P.mustConst("AlgorithmES256"), "crypto/elliptic.P256"},
		{P.mustConst("CurveP384"), P.mustConst("AlgorithmES384"), "crypto/elliptic.P384"},
		{P.mustConst("CurveP521"), P.mustConst("AlgorithmES512"), "crypto/elliptic.P521"},
	}
	// NewKeyEC2: alg -> curve put under label -1
	{
		fn := P.mustFn("NewKeyEC2")
		got := map[int64]string{}
		for _, p := range P.allPaths(fn) {
			if !p.feasible() {
				continue
			}
			alg, known := int64(0), false
			for _, c := range p.conds {
				if c.Val && c.Pred.Op == "binop" && c.Pred.S == "==" {
					for i := 0; i < 2; i++ {
						if n, ok := termConstInt(c.Pred.Args[i]); ok && c.Pred.Args[1-i].String() == "$0" {
							alg, known = n, true
						}
					}
				}
			}
			if !known {
				continue
			}
			for _, mp := range constPuts(P.putsDeep(fn, p.eng, p.instrs, 0)) {
				if mp.key == -1 {
					got[alg] = mp.val.String()
				}
			}
		}
		why := ""
		for _, rw := range rows {
			if got[rw.alg] != itoa(rw.crv) {
				why += fmt.Sprintf("alg %d -> curve %s (expected %d); ", rw.alg, got[rw.alg], rw.crv)
			}
		}
		if len(got) != 3 {
			why += fmt.Sprintf("%d algorithms accepted; ", len(got))
		}
		r.ob("R14.2", "NewKeyEC2:alg->curve", fn, nil, "constructor maps ES256/384/512 to P-256/384/521").check(why == "", fmt.Sprint(got), why)
	}
	// algorithmFromEllipticCurve: go curve -> alg
	{
		var fn *ssa.Function
		for _, f := range P.Funcs {
			if f.Signature.Recv() == nil && len(f.Params) == 1 && f.Params[0].Type().String() == "crypto/elliptic.Curve" && f.Signature.Results().Len() >= 1 && f.Signature.Results().Len() <= 2 && isNamed(f.Signature.Results().At(0).Type(), cosePath, "Algorithm") {
				if f.Signature.Results().Len() == 2 && errIndex(f) != 1 {
					continue
				}
				fn = f
			}
		}
		if fn == nil {
			undecidedf("anchor not found: Go curve -> algorithm table")
		}
		tab, why := P.constTable(fn, 0, 0)
		o := r.ob("R14.2", shortFn(fn)+":gocurve->alg", fn, nil, "Go curve -> algorithm agrees with the bijection")
		if tab == nil {
			o.fail(why)
		} else {
			bad := ""
			for _, rw := range rows {
				if tab["call<"+rw.goCurve+">()"] != itoa(rw.alg) {
					bad += fmt.Sprintf("%s -> %s (expected %d); ", rw.goCurve, tab["call<"+rw.goCurve+">()"], rw.alg)
				}
			}
			o.check(bad == "", fmt.Sprint(tab), bad)
		}
	}
	// curveSize: curve -> (BitSize(go curve)+7)/8
	{
		var fn *ssa.Function
		for _, f := range P.Funcs {
			if f.Signature.Recv() == nil && len(f.Params) == 1 && isNamed(f.Params[0].Type(), cosePath, "Curve") && f.Signature.Results().Len() == 1 && f.Signature.Results().At(0).Type().String() == "int" {
				fn = f
			}
		}
		if fn == nil {
			undecidedf("anchor not found: curve size function")
		}
		tab, why := P.constTable(fn, 0, 0)
		o := r.ob("R14.2", shortFn(fn)+":curve->size", fn, nil, "curve size is (BitSize(the same curve's Go curve)+7)/8")
		if tab == nil {
			o.fail(why)
		} else {
			bad := ""
			for _, rw := range rows {
				want := "binop</>(binop<+>(*call<invoke:crypto/elliptic.Curve.Params>(call<" + rw.goCurve + ">()).BitSize, 7), 8)"
				if tab[itoa(rw.crv)] != want {
					bad += fmt.Sprintf("curve %d -> %s; ", rw.crv, truncate(tab[itoa(rw.crv)], 120))
				}
			}
			o.check(bad == "", "three curves", bad)
		}
	}
	// PublicKey / PrivateKey: derived alg -> Go curve
	for _, name := range []string{"PublicKey", "PrivateKey"} {
		fn := P.methodOf(kt, name)
		got := map[int64]string{}
		for _, p := range P.allPaths(fn) {
			if !p.feasible() {
				continue
			}
			res := p.results()
			if res[1].Op != "nil" || res[0].Op != "iface" || !strings.Contains(res[0].S, "ecdsa") {
				continue
			}
			// the algorithm test may sit in a helper whose verdict the path
			// follows: the path is split into the helper's cases
			for _, cs := range P.expandConds(p.conds, 0) {
				q := *p
				q.conds = cs
				if !q.feasible() {
					continue
				}
				p := &q
				alg, known := int64(0), false
				for _, c := range p.conds {
					if c.Val && c.Pred.Op == "binop" && c.Pred.S == "==" {
						for i := 0; i < 2; i++ {
							if n, ok := termConstInt(c.Pred.Args[i]); ok && strings.HasPrefix(c.Pred.Args[1-i].String(), "res<0>(call<"+shortFn(P.keyDerive())+">") {
								alg, known = n, true
							}
						}
					}
				}
				if !known {
					continue
				}
				// Curve field of the constructed key
				for _, b := range fn.Blocks {
					for _, in := range b.Instrs {
						if a, ok := in.(*ssa.Alloc); ok && P.terms.of(a).eq(res[0].Args[0]) {
							for _, path := range [][]string{{"Curve"}, {"PublicKey", "Curve"}} {
								if c := P.evalCalls(p, p.eng.loadPath(a, path, p.ret), nil, 0); c.Op == "call" || c.Op == "iface" {
									got[alg] = strings.TrimSuffix(strings.TrimPrefix(strings.TrimPrefix(c.String(), "iface<crypto/elliptic.Curve>("), "call<"), ">()")
									got[alg] = strings.TrimSuffix(got[alg], ">())")
								}
							}
						}
					}
				}
			}
		}
		bad := ""
		for _, rw := range rows {
			if got[rw.alg] != rw.goCurve {
				bad += fmt.Sprintf("alg %d -> %s (expected %s); ", rw.alg, got[rw.alg], rw.goCurve)
			}
		}
		r.ob("R14.2", "Key."+name+":alg->gocurve", fn, nil, "the reconstructed key lives on the curve of the derived algorithm").check(bad == "", fmt.Sprint(got), bad)
	}
	// curve -> alg: shared with R15.4 (derive table): compare the three EC2 rows
	{
		derive := P.keyDerive()
		got := map[string]string{}
		for _, p := range P.allPaths(derive) {
			if !p.feasible() {
				continue
			}
			res := p.results()
			if res[1].Op != "nil" {
				continue
			}
			for _, c := range p.conds {
				if c.Val && c.Pred.Op == "binop" && c.Pred.S == "==" {
					for i := 0; i < 2; i++ {
						if n, ok := termConstInt(c.Pred.Args[i]); ok && strings.HasPrefix(c.Pred.Args[1-i].String(), "res<0>(call<(*Key).EC2>") {
							got[itoa(n)] = res[0].String()
						}
					}
				}
			}
		}
		bad := ""
		for _, rw := range rows {
			if got[itoa(rw.crv)] != itoa(rw.alg) {
				bad += fmt.Sprintf("curve %d -> %s (expected %d); ", rw.crv, got[itoa(rw.crv)], rw.alg)
			}
		}
		r.ob("R14.2", shortFn(derive)+":curve->alg", derive, nil, "derivation maps P-256/384/521 to ES256/384/512").check(bad == "", fmt.Sprint(got), bad)
	}
}

func mutC14() []mutant {
	return []mutant{
		{Name: "key decoder no longer resets the receiver", File: "key.go", Rule: "R14.6",
			Old: "\t*k = Key{}\n", New: ""},
		{Name: "EC2() returns y before x", File: "key.go", Quick: true, Rule: "R14.1",
			Old: "\tx, _ = k.ParamBytes(KeyLabelEC2X)\n\ty, _ = k.ParamBytes(KeyLabelEC2Y)", New: "\tx, _ = k.ParamBytes(KeyLabelEC2Y)\n\ty, _ = k.ParamBytes(KeyLabelEC2X)"},
		{Name: "PrivateKey sets Y from x", File: "key.go", Rule: "R14.1",
			Old: "\t\tby := new(big.Int).SetBytes(y)", New: "\t\tby := new(big.Int).SetBytes(x)"},
		{Name: "curveSize(P-521) uses P-384", File: "key.go", Rule: "R14.2",
			Old: "\tcase CurveP521:\n\t\tbitSize = elliptic.P521().Params().BitSize", New: "\tcase CurveP521:\n\t\tbitSize = elliptic.P384().Params().BitSize"},
		{Name: "derive maps P-384 to ES512", File: "key.go", Rule: "R14.2",
			Old: "\t\tcase CurveP384:\n\t\t\treturn AlgorithmES384, nil", New: "\t\tcase CurveP384:\n\t\t\treturn AlgorithmES512, nil"},
		{Name: "padding applied to x only", File: "key.go", Rule: "R14.3",
			Old: "\t\t\tif 0 < len(y) && len(y) < size {\n\t\t\t\ttmp[KeyLabelEC2Y] = append(make([]byte, size-len(y), size), y...)\n\t\t\t}\n", New: "\t\t\t_ = y\n"},
		{Name: "padding one byte short", File: "key.go", Quick: true, Rule: "R14.3",
			Old: "\t\t\t\ttmp[KeyLabelEC2X] = append(make([]byte, size-len(x), size), x...)", New: "\t\t\t\ttmp[KeyLabelEC2X] = append(make([]byte, size-len(x)-1, size), x...)"},
		{Name: "y padding guarded by the length of x", File: "key.go", Rule: "R14.3",
			Old: "\t\t\tif 0 < len(y) && len(y) < size {", New: "\t\t\tif 0 < len(y) && len(x) < size {"},
		{Name: "coordinate guard demands the exact size", File: "key.go", Rule: "R14.4",
			Old: "\t\t\tif len(x) > size || len(y) > size || len(d) > size {", New: "\t\t\tif len(x) != size || len(y) > size || len(d) > size {"},
		{Name: "Ed25519 private key split at 31", File: "key.go", Rule: "R14.1",
			Old: "\t\tcopy(buf[32:], x)", New: "\t\tcopy(buf[31:], x)"},
		{Name: "NewKeyFromPrivate swaps the Ed25519 halves", File: "key.go", Rule: "R14.1",
			Old: "\t\treturn NewKeyOKP(AlgorithmEdDSA, []byte(sk[32:]), []byte(sk[:32]))", New: "\t\treturn NewKeyOKP(AlgorithmEdDSA, []byte(sk[:32]), []byte(sk[32:]))"},
		{Name: "PublicKey builds P-384 keys on P-521", File: "key.go", Rule: "R14.2", Nth: 1,
			Old: "\t\tcase AlgorithmES384:\n\t\t\tcurve = elliptic.P384()", New: "\t\tcase AlgorithmES384:\n\t\t\tcurve = elliptic.P521()"},
		{Name: "NewKeyEC2 stores d under the y label", File: "key.go", Rule: "R14.1",
			Old: "\t\tkey.Params[KeyLabelEC2D] = d", New: "\t\tkey.Params[KeyLabelEC2Y] = d"},
	}
}

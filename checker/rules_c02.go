package main

// C02 — signer/verifier input is exactly the RFC 9052 Sig_structure.

import (
	"fmt"
	"go/types"
	"golang.org/x/tools/go/ssa"
	"strings"
)

func init() {
	register(&propSpec{id: "C02", title: "key input is the RFC 9052 Sig_structure (structure, footprint, head normalisation)", run: runC02, mutants: mutC02, design: "DESIGN.md section 3, C02"})
}

func runC02(r *Report, tier string) {
	P := r.P
	// round 6
	r.rule("R18.2", "(shared with C18) Sign leaves the retained raw header bytes it signed in place: the Sig_structure rebuilt by Verify reads the same body_protected / sign_protected.")
	checkSignWrites(r, "R18.2")
	r.rule("R19.2", "(shared with C19) decode destinations are fresh: no pooled or shared wire struct whose buffers a later decode overwrites under a message decoded earlier.")
	checkDecodeDestinations(r, "R19.2")
	r.rule("R02.1", "structure conformance: at the Sign1 key sites the content term equals Enc(['Signature1', DetBstr(ProtBytes(recv.Headers)), NilToEmpty(external), recv.Payload]); at the Signature key sites Enc(['Signature', DetBstr(body), DetBstr(ProtBytes(recv.Headers)), NilToEmpty(external), payload]) with body/payload/external the method's parameters; Enc is the package's deterministic encoder mode; ProtBytes(H) is {H.RawProtected, Enc(H.Protected)}; COSE_Sign hands ProtBytes(m.Headers), m.Payload and its own external parameter to every signer; the untagged forms delegate to the tagged methods.")
	r.rule("R02.2", "footprint: the content term reads only Headers.RawProtected, Headers.Protected, Payload and the parameters; no leaf under Unprotected, RawUnprotected, Signature(s), and no tag constant.")
	r.rule("R02.4", "the retained raw header bytes (Headers.RawProtected / RawUnprotected) of a value reached through a pointer are written only in the decoder family; elsewhere only a function's own by-value copy is touched, so a verification that follows a decode sees the protected bytes as received.")
	r.rule("R02.3", "head normalisation is total on bstr: the normaliser fails only for empty input, a major type other than 2, or a mode error; every other path returns its argument itself or Enc(Dec(argument) as []byte) with the package modes; the argument is returned unchanged only under conditions that imply a shortest-form head (additional information < 24; 24 with value >= 24; 25/26/27 with a non-zero byte among the first 1/2/4 value bytes).")
	r.rule("R09.2", "Headers.MarshalProtected returns RawProtected itself exactly when len(RawProtected) > 0 and otherwise the package encoder's output for the map (the raw bytes win whenever they exist).")
	r.assumes("A4: EncMode.Marshal with Sort=bytewise-lexical and IndefLength forbidden is deterministic CBOR (configuration checked under R08.1)")

	sites := P.keySites()
	r.sites += len(sites)
	n := 0
	for _, s := range sites {
		kind := siteKind(s)
		var spec *Term
		switch kind {
		case "Sign1Message":
			spec = sig1Spec()
		case "Signature":
			spec = sigSpec()
		default:
			continue // countersignatures: C10
		}
		n++
		ct := P.contentTerm(s)
		r.sample(map[string]any{"site": shortFn(s.fn), "content_term": truncate(ct.String(), 900)})
		o := r.ob("R02.1", shortFn(s.fn)+":structure", s.fn, s.call, "content handed to the key is the RFC 9052 Sig_structure of this kind")
		b, ok := unify(spec, ct, bindings{})
		if !ok {
			o.fail(firstDiff(spec, ct, "content"))
			b = bindings{}
		}
		why := ""
		if !ok {
			why = o.Why
		}
		if ok {
			if g, isM := P.isModeLoad(b["ENC"], true); !isM {
				why = "the encoder is " + b["ENC"].String() + ", not a package-level EncMode variable"
			} else if why2 := encoderDeterministic(P, g); why2 != "" {
				why = why2
			}
			if _, isM := P.isModeLoad(b["DECTF"], false); !isM && why == "" {
				why = "the re-encoding decodes with " + b["DECTF"].String()
			}
		}
		for _, v := range []string{"EXT", "BODY", "PAYLOAD"} {
			if t, ok := b[v]; ok && t.Op != "param" {
				why = v + " is " + t.String() + ", not a parameter of the method"
			}
		}
		if b["BODY"] != nil && b["PAYLOAD"] != nil && (b["BODY"].eq(b["PAYLOAD"]) || b["BODY"].eq(b["EXT"]) || b["PAYLOAD"].eq(b["EXT"])) {
			why = "two structure elements are fed from the same parameter"
		}
		o.check(why == "", "matches the spec term; encoder "+fmt.Sprint(b["ENC"]), why)
		// the protected elements are the head normaliser's own results on every
		// alternative (the spec term above cannot tell a bypass of the
		// normaliser from the normaliser returning its argument unchanged)
		{
			norm := P.headNormalizer()
			P.expandKeep = func(f *ssa.Function) bool { return f == norm }
			ct2 := canon(P.terms.expand(P.terms.of(s.content), 8))
			P.expandKeep = nil
			pos := []int{1}
			if kind == "Signature" {
				pos = []int{1, 2}
			}
			whyN := ""
			arrs := encodedArrays(ct2)
			if len(arrs) == 0 {
				whyN = "no encoded array found in the content term"
			}
			for _, a := range arrs {
				for _, i := range pos {
					if i >= len(a.Args) {
						whyN = "the encoded array is shorter than the structure"
						continue
					}
					el := a.Args[i]
					for el.Op == "iface" && len(el.Args) == 1 {
						el = el.Args[0]
					}
					for _, alt := range flattenAlts(el) {
						v := alt
						for v.Op == "iface" && len(v.Args) == 1 {
							v = v.Args[0]
						}
						if !(v.Op == "res" && v.S == "0" && len(v.Args) == 1 && v.Args[0].Op == "call" && v.Args[0].S == shortFn(norm)) {
							whyN = fmt.Sprintf("element %d of the structure can be %s, which has not passed through %s", i, truncate(v.String(), 140), shortFn(norm))
						}
					}
				}
			}
			r.ob("R02.1", shortFn(s.fn)+":protected-normalised", s.fn, s.call, "every alternative of the protected elements is the head normaliser's result").check(whyN == "", fmt.Sprintf("%d array(s), positions %v", len(arrs), pos), whyN)
		}
		// R02.2
		loads, _ := footprint(ct)
		o2 := r.ob("R02.2", shortFn(s.fn)+":footprint", s.fn, s.call, "no unprotected header, signature or tag contributes to the signed bytes")
		bad := hasForbiddenLeaf(loads, "Unprotected", "RawUnprotected", "Signature", "Signatures")
		for _, l := range loads {
			if strings.HasPrefix(l, "@") {
				if _, ok := P.isModeLoad(&Term{Op: "load", Args: []*Term{T("global", l[1:])}}, true); !ok {
					if _, ok2 := P.isModeLoad(&Term{Op: "load", Args: []*Term{T("global", l[1:])}}, false); !ok2 {
						bad = l + " (package variable)"
					}
				}
			}
		}
		o2.check(bad == "", fmt.Sprintf("reads %v", loads), "the signed bytes depend on "+bad)
		// control footprint: the builder's call tree reads no unprotected /
		// signature field of the receiver, so its outcome cannot depend on them
		if raw := P.terms.of(s.content); raw.Op == "res" && raw.Args[0].Op == "call" {
			if bf := P.calleeOfTerm(raw.Args[0]); bf != nil && bf.Signature.Recv() != nil {
				var badf []string
				reads := P.fieldsRead(bf, 0)
				for _, f := range reads {
					if strings.HasSuffix(f, "Unprotected") || f == "Signature" || f == "Signatures" {
						badf = append(badf, f)
					}
				}
				r.ob("R02.2", shortFn(s.fn)+":control-footprint", bf, nil, "the ToBeSigned builder's call tree reads no unprotected header or signature field of its receiver").check(len(badf) == 0, fmt.Sprintf("receiver fields read by %s: %v", shortFn(bf), reads), "the outcome of "+shortFn(bf)+" can depend on "+strings.Join(badf, ", "))
			}
		}
		// the positive half: protected bytes and payload are read
		need := []string{"$0.Headers.RawProtected", "$0.Headers.Protected"}
		if kind == "Sign1Message" {
			need = append(need, "$0.Payload")
		}
		missing := ""
		for _, nd := range need {
			found := false
			for _, l := range loads {
				if l == nd {
					found = true
				}
			}
			if !found {
				missing = nd
			}
		}
		r.ob("R02.2", shortFn(s.fn)+":covers", s.fn, s.call, "protected bytes and payload are inside the signed bytes").check(missing == "", "all present", "the signed bytes do not depend on "+missing)
	}
	r.floor("R02.1", n, 4, "Sign1/Signature key sites")

	// COSE_Sign: arguments handed to each signer
	sm := P.mustNamed("SignMessage")
	sigT := P.mustNamed("Signature")
	for _, name := range []string{"Sign", "Verify"} {
		fn := P.methodOf(sm, name)
		callee := P.methodOf(sigT, name)
		if fn == nil || callee == nil {
			undecidedf("anchor not found: SignMessage.%s / Signature.%s", name, name)
		}
		found := false
		for _, ci := range callsIn(fn, nil) {
			if staticCallee(ci) != callee {
				continue
			}
			found = true
			args := ci.Common().Args
			// parameter roles of the callee by type/position: (recv, [rand], key, protected, payload, external)
			var body, payload, ext *Term
			bs := []*Term{}
			for i, a := range args {
				if i == 0 {
					continue
				}
				t := callee.Params[i].Type().String()
				if strings.HasSuffix(t, "RawMessage") || t == "[]byte" {
					bs = append(bs, canon(P.terms.expand(P.terms.of(a), 8)))
				}
			}
			o := r.ob("R02.1", shortFn(fn)+":per-signer-arguments", fn, ci, "every signer receives ProtBytes(m.Headers), m.Payload and the caller's external data")
			if len(bs) != 3 {
				o.fail(fmt.Sprintf("expected three byte-string arguments (body protected, payload, external), found %d", len(bs)))
				continue
			}
			body, payload, ext = bs[0], bs[1], bs[2]
			_, okB := unify(pProt(pField(T("param", "0"), "Headers")), body, bindings{})
			okP := payload.String() == "*$0.Payload"
			okE := ext.Op == "param"
			o.check(okB && okP && okE, "body = ProtBytes($0.Headers), payload = *$0.Payload, external = "+ext.String(), fmt.Sprintf("body protected is ProtBytes(m.Headers): %v (%s); payload is m.Payload: %v (%s); external is a parameter: %v (%s)", okB, truncate(body.String(), 200), okP, payload, okE, ext))
		}
		if !found {
			r.ob("R02.1", shortFn(fn)+":per-signer-arguments", fn, nil, "COSE_Sign signs through the Signature method").fail("no call of " + shortFn(callee))
		}
	}
	// untagged forms delegate
	if ut := P.namedType("UntaggedSign1Message"); ut != nil {
		for _, name := range []string{"Sign", "Verify"} {
			fn := P.methodOf(ut, name)
			tagged := P.methodOf(P.mustNamed("Sign1Message"), name)
			if fn == nil || tagged == nil {
				continue
			}
			ok := false
			for _, x := range P.factsOf(fn).exits {
				if c := delegCall(x.errTerm); x.delegated && c != nil && c.S == shortFn(tagged) && c.Args[0].String() == "$0" {
					ok = true
					for i := 1; i < len(c.Args); i++ {
						if c.Args[i].String() != fmt.Sprintf("$%d", i) {
							ok = false
						}
					}
				} else {
					ok = false
				}
			}
			r.ob("R02.1", shortFn(fn)+":delegates", fn, nil, "the untagged form uses the tagged method unchanged (the tag contributes no byte)").check(ok, "delegated to "+shortFn(tagged)+" with identical arguments", "the untagged method does not simply delegate to "+shortFn(tagged))
		}
	}
	checkMarshalBuckets(r, "R09.2")
	checkHeadNormalizer(r, "R02.3")
	checkRawBucketWriters(r, "R02.4")
	// nil and empty external data are one case for the algorithm gates as
	// well (the gates decide whether alg is injected into the signed bytes)
	r.rule("R04.2", "(shared with C04) each success path of an algorithm gate is alg equal, alg absent with len(external) > 0, or (sign side) alg injected: external data counts by length, never by nil-ness.")
	checkGatesOnly(r)
	// the protected bytes a later Verify reads are the decoder's own copy
	r.rule("R19.3", "(shared with C19) no in-package UnmarshalCBOR retains its input buffer or a sub-slice of it; wire-struct slots are types the mode fills with a copy.")
	checkInputNotRetained(r, "R19.3")
}

// encoderDeterministic: "" when the named encode mode is built with the
// deterministic options (R08.1).
func encoderDeterministic(P *Prog, global string) string {
	for _, mc := range P.modeConfigs() {
		if mc.enc && mc.global == global {
			if mc.opts["Sort"] != P.cborConst("SortBytewiseLexical") {
				return fmt.Sprintf("encoder %s sorts map keys with mode %d, not bytewise lexical", global, mc.opts["Sort"])
			}
			if mc.opts["IndefLength"] != P.cborConst("IndefLengthForbidden") {
				return "encoder " + global + " allows indefinite lengths"
			}
			return ""
		}
	}
	return "no construction of encode mode " + global + " found"
}

// checkMarshalBuckets: R09.2 for MarshalProtected / MarshalUnprotected.
func checkMarshalBuckets(r *Report, rule string) {
	P := r.P
	h := P.mustNamed("Headers")
	for _, pr := range [][3]string{{"MarshalProtected", "RawProtected", "Protected"}, {"MarshalUnprotected", "RawUnprotected", "Unprotected"}} {
		fn := P.methodOf(h, pr[0])
		if fn == nil {
			undecidedf("anchor not found: Headers.%s", pr[0])
		}
		raw := pLoad(pField(T("param", "0"), pr[1]))
		np := 0
		for _, p := range P.allPaths(fn) {
			if !p.feasible() {
				continue
			}
			res := p.results()
			fs := factSet{}
			for _, c := range p.conds {
				fs.add(c)
			}
			if k, _ := P.classifyErr(res[1], fs); k == exitFailure {
				continue
			}
			np++
			o := r.ob(rule, shortFn(fn)+":path:"+pathID(p), fn, p.ret, "raw bytes are returned themselves exactly when present, else the package encoder's output for the map")
			hasRaw := fs.has(Fact{tLt(tInt(0), tLen(raw)), true}) || fs.has(Fact{tEq(tInt(0), tLen(raw)), false})
			noRaw := fs.has(Fact{tLt(tInt(0), tLen(raw)), false}) || fs.has(Fact{tEq(tInt(0), tLen(raw)), true})
			switch {
			case hasRaw:
				o.check(res[0].eq(raw) && res[1].Op == "nil", "len(raw) > 0: returns the raw bytes", "with raw bytes present the function returns "+truncate(res[0].String(), 160))
			case noRaw:
				want := pEnc(pIface("%", pLoad(pField(T("param", "0"), pr[2]))))
				b, ok := unify(want, res[0], bindings{})
				okMode := false
				if ok {
					if g, isM := P.isModeLoad(b["ENC"], true); isM && encoderDeterministic(P, g) == "" {
						okMode = true
					}
				}
				o.check(ok && okMode, "no raw bytes: Enc("+pr[2]+")", "without raw bytes the function returns "+truncate(res[0].String(), 160))
			default:
				o.fail("a success path does not test len(" + pr[1] + ")")
			}
		}
		r.floor(rule, np, 2, "success paths of "+shortFn(fn))
	}
}

// checkHeadNormalizer: R02.3.
func checkHeadNormalizer(r *Report, rule string) {
	P := r.P
	fn := P.headNormalizer()
	r.analysed(fn)
	sb := &specBuilder{}
	det := sb.pDet(T("param", "0"))
	ns := 0
	for _, x := range P.factsOf(fn).exits {
		id := shortFn(fn) + ":exit:" + exitID(P, fn, x)
		if x.kind == exitFailure {
			o := r.ob(rule, id+":refusal", fn, x.ret, "the normaliser refuses only empty input, a non-bstr major type or a mode error")
			fs := x.facts
			empty := fs.holdsEmpty(T("param", "0"))
			notBstr := len(fs.matchAll([]factPat{fp("!binop<==>(2, binop<>>>(*index($0, 0), 5))")}, nil)) > 0
			modeErr := x.errTerm.Op == "call" && strings.HasPrefix(x.errTerm.S, "invoke:cbor.") || (x.errTerm.Op == "res" && x.errTerm.Args[0].Op == "call" && strings.HasPrefix(x.errTerm.Args[0].S, "invoke:cbor."))
			if !(empty || notBstr || modeErr) {
				// the refusal may be a prologue helper's: every failure exit of
				// that helper is then one of the three, in the helper's own facts
				call := x.errTerm
				if call.Op == "res" && len(call.Args) == 1 {
					call = call.Args[0]
				}
				if h := P.calleeOfTerm(call); h != nil && h != fn && errIndex(h) >= 0 {
					m := map[string]*Term{}
					for i, a := range call.Args {
						m[itoa(int64(i))] = a
					}
					all, n := true, 0
					for _, hx := range P.factsOf(h).exits {
						if hx.kind != exitFailure {
							continue
						}
						n++
						hfs := factSet{}
						for _, f := range hx.facts {
							hfs.add(normFact(f.Pred.subst(m), f.Val))
						}
						he := hfs.holdsEmpty(T("param", "0"))
						hn := len(hfs.matchAll([]factPat{fp("!binop<==>(2, binop<>>>(*index($0, 0), 5))")}, nil)) > 0
						hm := strings.Contains(hx.errTerm.String(), "call<invoke:cbor.")
						if !(he || hn || hm) {
							all = false
						}
					}
					if all && n > 0 {
						empty = true // stands for "one of the three, established inside the helper"
					}
				}
			}
			o.check(empty || notBstr || modeErr, fmt.Sprintf("empty:%v not-bstr:%v mode-error:%v", empty, notBstr, modeErr), "a well-formed bstr can be refused: failure exit returning "+x.errTerm.String()+" is not guarded by len==0 / major type != 2 / a mode error")
			continue
		}
		ns++
		o := r.ob(rule, id+":result", fn, x.ret, "a success exit returns the argument itself or the package re-encoding of its decoded content")
		res := canon(x.results[0])
		var okR bool
		var b bindings
		for _, alt := range det.Args {
			if nb, ok := unify(alt, res, bindings{}); ok {
				okR, b = true, nb
			}
		}
		why := "returns " + truncate(res.String(), 200)
		if okR && b["ENC"] != nil {
			if g, ok := P.isModeLoad(b["ENC"], true); !ok || encoderDeterministic(P, g) != "" {
				okR, why = false, "re-encodes with "+b["ENC"].String()
			}
		}
		o.check(okR, truncate(res.String(), 120), why)
	}
	r.floor(rule, ns, 2, "success exits of the head normaliser")

	// thresholds: the argument is returned unchanged only when its head is
	// already the shortest form (RFC 8949 4.2.1): additional information < 24;
	// 24 with value >= 24; 25 with a non-zero first byte (>= 256); 26 with a
	// non-zero byte among the first two (>= 65536); 27 with a non-zero byte
	// among the first four (>= 2^32)
	ai := "binop<&>(*index($0, 0), 31)"
	byteNZ := func(set factSet, i int) bool {
		return len(set.matchAll([]factPat{fp(fmt.Sprintf("!binop<==>(*index($0, %d), 0)", i))}, nil)) > 0
	}
	nfast := 0
	for _, p := range P.allPaths(fn) {
		if !p.feasible() {
			continue
		}
		res := p.results()
		if res[0].String() != "$0" || res[1].Op != "nil" {
			continue
		}
		for _, cs := range P.expandBoolCalls(p.conds, 0) {
			set := factSet{}
			for _, c := range cs {
				set.add(c)
			}
			consistent := true
			seen := map[string]bool{}
			for _, c := range cs {
				k := c.Pred.String()
				if v, ok := seen[k]; ok && v != c.Val {
					consistent = false
				}
				seen[k] = c.Val
			}
			if !consistent {
				continue
			}
			nfast++
			has := func(pat string) bool { return len(set.matchAll([]factPat{fp(pat)}, nil)) > 0 }
			minimal := false
			switch {
			case has("binop<<>(" + ai + ", 24)"):
				minimal = true
			case has("binop<==>(24, " + ai + ")"):
				minimal = has("binop<<=>(24, *index($0, 1))") || has("!binop<<>(*index($0, 1), 24)") || has("binop<<>(23, *index($0, 1))")
			case has("binop<==>(25, " + ai + ")"):
				minimal = byteNZ(set, 1)
			case has("binop<==>(26, " + ai + ")"):
				minimal = byteNZ(set, 1) || byteNZ(set, 2)
			case has("binop<==>(27, " + ai + ")"):
				minimal = byteNZ(set, 1) || byteNZ(set, 2) || byteNZ(set, 3) || byteNZ(set, 4)
			}
			if !minimal {
				var l []string
				for _, c := range cs {
					l = append(l, c.String())
				}
				r.ob(rule, fmt.Sprintf("%s:fast-path-minimal#%d", shortFn(fn), nfast), fn, p.ret, "the argument is returned unchanged only when its length head is already the shortest form").fail("a byte string whose head is not provably minimal is passed through un-normalised under: " + truncate(strings.Join(l, " ∧ "), 400))
			}
		}
	}
	o := r.ob(rule, shortFn(fn)+":fast-paths", fn, nil, "every unchanged-return path implies a shortest-form head (thresholds 24 / 256 / 65536 / 2^32)")
	o.check(nfast >= 5, fmt.Sprintf("%d unchanged-return condition sets examined", nfast), fmt.Sprintf("only %d unchanged-return condition sets found (expected one per head width)", nfast))
}

func mutC02() []mutant {
	return []mutant{
		{Name: "Signature.toBeSigned no longer normalises body_protected", File: "sign.go", Quick: true, Rule: "R02.1",
			Old: "\tbodyProtected, err := deterministicBinaryString(bodyProtected)\n\tif err != nil {\n\t\treturn nil, err\n\t}\n", New: "\tvar err error\n"},
		{Name: "Sign1 protected element ignores the raw bytes", File: "sign1.go", Rule: "R02.1",
			Old: "\tprotected, err := m.Headers.MarshalProtected()\n\tif err != nil {\n\t\treturn nil, err\n\t}\n\tprotected, err = deterministicBinaryString(protected)", New: "\tprotected, err := encMode.Marshal(m.Headers.Protected)\n\tif err != nil {\n\t\treturn nil, err\n\t}\n\tprotected, err = deterministicBinaryString(protected)"},
		{Name: "external placed before the protected bytes", File: "sign1.go", Rule: "R02.1",
			Old: "\t\tprotected,    // body_protected\n\t\texternal,     // external_aad\n", New: "\t\texternal,     // external_aad\n\t\tprotected,    // body_protected\n"},
		{Name: "nil external is not turned into the empty string", File: "sign1.go", Quick: true, Rule: "R02.1",
			Old: "\tif external == nil {\n\t\texternal = []byte{}\n\t}\n\tsigStructure := []any{\n\t\t\"Signature1\", // context", New: "\tsigStructure := []any{\n\t\t\"Signature1\", // context"},
		{Name: "raw unprotected bytes appended as a fifth element", File: "sign1.go", Rule: "R02.2",
			Old: "\t\tm.Payload,    // payload\n\t}\n", New: "\t\tm.Payload,    // payload\n\t}\n\tif len(m.Headers.RawUnprotected) > 1 {\n\t\tsigStructure = append(sigStructure, m.Headers.RawUnprotected)\n\t}\n"},
		{Name: "structure encoded with the library's default (unsorted) encoder", File: "sign.go", Rule: "R02.1",
			Old: "\t\tpayload,       // payload\n\t}\n\n\t// create the value ToBeSigned by encoding the Sig_structure to a byte\n\t// string.\n\treturn encMode.Marshal(sigStructure)", New: "\t\tpayload,       // payload\n\t}\n\n\t// create the value ToBeSigned by encoding the Sig_structure to a byte\n\t// string.\n\treturn cbor.Marshal(sigStructure)"},
		{Name: "SignMessage.Verify hands the signer's own header as body", File: "sign.go", Rule: "R02.1",
			Old: "\t\tif err := signature.Verify(verifiers[i], protected, m.Payload, external); err != nil {", New: "\t\tif err := signature.Verify(verifiers[i], protected, m.Payload, nil); err != nil {"},
		{Name: "head normaliser refuses the slow path", File: "cbor.go", Rule: "R02.3",
			Old: "\tvar s []byte\n\t_ = decModeWithTagsForbidden.Unmarshal(data, &s)\n\treturn encMode.Marshal(s)", New: "\treturn nil, errors.New(\"cbor: non-deterministic bstr\")"},
		{Name: "one-byte length threshold off by one", File: "cbor.go", Rule: "R02.3",
			Old: "\t\tif data[1] >= 24 {", New: "\t\tif data[1] >= 23 {"},
		{Name: "two-byte length accepted when only the low byte is non-zero", File: "cbor.go", Rule: "R02.3",
			Old: "\tcase 25:\n\t\tif data[1] != 0 {", New: "\tcase 25:\n\t\tif data[1] != 0 || data[2] != 0 {"},
		{Name: "eight-byte length tested on five bytes", File: "cbor.go", Rule: "R02.3",
			Old: "\t\tif data[1] != 0 || data[2] != 0 || data[3] != 0 || data[4] != 0 {", New: "\t\tif data[1] != 0 || data[2] != 0 || data[3] != 0 || data[4] != 0 || data[5] != 0 {"},
		{Name: "MarshalProtected prefers the map when it is non-nil", File: "headers.go", Rule: "R09.2",
			Old: "\tif len(h.RawProtected) > 0 {\n\t\treturn h.RawProtected, nil\n\t}\n\treturn encMode.Marshal(h.Protected)", New: "\tif len(h.RawProtected) > 0 && h.Protected == nil {\n\t\treturn h.RawProtected, nil\n\t}\n\treturn encMode.Marshal(h.Protected)"},
		{Name: "untagged Verify builds its own structure", File: "sign1.go", Rule: "R02.1",
			Old: "func (m *UntaggedSign1Message) Verify(external []byte, verifier Verifier) error {\n\treturn (*Sign1Message)(m).Verify(external, verifier)", New: "func (m *UntaggedSign1Message) Verify(external []byte, verifier Verifier) error {\n\treturn (*Sign1Message)(m).Verify(nil, verifier)"},
	}
}

// checkRawBucketWriters: R02.4 - who may write the retained raw header bytes.
// The protected bytes that enter the Sig_structure on verification are
// Headers.RawProtected as the decoder captured them; a store into a Raw*
// field of Headers through a pointer (i.e. into somebody else's Headers) is
// only found in the decoder family, where the whole value is being built.
// Stores into a local by-value copy (the hash-envelope producer dropping the
// caller's raw bytes before signing) are its own business.
func checkRawBucketWriters(r *Report, rule string) {
	P := r.P
	decFam := P.decoderFamily()
	n := 0
	for _, fn := range P.Funcs {
		for _, b := range fn.Blocks {
			for _, in := range b.Instrs {
				st, ok := in.(*ssa.Store)
				if !ok {
					continue
				}
				fa, ok := st.Addr.(*ssa.FieldAddr)
				if !ok || !isNamed(deref(fa.X.Type()), cosePath, "Headers") {
					continue
				}
				f := deref(fa.X.Type()).Underlying().(*types.Struct).Field(fa.Field).Name()
				if f != "RawProtected" && f != "RawUnprotected" {
					continue
				}
				n++
				root, _ := P.terms.addrPath(st.Addr)
				al, local := root.(*ssa.Alloc)
				if local && al.Heap && !decFam[fn] {
					// a local whose address leaves the function (returned
					// message) is not the function's private copy
					local = !allocReturned(al)
				}
				o := r.ob(rule, shortFn(fn)+":store:"+f, fn, st, "retained raw header bytes are written only while a decoder builds the value, or in a function's own by-value copy")
				o.check(local || decFam[fn], "local value or decoder family", "Headers."+f+" of a value reached through a pointer is overwritten outside the decoders: a verifier that runs afterwards no longer sees the bytes as received")
			}
		}
	}
	r.floorSoft(rule, n, 2, "stores into raw header fields")
}

// allocReturned: the address of the alloc is a result of its function.
func allocReturned(a *ssa.Alloc) bool {
	for _, b := range a.Parent().Blocks {
		for _, in := range b.Instrs {
			if ret, ok := in.(*ssa.Return); ok {
				for _, v := range ret.Results {
					if v == ssa.Value(a) {
						return true
					}
				}
			}
		}
	}
	return false
}

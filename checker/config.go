package main

// E7: reconstruction of the CBOR mode configuration. For every call of
// EncOptions.EncMode / DecOptions.DecMode the option struct's value is read
// off the value-flow term (dominating stores to the local), each field is
// resolved to its typed constant, and the package variable receiving the mode
// is recorded (DESIGN.md 2.7).

import (
	"fmt"
	"go/token"
	"go/types"
	"os"
	"sort"
	"strconv"

	"golang.org/x/tools/go/ssa"
)

type modeConfig struct {
	global   string // package var receiving the mode ("" when not stored into a global)
	enc      bool
	fn       *ssa.Function
	call     ssa.CallInstruction
	opts     map[string]int64 // field name -> integer constant value (0 when unset)
	unknown  []string         // fields whose value is not a compile-time constant
	optsType *types.Struct
}

func isCBORNamed(t types.Type, name string) bool { return isNamed(t, cborPath, name) }

// modeConfigs finds every construction of a CBOR mode in the package.
func (P *Prog) modeConfigs() []*modeConfig {
	var out []*modeConfig
	for _, fn := range P.Funcs {
		for _, ci := range callsIn(fn, nil) {
			callee := staticCallee(ci)
			if callee == nil || callee.Pkg == nil || callee.Pkg.Pkg.Path() != cborPath {
				continue
			}
			var enc bool
			switch callee.Name() {
			case "EncMode", "EncModeWithTags", "EncModeWithSharedTags":
				enc = true
			case "DecMode", "DecModeWithTags", "DecModeWithSharedTags":
				enc = false
			default:
				continue
			}
			args := ci.Common().Args
			if len(args) == 0 {
				continue
			}
			st, ok := args[0].Type().Underlying().(*types.Struct)
			if !ok {
				continue
			}
			build := func(ot *Term, holder ssa.Instruction) *modeConfig {
				mc := &modeConfig{enc: enc, fn: fn, call: ci, opts: map[string]int64{}, optsType: st}
				for i := 0; i < st.NumFields(); i++ {
					name := st.Field(i).Name()
					ft := projectField(ot, name)
					switch ft.Op {
					case "const":
						if n, err := strconv.ParseInt(ft.S, 10, 64); err == nil {
							mc.opts[name] = n
						} else if ft.S == "true" {
							mc.opts[name] = 1
						} else if ft.S == "false" {
							mc.opts[name] = 0
						} else {
							mc.unknown = append(mc.unknown, name+"="+ft.String())
						}
					case "zero", "nil":
						mc.opts[name] = 0
					default:
						mc.unknown = append(mc.unknown, name+"="+ft.String())
					}
				}
				// which global receives the mode? holder's value (result 0 when
				// a tuple) stored into a package variable
				if v, ok := holder.(ssa.Value); ok && v.Referrers() != nil {
					for _, ref := range *v.Referrers() {
						switch u := ref.(type) {
						case *ssa.Extract:
							if u.Index != 0 {
								continue
							}
							for _, r2 := range *u.Referrers() {
								if st, ok := r2.(*ssa.Store); ok {
									if g, ok := st.Addr.(*ssa.Global); ok {
										mc.global = g.Name()
									}
								}
								// handed through a must-style helper that returns
								// this very argument (and panics otherwise)
								if c2, ok := r2.(*ssa.Call); ok && c2.Referrers() != nil {
									h := c2.Call.StaticCallee()
									pi := -1
									for i, a := range c2.Call.Args {
										if a == ssa.Value(u) {
											pi = i
										}
									}
									if h == nil || pi < 0 || !P.inPkg(h) || !returnsParam(h, pi) {
										continue
									}
									for _, r3 := range *c2.Referrers() {
										if st, ok := r3.(*ssa.Store); ok && st.Val == ssa.Value(c2) {
											if g, ok := st.Addr.(*ssa.Global); ok {
												mc.global = g.Name()
											}
										}
									}
								}
							}
						case *ssa.Store:
							if g, ok := u.Addr.(*ssa.Global); ok && u.Val == v {
								mc.global = g.Name()
							}
						}
					}
				}
				return mc
			}
			ot := P.terms.of(args[0])
			usesParam := ot.contains(func(u *Term) bool { return u.Op == "param" })
			if usesParam && P.returnsResult0Of(fn, ci) {
				// a construction helper: one configuration per call of the helper
				n := 0
				for _, caller := range P.allFuncsInclInit() {
					for _, ci2 := range callsIn(caller, nil) {
						if staticCallee(ci2) != fn {
							continue
						}
						m := map[string]*Term{}
						for i, a := range ci2.Common().Args {
							m[strconv.Itoa(i)] = P.terms.of(a)
						}
						mc := build(ot.subst(m), ci2)
						mc.fn, mc.call = caller, ci2
						out = append(out, mc)
						n++
					}
				}
				if n > 0 {
					continue
				}
			}
			mc := build(ot, ci)
			out = append(out, mc)
		}
	}
	sort.Slice(out, func(i, j int) bool { return out[i].global < out[j].global })
	return out
}

// cborConst resolves an exported constant of the cbor package (typed value).
func (P *Prog) cborConst(name string) int64 {
	for _, imp := range P.Pkg.Types.Imports() {
		if imp.Path() == cborPath {
			if c, ok := imp.Scope().Lookup(name).(*types.Const); ok {
				if v, ok := constInt64(c.Val()); ok {
					return v
				}
			}
		}
	}
	undecidedf("anchor not found: constant cbor.%s", name)
	return 0
}

// modeGlobals lists the package-level variables of CBOR mode type.
func (P *Prog) modeGlobals() []*ssa.Global {
	var out []*ssa.Global
	for _, m := range P.SPkg.Members {
		if g, ok := m.(*ssa.Global); ok {
			t := deref(g.Type())
			if isCBORNamed(t, "EncMode") || isCBORNamed(t, "DecMode") {
				out = append(out, g)
			}
		}
	}
	sort.Slice(out, func(i, j int) bool { return out[i].Name() < out[j].Name() })
	return out
}

// globalStores lists every Store whose address is (a path below) global g.
func (P *Prog) globalStores(g *ssa.Global) []*ssa.Store {
	var out []*ssa.Store
	for _, fn := range P.allFuncsInclInit() {
		for _, b := range fn.Blocks {
			for _, in := range b.Instrs {
				if st, ok := in.(*ssa.Store); ok {
					root, _ := P.terms.addrPath(st.Addr)
					if root == ssa.Value(g) {
						out = append(out, st)
					}
				}
			}
		}
	}
	return out
}

// allFuncsInclInit: source functions plus the synthetic package initialiser.
func (P *Prog) allFuncsInclInit() []*ssa.Function {
	out := append([]*ssa.Function{}, P.Funcs...)
	if f := P.SPkg.Func("init"); f != nil {
		found := false
		for _, x := range out {
			if x == f {
				found = true
			}
		}
		if !found {
			out = append(out, f)
		}
	}
	return out
}

// isInitFunc: the synthetic package init or a source-level init().
func isInitFunc(fn *ssa.Function) bool {
	if fn == nil {
		return false
	}
	if fn.Name() == "init" && fn.Signature.Recv() == nil {
		return true
	}
	return fn.Synthetic == "" && fn.Parent() == nil && len(fn.Name()) > 5 && fn.Name()[:5] == "init#"
}

// globalInitTerm: the value stored into package variable `name` by the
// package initialiser (nil when not exactly one store exists).
func (P *Prog) globalInitTerm(name string) *Term {
	g := P.global(name)
	if g == nil {
		return nil
	}
	sts := P.globalStores(g)
	if len(sts) != 1 || !isInitFunc(sts[0].Parent()) {
		return nil
	}
	_, path := P.terms.addrPath(sts[0].Addr)
	if len(path) != 0 {
		return nil
	}
	return P.terms.of(sts[0].Val)
}

// byteArr evaluates an arr<byte>(c0,c1,...) term to its bytes.
func byteArr(t *Term) ([]byte, bool) {
	if t == nil || t.Op != "arr" {
		return nil, false
	}
	out := make([]byte, len(t.Args))
	for i, a := range t.Args {
		if a.Op != "const" {
			return nil, false
		}
		n, err := strconv.ParseInt(a.S, 10, 64)
		if err != nil || n < 0 || n > 255 {
			return nil, false
		}
		out[i] = byte(n)
	}
	return out, true
}

// globalBytes: a package-level []byte variable that is initialised once to a
// constant literal and never written afterwards (neither the variable nor,
// through it, its elements).
func (P *Prog) globalBytes(name string) ([]byte, bool) {
	t := P.globalInitTerm(name)
	b, ok := byteArr(t)
	if !ok {
		return nil, false
	}
	// no element writes through the global anywhere: effects with root global
	for _, fn := range P.Funcs {
		if isInitFunc(fn) {
			continue
		}
		for _, w := range P.effects.summary(fn).writes {
			if w.kind == "global" && w.global == name {
				return nil, false
			}
		}
	}
	return b, true
}

// checkModeConfig applies the option rules shared by C05/C06/C07/C08. want
// maps option field -> required constant; forbidNonZero lists fields that
// must stay at their zero (library default) value.
func checkModeOptions(r *Report, rule string, mc *modeConfig, want map[string]int64, mustBeDefault []string) {
	name := mc.global
	if name == "" {
		name = "<unnamed mode in " + shortFn(mc.fn) + ">"
	}
	keys := make([]string, 0, len(want))
	for k := range want {
		keys = append(keys, k)
	}
	sort.Strings(keys)
	for _, k := range keys {
		o := r.ob(rule, name+":option:"+k, mc.fn, mc.call, fmt.Sprintf("mode %s is built with %s = %d", name, k, want[k]))
		got, ok := mc.opts[k]
		switch {
		case !ok:
			o.fail("option " + k + " is not a compile-time constant or does not exist in this library version")
		default:
			o.check(got == want[k], fmt.Sprintf("%s = %d (typed constant)", k, got), fmt.Sprintf("%s = %d, required %d", k, got, want[k]))
		}
	}
	for _, k := range mustBeDefault {
		o := r.ob(rule, name+":default:"+k, mc.fn, mc.call, fmt.Sprintf("mode %s leaves %s at the library default", name, k))
		got, ok := mc.opts[k]
		if !ok {
			// field absent from this library version: nothing to widen/narrow
			found := false
			for i := 0; i < mc.optsType.NumFields(); i++ {
				if mc.optsType.Field(i).Name() == k {
					found = true
				}
			}
			if !found {
				o.ok("option does not exist in this library version", false)
				continue
			}
			o.fail("option " + k + " is not a compile-time constant")
			continue
		}
		o.check(got == 0, k+" unset", fmt.Sprintf("%s = %d (library default is 0/unset)", k, got))
	}
	if len(mc.unknown) > 0 {
		r.ob(rule, name+":constant-options", mc.fn, mc.call, "all options are compile-time constants").fail("non-constant options: " + fmt.Sprint(mc.unknown))
	}
}

// library defaults of fxamacker/cbor v2.5.0 (decode.go): an explicit option
// equal to the default changes nothing.
var cborLimitDefaults = map[string]int64{"MaxNestedLevels": 32, "MaxArrayElements": 131072, "MaxMapPairs": 131072}

// checkModeLimit: option field is unset, or satisfies ok (described by desc).
func checkModeLimit(r *Report, rule string, mc *modeConfig, field string, ok func(v, def int64) bool, desc string) {
	name := mc.global
	if name == "" {
		name = "<unnamed mode in " + shortFn(mc.fn) + ">"
	}
	o := r.ob(rule, name+":limit:"+field, mc.fn, mc.call, fmt.Sprintf("mode %s: %s %s", name, field, desc))
	v, known := mc.opts[field]
	if !known {
		found := false
		for i := 0; i < mc.optsType.NumFields(); i++ {
			if mc.optsType.Field(i).Name() == field {
				found = true
			}
		}
		if !found {
			o.ok("option does not exist in this library version", false)
			return
		}
		o.fail("option " + field + " is not a compile-time constant")
		return
	}
	def := cborLimitDefaults[field]
	o.check(v == 0 || ok(v, def), fmt.Sprintf("%s = %d (0 = library default %d)", field, v, def), fmt.Sprintf("%s = %d (library default %d)", field, v, def))
}

// checkDecoderLimits: R07.3 - the decode modes do not narrow the library's limits.
func checkDecoderLimits(r *Report, rule string) {
	n := 0
	for _, mc := range r.P.modeConfigs() {
		if mc.enc {
			continue
		}
		n++
		for _, f := range []string{"MaxNestedLevels", "MaxArrayElements", "MaxMapPairs"} {
			checkModeLimit(r, rule, mc, f, func(v, def int64) bool { return v >= def }, "is not below the library default")
		}
	}
	r.floor(rule, n, 2, "decode mode constructions")
}

// constGlobalValue: the value of an unexported package variable that is a
// constant of the program: every store to it (or below it) is in the package
// initialiser, in one block; no function's effect summary writes memory
// reached through it; its address is only used to load from or to address
// fields/elements that are loaded; and the stored value is closed (constants,
// literals of constants). nil otherwise.
func (P *Prog) constGlobalValue(name string) *Term {
	if v, ok := P.constGlobals[name]; ok {
		return v
	}
	if P.constGlobals == nil {
		P.constGlobals = map[string]*Term{}
	}
	P.constGlobals[name] = nil
	g := P.global(name)
	if g == nil || g.Object() == nil || g.Object().Exported() {
		if os.Getenv("CG_DEBUG") != "" {
			println("constGlobal", name, 1)
		}
		return nil
	}
	sts := P.globalStores(g)
	if len(sts) == 0 {
		if os.Getenv("CG_DEBUG") != "" {
			println("constGlobal", name, 2)
		}
		return nil
	}
	for _, st := range sts {
		if !isInitFunc(st.Parent()) || st.Block() != sts[0].Block() {
			if os.Getenv("CG_DEBUG") != "" {
				println("constGlobal", name, 3)
			}
			return nil
		}
	}
	for _, fn := range P.Funcs {
		if isInitFunc(fn) {
			continue
		}
		for _, w := range P.effects.summary(fn).writes {
			if w.kind == "global" && w.global == name {
				if os.Getenv("CG_DEBUG") != "" {
					println("constGlobal", name, 4)
				}
				return nil
			}
		}
	}
	// address uses
	var okAddr func(v ssa.Value, inInit bool) bool
	okAddr = func(v ssa.Value, inInit bool) bool {
		refs := v.Referrers()
		if refs == nil {
			return true
		}
		for _, ref := range *refs {
			switch u := ref.(type) {
			case *ssa.UnOp:
				if u.Op != token.MUL {
					return false
				}
			case *ssa.Store:
				if u.Addr != v || !inInit {
					return false
				}
			case *ssa.FieldAddr:
				if !okAddr(u, inInit) {
					return false
				}
			case *ssa.IndexAddr:
				if u.X != v || !okAddr(u, inInit) {
					return false
				}
			case *ssa.DebugRef:
			default:
				return false
			}
		}
		return true
	}
	for _, fn := range P.allFuncsInclInit() {
		for _, b := range fn.Blocks {
			for _, in := range b.Instrs {
				for _, op := range in.Operands(nil) {
					if *op != ssa.Value(g) {
						continue
					}
					switch u := in.(type) {
					case *ssa.UnOp:
						if u.Op != token.MUL {
							if os.Getenv("CG_DEBUG") != "" {
								println("constGlobal", name, 5)
							}
							return nil
						}
					case *ssa.Store:
						if u.Addr != ssa.Value(g) || !isInitFunc(fn) {
							if os.Getenv("CG_DEBUG") != "" {
								println("constGlobal", name, 6)
							}
							return nil
						}
					case *ssa.FieldAddr:
						if !okAddr(u, isInitFunc(fn)) {
							if os.Getenv("CG_DEBUG") != "" {
								println("constGlobal", name, 7)
							}
							return nil
						}
					case *ssa.IndexAddr:
						if !okAddr(u, isInitFunc(fn)) {
							if os.Getenv("CG_DEBUG") != "" {
								println("constGlobal", name, 8)
							}
							return nil
						}
					default:
						if os.Getenv("CG_DEBUG") != "" {
							println("constGlobal", name, 9)
						}
						return nil
					}
				}
			}
		}
	}
	blk := sts[0].Block()
	v := P.terms.loadPath(g, nil, blk.Instrs[len(blk.Instrs)-1])
	// before the initialiser runs the variable holds its zero value
	v = v.rewrite(func(u *Term) *Term {
		if u.Op == "load" && u.Args[0].Op == "global" && u.Args[0].S == name {
			return T("zero", "")
		}
		return nil
	})
	if !closedConst(v) {
		if os.Getenv("CG_DEBUG") != "" {
			println("constGlobal", name, 10, v.String())
		}
		return nil
	}
	P.constGlobals[name] = v
	return v
}

// closedConst: built from constants and literals only.
func closedConst(t *Term) bool {
	if t == nil {
		return false
	}
	switch t.Op {
	case "const", "nil", "zero", "arr", "update", "struct":
	default:
		return false
	}
	for _, a := range t.Args {
		if !closedConst(a) {
			return false
		}
	}
	return true
}

// foldGlobals replaces loads of constant package variables (constGlobalValue),
// or of fields / constant-index elements below them, by their values.
func (P *Prog) foldGlobals(t *Term) *Term {
	if t == nil || !t.contains(func(u *Term) bool { return u.Op == "global" }) {
		return t
	}
	return t.rewrite(func(u *Term) *Term {
		if u.Op != "load" {
			return nil
		}
		// an element or field read below a slice-typed constant: the slice was
		// folded to its literal and the projection already selected the value
		if x := u.Args[0]; (x.Op == "const" || x.Op == "arr") && closedConst(x) {
			return x
		}
		var path []string
		a := u.Args[0]
		for {
			switch a.Op {
			case "field":
				path = append([]string{a.S}, path...)
				a = a.Args[0]
				continue
			case "index":
				if a.Args[1].Op != "const" || a.Args[0].Op == "load" {
					return nil
				}
				path = append([]string{"[" + a.Args[1].S + "]"}, path...)
				a = a.Args[0]
				continue
			}
			break
		}
		if a.Op != "global" {
			return nil
		}
		v := P.constGlobalValue(a.S)
		if v == nil {
			return nil
		}
		r := projectPath(v, path)
		if !closedConst(r) {
			return nil
		}
		return r
	})
}

// returnsResult0Of: every Return of fn hands back result 0 of call ci as its
// first result (fn is a thin construction helper around ci).
func (P *Prog) returnsResult0Of(fn *ssa.Function, ci ssa.CallInstruction) bool {
	v, ok := ci.(ssa.Value)
	if !ok {
		return false
	}
	n := 0
	for _, b := range fn.Blocks {
		ret, ok := b.Instrs[len(b.Instrs)-1].(*ssa.Return)
		if !ok {
			continue
		}
		if len(ret.Results) == 0 {
			return false
		}
		r0 := ret.Results[0]
		if ex, ok := r0.(*ssa.Extract); ok && ex.Tuple == v && ex.Index == 0 {
			n++
			continue
		}
		if r0 == v {
			n++
			continue
		}
		// an error-path return of a zero value does not deliver a mode
		if c, ok := r0.(*ssa.Const); ok && c.IsNil() {
			continue
		}
		return false
	}
	return n > 0
}

// constGlobalMap: an unexported package-level map initialised once by the
// package initialiser from a map literal of constants and never written (nor
// its address or value handed out for writing) afterwards: its entries as
// key-term string -> value-term string.
func (P *Prog) constGlobalMap(name string) (map[string]string, bool) {
	g := P.global(name)
	if g == nil || g.Object() == nil || g.Object().Exported() {
		return nil, false
	}
	if _, isMap := deref(g.Type()).Underlying().(*types.Map); !isMap {
		return nil, false
	}
	sts := P.globalStores(g)
	if len(sts) != 1 || !isInitFunc(sts[0].Parent()) || sts[0].Addr != ssa.Value(g) {
		return nil, false
	}
	mm, ok := sts[0].Val.(*ssa.MakeMap)
	if !ok {
		return nil, false
	}
	for _, fn := range P.Funcs {
		if isInitFunc(fn) {
			continue
		}
		for _, w := range P.effects.summary(fn).writes {
			if w.kind == "global" && w.global == name {
				return nil, false
			}
		}
	}
	// uses of the variable outside init: loads whose value is only looked up / measured
	for _, fn := range P.allFuncsInclInit() {
		for _, b := range fn.Blocks {
			for _, in := range b.Instrs {
				for _, op := range in.Operands(nil) {
					if *op != ssa.Value(g) {
						continue
					}
					switch u := in.(type) {
					case *ssa.Store:
						if u != sts[0] {
							return nil, false
						}
					case *ssa.UnOp:
						if u.Op != token.MUL {
							return nil, false
						}
						for _, ref := range *u.Referrers() {
							switch r2 := ref.(type) {
							case *ssa.Lookup, *ssa.DebugRef, *ssa.Range:
							case *ssa.Call:
								if bi, ok := r2.Call.Value.(*ssa.Builtin); !ok || bi.Name() != "len" {
									return nil, false
								}
							default:
								return nil, false
							}
						}
					default:
						return nil, false
					}
				}
			}
		}
	}
	out := map[string]string{}
	strip := func(t *Term) *Term {
		if t.Op == "iface" && len(t.Args) == 1 {
			return t.Args[0]
		}
		return t
	}
	for _, ref := range *mm.Referrers() {
		switch u := ref.(type) {
		case *ssa.MapUpdate:
			k, v := strip(P.terms.of(u.Key)), strip(P.terms.of(u.Value))
			if k.Op != "const" || !closedConst(v) {
				return nil, false
			}
			if _, dup := out[k.S]; dup {
				return nil, false
			}
			out[k.S] = v.String()
		case *ssa.Store:
			if u != sts[0] {
				return nil, false
			}
		case *ssa.DebugRef:
		default:
			return nil, false
		}
	}
	return out, true
}

// returnsParam: every Return of h hands back parameter i as its only result
// (the other ways out of h are panics).
func returnsParam(h *ssa.Function, i int) bool {
	n := 0
	for _, b := range h.Blocks {
		ret, ok := b.Instrs[len(b.Instrs)-1].(*ssa.Return)
		if !ok {
			continue
		}
		if len(ret.Results) != 1 {
			return false
		}
		p, ok := ret.Results[0].(*ssa.Parameter)
		if !ok || paramIndex(p) != i {
			return false
		}
		n++
	}
	return n > 0
}

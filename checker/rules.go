package main

// Rule infrastructure: obligations, per-property reports, evidence files,
// known findings, replay files, exit codes (DESIGN.md 2.1).

import (
	"crypto/sha1"
	"encoding/json"
	"fmt"
	"os"
	"path/filepath"
	"sort"
	"strings"
	"time"

	"golang.org/x/tools/go/ssa"
)

type Obligation struct {
	Rule       string `json:"rule"`
	Key        string `json:"key"` // rule+construct identity, never a line number
	Function   string `json:"function,omitempty"`
	Pos        string `json:"pos,omitempty"`
	Desc       string `json:"obligation"`
	Status     string `json:"status"` // discharged | violated | known
	By         string `json:"by,omitempty"`
	Why        string `json:"why,omitempty"`
	Nontrivial bool   `json:"nontrivial,omitempty"`
}

type Report struct {
	P        *Prog
	Prop     string
	Obs      []*Obligation
	funcs    map[string]bool
	sites    int
	paths    int
	samples  []any
	notes    []string
	floors   []string // floor failures (exit 2)
	assume   map[string]bool
	ruleText map[string]string
}

func newReport(P *Prog, prop string) *Report {
	return &Report{P: P, Prop: prop, funcs: map[string]bool{}, assume: map[string]bool{}, ruleText: map[string]string{}}
}

// rule registers the text of a rule (for coverage.explanation).
func (r *Report) rule(id, text string) { r.ruleText[id] = text }

func (r *Report) assumes(a ...string) {
	for _, x := range a {
		r.assume[x] = true
	}
}

func (r *Report) analysed(fns ...*ssa.Function) {
	for _, f := range fns {
		if f != nil {
			r.funcs[shortFn(f)] = true
		}
	}
}

// ob opens an obligation; it is violated until discharged.
func (r *Report) ob(rule, key string, fn *ssa.Function, at ssa.Instruction, desc string) *Obligation {
	o := &Obligation{Rule: rule, Key: rule + "|" + key, Desc: desc, Status: "violated", Why: "not discharged"}
	if fn != nil {
		o.Function = shortFn(fn)
		r.funcs[o.Function] = true
		o.Pos = r.P.pos(fn.Pos())
	}
	if at != nil {
		o.Pos = r.P.instrPos(at)
	}
	r.Obs = append(r.Obs, o)
	return o
}

func (o *Obligation) ok(by string, nontrivial bool) *Obligation {
	o.Status = "discharged"
	o.By = by
	o.Why = ""
	o.Nontrivial = nontrivial
	return o
}

func (o *Obligation) fail(why string) *Obligation {
	o.Status = "violated"
	o.Why = why
	return o
}

// check discharges when cond holds, else fails with why.
func (o *Obligation) check(cond bool, by, why string) *Obligation {
	if cond {
		return o.ok(by, true)
	}
	return o.fail(why)
}

// floor asserts a minimum instance count for a rule (exit 2 below it).
func (r *Report) floor(rule string, got, min int, what string) {
	if got < min {
		r.floors = append(r.floors, fmt.Sprintf("%s: %d %s found, hand-confirmed floor is %d", rule, got, what, min))
	}
}

// floorSoft: for counts of internal constructs (instructions, paths), which
// legitimately shrink when code is de-duplicated or restructured: the floor is
// half of the hand-confirmed count (at least one), enough to notice a rule
// that has gone vacuous without tripping on a refactoring.
func (r *Report) floorSoft(rule string, got, confirmed int, what string) {
	min := confirmed / 2
	if min < 1 {
		min = 1
	}
	if got < min {
		r.floors = append(r.floors, fmt.Sprintf("%s: %d %s found, floor is %d (half of the %d confirmed by hand)", rule, got, what, min, confirmed))
	}
}

func (r *Report) sample(v any) {
	if len(r.samples) < 12 {
		r.samples = append(r.samples, v)
	}
}

func (r *Report) violations() []*Obligation {
	var out []*Obligation
	for _, o := range r.Obs {
		if o.Status == "violated" {
			out = append(out, o)
		}
	}
	return out
}

// ---------------------------------------------------------------------------
// known findings

type knownEntry struct {
	kind string // known | fixed
	prop string
	rule string
	site string
	text string
}

func loadKnown(verif string) ([]knownEntry, error) {
	b, err := os.ReadFile(filepath.Join(verif, "known_findings.txt"))
	if err != nil {
		if os.IsNotExist(err) {
			return nil, nil
		}
		return nil, err
	}
	var out []knownEntry
	for _, ln := range strings.Split(string(b), "\n") {
		ln = strings.TrimSpace(ln)
		if ln == "" || strings.HasPrefix(ln, "#") {
			continue
		}
		var e knownEntry
		switch {
		case strings.HasPrefix(ln, "known:"):
			e.kind = "known"
			ln = strings.TrimSpace(strings.TrimPrefix(ln, "known:"))
		case strings.HasPrefix(ln, "fixed:"):
			e.kind = "fixed"
			ln = strings.TrimSpace(strings.TrimPrefix(ln, "fixed:"))
		default:
			return nil, fmt.Errorf("known_findings.txt: unrecognised line %q", ln)
		}
		for _, f := range strings.Fields(ln) {
			switch {
			case strings.HasPrefix(f, "property=") && e.prop == "":
				e.prop = strings.TrimPrefix(f, "property=")
			case strings.HasPrefix(f, "rule=") && e.rule == "":
				e.rule = strings.TrimPrefix(f, "rule=")
			case strings.HasPrefix(f, "site=") && e.site == "":
				e.site = strings.TrimPrefix(f, "site=")
			}
		}
		e.text = ln
		out = append(out, e)
	}
	return out, nil
}

// ---------------------------------------------------------------------------

type propSpec struct {
	id    string
	title string
	run   func(r *Report, tier string)
	// mutants: positive controls (see mutate.go)
	mutants func() []mutant
	design  string
}

var registry = map[string]*propSpec{}

func register(p *propSpec) { registry[p.id] = p }

func propIDs() []string {
	var ids []string
	for id := range registry {
		ids = append(ids, id)
	}
	sort.Strings(ids)
	return ids
}

// analyse loads the tree (optionally with an overlay) and runs one property.
func analyse(repo string, overlay map[string][]byte, env []string, spec *propSpec, tier string) (rep *Report, err error) {
	defer func() {
		if x := recover(); x != nil {
			if u, ok := x.(undecided); ok {
				err = fmt.Errorf("undecided: %s", u.msg)
				return
			}
			panic(x)
		}
	}()
	P, err := loadProg(repo, overlay, env)
	if err != nil {
		return nil, err
	}
	if overlay == nil {
		if err := P.assertFloors(); err != nil {
			return nil, err
		}
	}
	P.effects.computeAll()
	rep = newReport(P, spec.id)
	spec.run(rep, tier)
	return rep, nil
}

type evidence struct {
	PropertyID  string         `json:"property_id"`
	Tier        string         `json:"tier"`
	Seed        int            `json:"seed"`
	Level       string         `json:"level"`
	Coverage    map[string]any `json:"coverage"`
	Assumptions []string       `json:"assumptions"`
	WallS       float64        `json:"wall_s"`
	Violations  int            `json:"violations"`
}

func runProperty(repo, verif, prop, tier, replay string) int {
	start := time.Now()
	spec := registry[prop]
	if spec == nil {
		fmt.Fprintf(os.Stderr, "unknown property %q (have %v)\n", prop, propIDs())
		return 2
	}
	known, err := loadKnown(verif)
	if err != nil {
		fmt.Println("CHECKER-ERROR:", err)
		return 2
	}
	rep, err := analyse(repo, nil, nil, spec, tier)
	if err != nil {
		fmt.Println("CHECKER-ERROR:", err)
		writeBrokenEvidence(verif, prop, tier, err, time.Since(start))
		return 2
	}
	code := 0
	// thorough: other build configurations must give the same verdicts
	var variants []string
	if tier == "thorough" {
		for _, env := range [][]string{{"GOARCH=386"}, {"GOOS=windows"}, {"GOARCH=arm64", "GOOS=darwin"}} {
			vr, err := analyse(repo, nil, env, spec, tier)
			name := strings.Join(env, ",")
			if err != nil {
				fmt.Printf("CHECKER-ERROR: variant %s: %v\n", name, err)
				code = 2
				continue
			}
			variants = append(variants, fmt.Sprintf("%s: %d obligations, %d violated", name, len(vr.Obs), len(vr.violations())))
			for _, o := range vr.violations() {
				found := false
				for _, p := range rep.Obs {
					if p.Key == o.Key && p.Status == "violated" {
						found = true
					}
				}
				if !found {
					o.Key += "|" + name
					o.Why += " (only under " + name + ")"
					rep.Obs = append(rep.Obs, o)
				}
			}
		}
	}
	// known findings
	var knownHit []string
	for _, o := range rep.violations() {
		for _, k := range known {
			if k.kind == "known" && k.prop == prop && strings.HasPrefix(o.Key, k.rule+"|") && strings.TrimPrefix(o.Key, k.rule+"|") == k.site {
				o.Status = "known"
				knownHit = append(knownHit, fmt.Sprintf("KNOWN-FINDING: property=%s rule=%s site=%s %s", prop, k.rule, k.site, o.Why))
			}
		}
	}
	sort.Strings(knownHit)
	for _, k := range knownHit {
		fmt.Println(k)
	}
	// positive controls
	mres := runMutants(repo, spec, tier)
	for _, m := range mres.list {
		if m.Status == "missed" || m.Status == "broken" {
			fmt.Printf("CHECKER-ERROR: positive control %q %s: %s\n", m.Name, m.Status, m.Detail)
			code = 2
		}
	}
	for _, f := range rep.floors {
		fmt.Println("CHECKER-ERROR: instance floor:", f)
		code = 2
	}
	// violations
	viol := rep.violations()
	var vlist []any
	os.MkdirAll(filepath.Join(verif, "evidence", "replay"), 0o755)
	for _, o := range viol {
		h := sha1.Sum([]byte(prop + o.Key))
		path := filepath.Join(verif, "evidence", "replay", fmt.Sprintf("%s-%x.json", prop, h[:6]))
		b, _ := json.MarshalIndent(map[string]any{"property": prop, "rule": o.Rule, "key": o.Key, "function": o.Function, "pos": o.Pos, "obligation": o.Desc, "why": o.Why, "replay_cmd": fmt.Sprintf("/verif/check.sh %s quick", prop)}, "", " ")
		os.WriteFile(path, b, 0o644)
		fmt.Printf("VIOLATION property=%s replay=%s\n", prop, path)
		fmt.Printf("  rule %s at %s in %s: %s -- %s\n", o.Rule, o.Pos, o.Function, o.Desc, o.Why)
		vlist = append(vlist, o)
		if code == 0 {
			code = 1
		}
	}
	if len(viol) > 0 && code == 2 {
		// violations found but the checker is also unsure of itself: report both
		code = 1
	}
	writeEvidence(verif, rep, tier, mres, variants, knownHit, vlist, time.Since(start))
	nd := 0
	for _, o := range rep.Obs {
		if o.Status == "discharged" {
			nd++
		}
	}
	fmt.Printf("%s %s: %d obligations, %d discharged, %d known, %d violated; %d functions; controls %d/%d caught (%d inapplicable); %.1fs\n",
		prop, tier, len(rep.Obs), nd, len(knownHit), len(viol), len(rep.funcs), mres.caught, mres.run, mres.inapplicable, time.Since(start).Seconds())
	return code
}

func writeBrokenEvidence(verif, prop, tier string, err error, d time.Duration) {
	ev := evidence{PropertyID: prop, Tier: tier, Level: "other", WallS: d.Seconds(),
		Coverage:   map[string]any{"explanation": "checker could not decide: " + err.Error(), "obligations": 0, "discharged": 0},
		Violations: 0, Assumptions: []string{}}
	b, _ := json.MarshalIndent(ev, "", " ")
	os.MkdirAll(filepath.Join(verif, "evidence"), 0o755)
	os.WriteFile(filepath.Join(verif, "evidence", prop+".json"), b, 0o644)
}

func writeEvidence(verif string, rep *Report, tier string, mres mutResult, variants, knownHit []string, vlist []any, d time.Duration) {
	nd, nt := 0, 0
	distinct := map[string]bool{}
	byRule := map[string][]*Obligation{}
	for _, o := range rep.Obs {
		if o.Status == "discharged" {
			nd++
		}
		if o.Nontrivial && !distinct[o.Key] {
			distinct[o.Key] = true
			nt++
		}
		byRule[o.Rule] = append(byRule[o.Rule], o)
	}
	var rules []string
	for id := range rep.ruleText {
		rules = append(rules, id)
	}
	sort.Strings(rules)
	var expl strings.Builder
	expl.WriteString("Static analysis of /repo's type-checked source (go/packages + go/ssa, nothing executed). Rules applied: ")
	for _, id := range rules {
		fmt.Fprintf(&expl, "[%s] %s ", id, rep.ruleText[id])
	}
	var fns []string
	for f := range rep.funcs {
		fns = append(fns, f)
	}
	sort.Strings(fns)
	ruleInst := map[string]any{}
	for id, obs := range byRule {
		var l []any
		for _, o := range obs {
			l = append(l, o)
		}
		ruleInst[id] = l
	}
	var as []string
	for a := range rep.assume {
		as = append(as, a)
	}
	sort.Strings(as)
	samples := rep.samples
	if len(samples) == 0 {
		for i, o := range rep.Obs {
			if i >= 5 {
				break
			}
			samples = append(samples, o)
		}
	}
	if samples == nil {
		samples = []any{}
	}
	if vlist == nil {
		vlist = []any{}
	}
	if as == nil {
		as = []string{}
	}
	cov := map[string]any{
		"explanation":           expl.String(),
		"evaluations":           len(rep.Obs),
		"distinct_nontrivial":   nt,
		"rule":                  "one case per (rule, construct) obligation generated from the current source; non-trivial = discharge needed a dominating fact, a path enumeration or a term comparison (not a mere presence test); distinct by rule+construct key",
		"obligations":           len(rep.Obs),
		"discharged":            nd,
		"known_findings":        knownHit,
		"samples":               samples,
		"functions_analysed":    fns,
		"functions_count":       len(fns),
		"call_sites":            rep.sites,
		"paths":                 rep.paths,
		"rules":                 ruleInst,
		"mutators_run":          mres.run,
		"mutators_caught":       mres.caught,
		"mutators_inapplicable": mres.inapplicable,
		"mutators":              mres.list,
		"build_variants":        variants,
		"notes":                 rep.notes,
		"violation_list":        vlist,
		"files":                 rep.P.Files,
		"source_functions":      len(rep.P.Funcs),
		"effect_rounds":         rep.P.effects.rounds,
		"exhaustive":            true,
		"checker_cmd":           fmt.Sprintf("/verif/check.sh %s %s", rep.Prop, tier),
		"trusted_base":          []string{"go/types type checker", "golang.org/x/tools v0.29.0 go/ssa builder", "external contract table (DESIGN.md Appendix A)", "fxamacker/cbor v2.5.0 behaviour as stated in assumptions A1-A7"},
	}
	ev := evidence{PropertyID: rep.Prop, Tier: tier, Seed: 0, Level: "other", Coverage: cov, Assumptions: as, WallS: d.Seconds(), Violations: len(vlist)}
	b, err := json.MarshalIndent(ev, "", " ")
	if err != nil {
		fmt.Println("CHECKER-ERROR: evidence:", err)
		return
	}
	os.MkdirAll(filepath.Join(verif, "evidence"), 0o755)
	os.WriteFile(filepath.Join(verif, "evidence", rep.Prop+".json"), b, 0o644)
}

package main

// C12 — hash envelopes: only conforming envelopes are produced or accepted.

import (
	"fmt"
	"sort"
	"strings"

	"golang.org/x/tools/go/ssa"
)

func init() {
	register(&propSpec{id: "C12", title: "hash envelope producer/verifier pipelines and rule table", run: runC12, mutants: mutC12, design: "DESIGN.md section 3, C12"})
}

// envelope roles, found from the two exported entry points.
type envRoles struct {
	sign, verify *ssa.Function
	rules        *ssa.Function // func(*Headers) error called by both
	digest       *ssa.Function // func(Algorithm, []byte) error called by both
	setter       *ssa.Function // func(ProtectedHeader, *payload) ProtectedHeader
	hashAcc      *ssa.Function // (ProtectedHeader).PayloadHashAlgorithm-like accessor used by verify
}

func (P *Prog) envelopeRoles() *envRoles {
	e := &envRoles{sign: P.mustFn("SignHashEnvelope"), verify: P.mustFn("VerifyHashEnvelope")}
	// callees of the entry point and of the helpers private to it: unexported
	// plain functions all of whose uses are direct calls from the entry point
	// or from other such helpers (an extracted prologue stays in view).
	called := func(fn *ssa.Function) map[*ssa.Function]bool {
		m := map[*ssa.Function]bool{}
		tree := map[*ssa.Function]bool{fn: true}
		work := []*ssa.Function{fn}
		for len(work) > 0 {
			f := work[0]
			work = work[1:]
			for _, ci := range callsIn(f, nil) {
				c := staticCallee(ci)
				if c == nil || !P.inPkg(c) {
					continue
				}
				m[c] = true
				if tree[c] || c.Blocks == nil || c.Signature.Recv() != nil || c.Object() == nil || c.Object().Exported() || c.Parent() != nil {
					continue
				}
				private := true
				if refs := c.Referrers(); refs != nil {
					for _, rf := range *refs {
						if rc, ok := rf.(ssa.CallInstruction); !ok || rc.Common().Value != ssa.Value(c) || !tree[rf.Parent()] {
							private = false
						}
					}
				}
				if private {
					tree[c] = true
					work = append(work, c)
				}
			}
		}
		return m
	}
	cs, cv := called(e.sign), called(e.verify)
	for c := range cs {
		if !cv[c] {
			// sign-only helper returning a ProtectedHeader: the setter
			if c.Signature.Results().Len() == 1 && isNamed(c.Signature.Results().At(0).Type(), cosePath, "ProtectedHeader") {
				e.setter = c
			}
			continue
		}
		switch {
		case len(c.Params) == 1 && isNamed(deref(c.Params[0].Type()), cosePath, "Headers") && errIndex(c) == 0:
			e.rules = c
		case len(c.Params) == 2 && isNamed(c.Params[0].Type(), cosePath, "Algorithm") && isByteSlice(c.Params[1].Type()) && errIndex(c) == 0:
			e.digest = c
		}
	}
	for c := range cv {
		if c.Signature.Recv() != nil && isNamed(c.Signature.Recv().Type(), cosePath, "ProtectedHeader") && c.Signature.Results().Len() == 2 && isNamed(c.Signature.Results().At(0).Type(), cosePath, "Algorithm") {
			e.hashAcc = c
		}
	}
	if e.rules == nil || e.digest == nil || e.hashAcc == nil {
		undecidedf("anchor not found: hash-envelope helpers (rules:%v digest:%v setter:%v accessor:%v)", e.rules != nil, e.digest != nil, e.setter != nil, e.hashAcc != nil)
	}
	return e
}

func runC12(r *Report, tier string) {
	P := r.P
	r.rule("R12.1", "producer pipeline: success of SignHashEnvelope implies ok(digest-length check(payload.HashAlgorithm, payload.HashValue)) and ok(envelope rules(&headers)) evaluated on the very Headers value that is then handed, together with payload.HashValue and no external data, to the tagged Sign1 helper; headers.Protected is the setter's result: a fresh map (clone or make) into which 258 <- payload.HashAlgorithm is put on every path, 259 <- PreimageContentType exactly when non-nil, 260 <- Location exactly when non-empty, with no later write to that map.")
	r.rule("R12.2", "the write set of the SignHashEnvelope call tree on memory that existed before the call is empty (the algorithm injection of the signing path lands in the fresh clone).")
	r.rule("R12.3", "what is validated is what is emitted: both raw header fields of the Headers handed to Sign1 are the nil constant.")
	r.rule("R12.4", "rule table of the envelope rule function: protected: 3 never accepted; 258 accepted only as Algorithm|int and only then is the 'found' flag set, which success requires; 259 uint|tstr; 260 tstr; unprotected: 3, 258, 259, 260 never accepted; labels are normalised before comparison; one function serves producer and verifier.")
	r.rule("R12.5", "verifier pipeline: VerifyHashEnvelope returns a non-nil message only under ok(tagged Sign1 decode(envelope)), ok(rules(&message.Headers)), ok(message.Verify(nil, caller's verifier)), ok(typed hash-algorithm accessor) and ok(digest-length check(that algorithm, message.Payload)); every other exit returns the nil message; the returned message is the decoded local.")
	r.rule("R12.6", "digest-length check: success only for an unknown algorithm (hash id 0) or hash.Size() == len(value); the algorithm->hash table maps SHA-256/384/512 (and the PS/ES families) to SHA256/SHA384/SHA512 and everything else to 0.")
	r.assumes("the Sign1 helper and Sign1Message.Verify obey C01-C04/C20 (checked there)", "maps.Clone returns a fresh map (shallow)")

	// the three hash-envelope labels are the registered numbers
	for n, v := range map[string]int64{"HeaderLabelPayloadHashAlgorithm": 258, "HeaderLabelPayloadPreimageContentType": 259, "HeaderLabelPayloadLocation": 260, "HeaderLabelContentType": 3} {
		got, ok := P.constVal(n)
		r.ob("R12.4", "const:"+n, nil, nil, fmt.Sprintf("%s == %d (IANA COSE header parameters)", n, v)).check(ok && got == v, itoa(got), fmt.Sprintf("%s = %d, the registered value is %d", n, got, v))
	}
	E := P.envelopeRoles()
	r.analysed(E.sign, E.verify, E.rules, E.digest, E.hashAcc)
	if E.setter != nil {
		r.analysed(E.setter)
	}
	sign1 := P.mustFn("Sign1")

	// R12.1 / R12.3 -----------------------------------------------------------
	setterMissing := false
	nsx := 0
	for _, x := range P.factsOf(E.sign).exits {
		if x.kind == exitFailure {
			continue
		}
		nsx++
		id := shortFn(E.sign) + ":exit:" + exitID(P, E.sign, x)
		o := r.ob("R12.1", id+":delegated", E.sign, x.ret, "success is the tagged Sign1 helper's verdict on (rand, signer, headers, payload.HashValue, nil)")
		c := delegCall(x.errTerm)
		if !x.delegated || c == nil || c.S != shortFn(sign1) || len(c.Args) != 5 {
			o.fail("success exit is not delegated to " + shortFn(sign1) + ": " + x.errTerm.String())
			continue
		}
		okArgs := c.Args[0].String() == "$0" && c.Args[1].String() == "$1" && c.Args[3].String() == "$3.HashValue" && c.Args[4].Op == "nil"
		o.check(okArgs && pairDelegated(x.results[0], x.results[1]), "Sign1($0, $1, headers, $3.HashValue, nil), pair returned unchanged", "arguments are "+c.String())
		hdr := c.Args[2]
		// R12.3
		for _, f := range []string{"RawProtected", "RawUnprotected"} {
			v := projectField(hdr, f)
			r.ob("R12.3", id+":"+f+"-nil", E.sign, x.ret, "Headers."+f+" handed to Sign1 is the nil constant").check(v.Op == "nil" || v.Op == "zero", f+" = nil", "Headers."+f+" handed to Sign1 is "+v.String()+": caller-supplied raw bytes would be emitted without having been validated")
		}
		// protected map is the setter's result on ($2.Protected, &payload)
		pv := projectField(hdr, "Protected")
		op := r.ob("R12.1", id+":protected-from-setter", E.sign, x.ret, "Headers.Protected handed to Sign1 is the setter's result over the caller's protected map and the payload")
		if E.setter == nil {
			// no setter function: the map must at least be a fresh one; whether
			// it carries 258/259/260 as required cannot be read off a setter
			var nonFresh []string
			for _, l := range P.effects.originsOf(pv, nil, 0) {
				if l.Kind != "fresh" {
					nonFresh = append(nonFresh, l.String())
				}
			}
			if len(nonFresh) > 0 {
				op.fail("the protected map handed to Sign1 is not a fresh map: it may be the caller's (" + strings.Join(nonFresh, ", ") + "): " + truncate(pv.String(), 160))
			} else {
				setterMissing = true
			}
		} else {
			_, bi := setterRoles(E.setter)
			okP := pv.Op == "call" && pv.S == shortFn(E.setter) && len(pv.Args) == 2 && bi >= 0 && pv.Args[bi].String() == "$2.Protected"
			op.check(okP, pv.String(), "Headers.Protected = "+pv.String())
		}
		uv := projectField(hdr, "Unprotected")
		r.ob("R12.1", id+":unprotected-untouched", E.sign, x.ret, "Headers.Unprotected handed to Sign1 is the caller's map (validated below)").check(uv.String() == "$2.Unprotected", uv.String(), "Headers.Unprotected = "+uv.String())
		// facts: digest check and rules on the same headers value
		fs := exitFacts(P, x)
		miss, _ := fs.firstMissing([]factPat{fp(okp("call<" + shortFn(E.digest) + ">($3.HashAlgorithm, $3.HashValue)"))}, nil)
		r.ob("R12.1", id+":digest-length", E.sign, x.ret, "ok(digest-length check(payload.HashAlgorithm, payload.HashValue))").check(miss == "", "fact present", "missing "+miss)
		// the rules call and the value of headers at that call
		var rulesCall ssa.CallInstruction
		for _, ci := range callsIn(E.sign, nil) {
			if staticCallee(ci) == E.rules {
				rulesCall = ci
			}
		}
		orl := r.ob("R12.1", id+":rules-on-same-headers", E.sign, x.ret, "ok(envelope rules) on the Headers value that is handed to Sign1")
		if rulesCall == nil {
			orl.fail("the envelope rule function is not called")
		} else {
			root, path := P.terms.pointerRoot(rulesCall.Common().Args[0])
			okFact := len(fs.matchAll([]factPat{fp(okp("call<" + shortFn(E.rules) + ">(%H)"))}, nil)) > 0
			same := false
			var at *Term
			if root != nil {
				at = P.terms.loadPath(root, path, rulesCall)
				same = at.eq(hdr)
			}
			orl.check(okFact && same, "rules(&headers) succeeded with headers == the value given to Sign1", fmt.Sprintf("ok(rules) on the exit: %v; headers at the rules call equal the value given to Sign1: %v (%v vs %v)", okFact, same, at, hdr))
		}
	}
	r.floor("R12.1", nsx, 1, "success exits of SignHashEnvelope")
	if E.setter != nil {
		c12Setter(r, E)
	}
	defer func() {
		if setterMissing {
			undecidedf("anchor not found: the function that builds the envelope's protected map (258/259/260 placement cannot be decided)")
		}
	}()

	// R12.2 ------------------------------------------------------------------
	{
		s := P.effects.summary(E.sign)
		r.ob("R12.2", shortFn(E.sign)+":writes", E.sign, nil, "SignHashEnvelope writes nothing that existed before the call").check(len(s.writes) == 0, "empty write set", "writes "+writeList(s.writes, P))
	}

	// R12.4 ------------------------------------------------------------------
	c12RuleTable(r, E)

	// R12.5 ------------------------------------------------------------------
	nvx := 0
	for _, x := range P.factsOf(E.verify).exits {
		id := shortFn(E.verify) + ":exit:" + exitID(P, E.verify, x)
		if x.kind == exitFailure {
			r.ob("R12.5", id+":nil-message", E.verify, x.ret, "a failing exit returns the nil message").check(x.results[0].Op == "nil", "nil message", "a failure exit returns "+x.results[0].String())
			continue
		}
		nvx++
		o := r.ob("R12.5", id+":pipeline", E.verify, x.ret, "a returned message has passed decode, rules, Verify(nil, verifier), the typed accessor and the digest-length check")
		msg := x.results[0]
		fs := exitFacts(P, x)
		dec := P.methodOf(P.mustNamed("Sign1Message"), "UnmarshalCBOR")
		ver := P.methodOf(P.mustNamed("Sign1Message"), "Verify")
		after := "mod(call<" + shortFn(dec) + ">(%MSG, $1), %MSG)"
		scan := []*ssa.Function{E.verify}
		// the decoded local may be the one of a prologue helper (decode +
		// rules extracted): every success exit of that helper returns the same
		// fresh message, whose facts the summary has carried into this function
		if msg.Op == "res" && msg.S == "0" && len(msg.Args) == 1 && msg.Args[0].Op == "call" {
			if h := P.calleeOfTerm(msg.Args[0]); h != nil && P.inPkg(h) && h.Blocks != nil && h != E.verify {
				var M *Term
				same := true
				for _, hx := range P.factsOf(h).exits {
					if hx.kind == exitFailure {
						continue
					}
					if r0 := hx.results[0]; r0.Op != "alloc" || (M != nil && !M.eq(r0)) {
						same = false
					} else {
						M = r0
					}
				}
				if same && M != nil {
					old := msg
					nf := factSet{}
					for _, f := range fs {
						nf.add(Fact{f.Pred.rewrite(func(t *Term) *Term {
							if t.eq(old) {
								return M
							}
							return nil
						}), f.Val})
					}
					fs, msg, after = nf, M, "*%MSG"
					scan = append(scan, h)
				}
			}
		}
		if msg.Op != "alloc" {
			o.fail("the returned message is " + msg.String() + ", not the decoded local")
			continue
		}
		b0 := bindings{"MSG": msg}
		miss, _ := fs.firstMissing([]factPat{
			fp(okp("call<" + shortFn(dec) + ">(%MSG, $1)")),
			fp(okp("call<" + shortFn(E.rules) + ">(%MSG.Headers)")),
			fp(okp("call<" + shortFn(ver) + ">(%MSG, nil, $0)")),
			fp("binop<==>(nil, res<1>(call<" + shortFn(E.hashAcc) + ">(" + after + ".Headers.Protected)))"),
			fp(okp("call<" + shortFn(E.digest) + ">(res<0>(call<" + shortFn(E.hashAcc) + ">(" + after + ".Headers.Protected)), " + after + ".Payload)")),
		}, b0)
		o.check(miss == "" && x.results[1].Op == "nil", "all five facts on the returned message", "missing on a success exit: "+miss)
		// nothing rewrites payload/signature/raw headers of the message after decoding
		var bad []string
		for _, sf := range scan {
			for _, b := range sf.Blocks {
				for _, in := range b.Instrs {
					if st, ok := in.(*ssa.Store); ok {
						root, path := P.terms.addrPath(st.Addr)
						if a, ok := root.(*ssa.Alloc); ok && P.terms.of(a).eq(msg) {
							bad = append(bad, strings.Join(path, "."))
						}
						if sf == E.verify && len(scan) > 1 && P.terms.of(root).eq(x.results[0]) {
							bad = append(bad, strings.Join(path, "."))
						}
					}
				}
			}
		}
		r.ob("R12.5", id+":message-fields-untouched", E.verify, x.ret, "no field of the decoded message is overwritten by the verifier pipeline").check(len(bad) == 0, "no store into the message", "stores into message fields: "+strings.Join(bad, ", "))
	}
	r.floor("R12.5", nvx, 1, "success exits of VerifyHashEnvelope")

	// R12.6 ------------------------------------------------------------------
	{
		np := 0
		for _, p := range P.allPaths(E.digest) {
			if !p.feasible() {
				continue
			}
			fs := factSet{}
			for _, c := range p.conds {
				fs.add(c)
			}
			if k, _ := P.classifyErr(p.results()[0], fs); k == exitFailure {
				continue
			}
			np++
			o := r.ob("R12.6", shortFn(E.digest)+":path:"+pathID(p), E.digest, p.ret, "digest-length check succeeds only for hash id 0 or Size() == len(value)")
			unknown := len(fs.matchAll([]factPat{fp("binop<==>(call<%>($0), 0)")}, nil)) > 0
			sizeOK := len(fs.matchAll([]factPat{fp("binop<==>(call<(crypto.Hash).Size>(call<%>($0)), len($1))")}, nil)) > 0
			extra := len(p.conds) > 2
			o.check((unknown || sizeOK) && !extra, fmt.Sprintf("unknown:%v size-equal:%v", unknown, sizeOK), fmt.Sprintf("a success path is neither 'hash id == 0' nor 'Size() == len(value)' alone (unknown:%v size-equal:%v, %d conditions)", unknown, sizeOK, len(p.conds)))
		}
		r.floor("R12.6", np, 2, "success paths of the digest-length check")
		checkHashTable(r, "R12.6")
	}
	// "which VerifyHashEnvelope accepts": what the producer's encoders let
	// through must not be refused by the decode side's configuration
	r.rule("R08.6", "(shared with C08) the unprotected-bucket encoder refuses values that encode to CBOR tags at any depth (the envelope decode mode forbids them).")
	checkUnprotectedEncoderTagFree(r, "R08.6")
	r.rule("R07.3", "(shared with C07) the decode modes set no element/nesting/pair limit below the library default: the encoder has no matching bound.")
	checkDecoderLimits(r, "R07.3")
	// "returning exactly those values": the header maps of the returned message
	// are the decoder's own, validated ones
	r.rule("R05.5", "(shared with C05) the bucket decoders store the map they decoded and validated on this call.")
	c05Buckets(r, "R05.5")
}

// checkHashTable: the algorithm -> crypto.Hash table (shared with C17).
func checkHashTable(r *Report, rule string) {
	P := r.P
	hf := P.hashTableFunc()
	tab, why := P.constTable(hf, 0, 0)
	o := r.ob(rule, shortFn(hf)+":table", hf, nil, "algorithm->hash table is {PS256,ES256,SHA-256: SHA256; ...384: SHA384; ...512: SHA512; else 0}")
	if tab == nil {
		o.fail("cannot lower to a table: " + why)
		return
	}
	want := map[string]string{"default": "0"}
	for _, g := range []struct {
		names []string
		hash  string
	}{{[]string{"AlgorithmPS256", "AlgorithmES256", "AlgorithmSHA256"}, "5"}, {[]string{"AlgorithmPS384", "AlgorithmES384", "AlgorithmSHA384"}, "6"}, {[]string{"AlgorithmPS512", "AlgorithmES512", "AlgorithmSHA512"}, "7"}} {
		for _, n := range g.names {
			want[itoa(P.mustConst(n))] = g.hash
		}
	}
	var diff []string
	for k, v := range want {
		if tab[k] != v {
			diff = append(diff, fmt.Sprintf("%s -> %s (expected %s)", k, tab[k], v))
		}
	}
	for k, v := range tab {
		if _, ok := want[k]; !ok && v != "0" {
			diff = append(diff, fmt.Sprintf("unexpected case %s -> %s", k, v))
		}
	}
	sort.Strings(diff)
	o.check(len(diff) == 0, fmt.Sprintf("%d cases + default", len(tab)-1), strings.Join(diff, "; "))
}

// c12Setter: the protected-header setter (R12.1).
func c12Setter(r *Report, E *envRoles) {
	P := r.P
	fn := E.setter
	// the payload and the base map by type, whatever their position (the
	// setter may be a method of the payload)
	pi, bi := setterRoles(fn)
	if pi < 0 {
		undecidedf("anchor not found: payload parameter of the hash-envelope header setter")
	}
	PP := "$" + itoa(int64(pi))
	_ = bi
	l258, l259, l260 := P.mustConst("HeaderLabelPayloadHashAlgorithm"), P.mustConst("HeaderLabelPayloadPreimageContentType"), P.mustConst("HeaderLabelPayloadLocation")
	np := 0
	for _, p := range P.allPaths(fn) {
		if !p.feasible() {
			continue
		}
		np++
		res := p.results()[0]
		o := r.ob("R12.1", shortFn(fn)+":path:"+pathID(p), fn, p.ret, "setter returns a fresh map with 258 always, 259/260 exactly when given, nothing written afterwards")
		var bad []string
		for _, l := range P.effects.originsOf(res, nil, 0) {
			if l.Kind != "fresh" {
				bad = append(bad, l.String())
			}
		}
		if len(bad) > 0 {
			o.fail("the returned map may be the caller's: origins " + strings.Join(bad, ", "))
			continue
		}
		puts := map[int64]*Term{}
		why := ""
		seenPut := false
		p.instrs(func(in ssa.Instruction) {
			switch in := in.(type) {
			case *ssa.MapUpdate:
				mt := p.eng.of(in.Map)
				if !mt.eq(res) {
					why = "a map other than the result is written: " + mt.String()
					return
				}
				k := p.eng.of(in.Key)
				if k.Op == "iface" {
					k = k.Args[0]
				}
				n, ok := termConstInt(k)
				if !ok {
					why = "put under a non-constant label " + k.String()
					return
				}
				v := p.eng.of(in.Value)
				if v.Op == "iface" {
					v = v.Args[0]
				}
				puts[n] = v
				seenPut = true
			case ssa.CallInstruction:
				if seenPut {
					for _, l := range writesOf(P, in) {
						why = "after the puts the map may be overwritten by " + calleeName(in.Common()) + " (" + l.String() + ")"
					}
					c := in.Common()
					if sc := c.StaticCallee(); sc != nil && !P.inPkg(sc) {
						if ct, ok := lookupContract(sc); ok {
							for _, wi := range ct.writes {
								if wi < len(c.Args) && p.eng.of(c.Args[wi]).eq(res) {
									why = "after the puts the map is written by " + shortFn(sc) + " (entries of the base map would replace the envelope's own)"
								}
							}
						}
						if _, ok := lookupContract(sc); !ok {
							for _, a := range c.Args {
								if p.eng.of(a).eq(res) {
									why = "after the puts the map is handed to " + shortFn(sc)
								}
							}
						}
					}
				}
			}
		})
		// the payload is a pointer or a value parameter
		isField := func(v *Term, f string) bool {
			return v != nil && (v.String() == "*"+PP+"."+f || v.String() == PP+"."+f)
		}
		if why == "" {
			if v, ok := puts[l258]; !ok || !isField(v, "HashAlgorithm") {
				why = fmt.Sprintf("label 258 is not set to payload.HashAlgorithm on this path (%v)", v)
			}
		}
		hasCond := func(pat string, val bool) bool {
			for _, c := range p.conds {
				if c.Val == val {
					if _, ok := unify(mustPat(pat), c.Pred, bindings{}); ok {
						return true
					}
				}
			}
			return false
		}
		if why == "" {
			v, put := puts[l259]
			given := hasCond("binop<==>(*"+PP+".PreimageContentType, nil)", false) || hasCond("binop<==>("+PP+".PreimageContentType, nil)", false)
			switch {
			case put != given:
				why = fmt.Sprintf("label 259 put:%v but content type non-nil on this path:%v", put, given)
			case put && !isField(v, "PreimageContentType"):
				why = "label 259 is set to " + v.String()
			}
		}
		if why == "" {
			v, put := puts[l260]
			given := hasCond("binop<==>(*"+PP+".Location, \"\")", false) || hasCond("binop<==>("+PP+".Location, \"\")", false)
			{
				pfs := factSet{}
				for _, c := range p.conds {
					pfs.add(c)
				}
				if pfs.holdsNonEmpty(mustPat("*"+PP+".Location")) || pfs.holdsNonEmpty(mustPat(PP+".Location")) {
					given = true
				}
			}
			switch {
			case put != given:
				why = fmt.Sprintf("label 260 put:%v but location non-empty on this path:%v", put, given)
			case put && !isField(v, "Location"):
				why = "label 260 is set to " + v.String()
			}
		}
		// a manual copy of the base map (non-constant keys) must be complete before the governed labels are put
		for _, bb := range fn.Blocks {
			for _, in := range bb.Instrs {
				mu, ok := in.(*ssa.MapUpdate)
				if !ok || !P.terms.of(mu.Map).eq(res) {
					continue
				}
				k := P.terms.of(mu.Key)
				if k.Op == "iface" {
					k = k.Args[0]
				}
				if _, isConst := termConstInt(k); isConst {
					continue
				}
				var L *loopInfo
				for _, l := range findLoops(fn) {
					if l.blocks[bb] {
						L = l
					}
				}
				okOrder := L != nil && L.exit != nil
				if okOrder {
					for _, b2 := range fn.Blocks {
						for _, in2 := range b2.Instrs {
							if mu2, ok := in2.(*ssa.MapUpdate); ok && P.terms.of(mu2.Map).eq(res) {
								k2 := P.terms.of(mu2.Key)
								if k2.Op == "iface" {
									k2 = k2.Args[0]
								}
								if _, c2 := termConstInt(k2); c2 && !(L.exit == b2 || L.exit.Dominates(b2)) {
									okOrder = false
								}
							}
						}
					}
				}
				if !okOrder && why == "" {
					why = "entries with non-constant labels are written into the result at " + P.instrPos(mu) + " not provably before the governed labels are set"
				}
			}
		}
		for k := range puts {
			if k != l258 && k != l259 && k != l260 {
				why = fmt.Sprintf("unexpected label %d is set", k)
			}
		}
		o.check(why == "", fmt.Sprintf("fresh map; puts %v", keysOf(puts)), why)
	}
	r.floorSoft("R12.1", np, 4, "paths of the setter")
}

func keysOf(m map[int64]*Term) []int64 {
	var ks []int64
	for k := range m {
		ks = append(ks, k)
	}
	sort.Slice(ks, func(i, j int) bool { return ks[i] < ks[j] })
	return ks
}

// c12RuleTable: R12.4.
func c12RuleTable(r *Report, E *envRoles) {
	P := r.P
	fn := E.rules
	norm := P.labelNormalizer()
	classes := map[string]string{}
	for _, pc := range P.valuePredicates() {
		if pc.class != "" {
			classes[shortFn(pc.fn)] = pc.class
		}
	}
	type loopRole struct {
		L      *loopInfo
		bucket string
		host   *ssa.Function
	}
	var loops []loopRole
	rules := fn
	type cand struct {
		f *ssa.Function
		m map[string]*Term
	}
	cands := []cand{{fn, nil}}
	for _, ci := range callsIn(fn, nil) {
		if g := staticCallee(ci); g != nil && P.inPkg(g) && g != norm {
			m := map[string]*Term{}
			for i, a := range ci.Common().Args {
				m[itoa(int64(i))] = P.terms.of(a)
			}
			cands = append(cands, cand{g, m})
		}
	}
	for _, c := range cands {
		for _, l := range findLoops(c.f) {
			if l.kind != "map-range" || l.over == nil {
				continue
			}
			ot := P.terms.of(l.over)
			if c.m != nil {
				ot = ot.subst(c.m)
			}
			switch ot.String() {
			case "*$0.Protected":
				loops = append(loops, loopRole{l, "protected", c.f})
			case "*$0.Unprotected":
				loops = append(loops, loopRole{l, "unprotected", c.f})
			}
		}
	}
	// when a bucket's loop lives in a helper, the rule function must succeed only under that helper's success
	for _, lr := range loops {
		if lr.host == rules {
			continue
		}
		okAll := true
		for _, x := range P.factsOf(rules).exits {
			if x.kind == exitFailure {
				continue
			}
			fs := exitFacts(P, x)
			if len(fs.findOK(func(call *Term) bool { return call.S == shortFn(lr.host) })) == 0 {
				okAll = false
			}
		}
		r.ob("R12.4", shortFn(rules)+":requires:"+shortFn(lr.host), rules, nil, "the rule function succeeds only if its per-bucket helper succeeded").check(okAll, "ok("+shortFn(lr.host)+") on every success exit", "a success exit of "+shortFn(rules)+" lacks ok("+shortFn(lr.host)+")")
	}
	r.ob("R12.4", shortFn(fn)+":loops", fn, nil, "the rule function ranges over both buckets of its Headers").check(len(loops) == 2, "two range loops", fmt.Sprintf("%d range loops over the Headers' buckets", len(loops)))
	labelOf := func(p *Path) (int64, bool, bool) {
		n := 0
		for _, c := range p.conds {
			if c.Pred.Op != "binop" || c.Pred.S != "==" {
				continue
			}
			for i := 0; i < 2; i++ {
				o := c.Pred.Args[1-i]
				if o.Op == "iface" {
					o = o.Args[0]
				}
				k, ok := termConstInt(o)
				if !ok || !strings.Contains(c.Pred.Args[i].String(), "call<"+shortFn(norm)+">") {
					continue
				}
				n++
				if c.Val {
					return k, true, true
				}
			}
		}
		return 0, false, n > 0
	}
	l3, l258, l259, l260 := P.mustConst("HeaderLabelContentType"), P.mustConst("HeaderLabelPayloadHashAlgorithm"), P.mustConst("HeaderLabelPayloadPreimageContentType"), P.mustConst("HeaderLabelPayloadLocation")
	for _, lr := range loops {
		L := lr.L
		fn := lr.host
		// the loop-carried "found" flag (protected loop only)
		var found *ssa.Phi
		for _, in := range L.header.Instrs {
			if ph, ok := in.(*ssa.Phi); ok {
				if b, ok := ph.Type().Underlying().(interface{ Kind() int }); ok {
					_ = b
				}
				if ph.Type().String() == "bool" {
					found = ph
				}
			}
		}
		V := mustPat("res<2>(next(range(" + P.terms.of(L.over).String() + ")))")
		seen := map[int64]bool{}
		// which label constants does this loop compare the normalised label with?
		compared := map[int64]bool{}
		views := P.bodyViews(fn, L)
		tableHit := map[*Path][]int64{}
		for _, p := range views {
			for _, c := range p.conds {
				if keys, ok := P.tableKeysTested(c, norm); ok {
					for _, k := range keys {
						compared[k] = true
					}
					if c.Val {
						tableHit[p] = keys
					}
				}
				if c.Pred.Op != "binop" || c.Pred.S != "==" {
					continue
				}
				for i := 0; i < 2; i++ {
					o := c.Pred.Args[1-i]
					if o.Op == "iface" {
						o = o.Args[0]
					}
					if k, ok := termConstInt(o); ok && strings.Contains(c.Pred.Args[i].String(), "call<"+shortFn(norm)+">") {
						compared[k] = true
					}
				}
			}
		}
		need := []int64{l3}
		if lr.bucket == "unprotected" {
			need = []int64{l3, l258, l259, l260}
		}
		for _, k := range need {
			r.ob("R12.4", fmt.Sprintf("%s:%s:%d:refusing-arm", shortFn(fn), lr.bucket, k), fn, nil, fmt.Sprintf("label %d has a refusing arm in the %s bucket", k, lr.bucket)).check(compared[k], "label is compared and (below) never accepted", fmt.Sprintf("the %s loop never compares the label with %d: such an entry is accepted", lr.bucket, k))
		}
		for _, p := range views {
			if p.ret != nil {
				continue // returns from the body are failures (checked below)
			}
			r.paths++
			lbl, known, compared := labelOf(p)
			if keys, hit := tableHit[p]; hit {
				// the label is one of the table's keys and the entry is passed over
				for _, k := range keys {
					for _, nk := range need {
						if k == nk {
							r.ob("R12.4", fmt.Sprintf("%s:%s:%d", shortFn(fn), lr.bucket, k), fn, nil, fmt.Sprintf("label %d is never accepted in the %s bucket", k, lr.bucket)).fail("an entry found in the refusal table can be passed over without an error")
						}
					}
				}
				compared = true
			}
			if _, tested := func() ([]int64, bool) {
				for _, c := range p.conds {
					if ks, ok := P.tableKeysTested(c, norm); ok {
						return ks, true
					}
				}
				return nil, false
			}(); tested {
				compared = true
			}
			normOK := false
			for _, c := range p.conds {
				if c.Val && c.Pred.Op == "res" && c.Pred.S == "1" && c.Pred.Args[0].Op == "call" && c.Pred.Args[0].S == shortFn(norm) {
					normOK = true
				}
			}
			id := fmt.Sprintf("%s:%s:path:%s", shortFn(fn), lr.bucket, pathID(p))
			if !normOK || !compared {
				r.ob("R12.4", id+":normalised", fn, nil, "labels are normalised before they are compared").fail("an entry is passed over without a successful label normalisation / comparison")
				continue
			}
			predTrue := func(class string) bool {
				for _, c := range p.conds {
					if name, arg := P.predCallOf(c.Pred); c.Val && arg != nil && classes[name] == class && arg.eq(V) {
						return true
					}
				}
				return false
			}
			isAlg := p.has(Fact{&Term{Op: "res", S: "1", Args: []*Term{{Op: "typeassert", S: "Algorithm,ok", Args: []*Term{V}}}}, true})
			// value carried into the next iteration by the found flag
			carried := ""
			if found != nil {
				last := p.blocks[len(p.blocks)-1]
				for i, pr := range L.header.Preds {
					if pr == last {
						carried = p.eng.of(found.Edges[i]).String()
					}
				}
			}
			if known {
				seen[lbl] = true
			}
			switch {
			case lr.bucket == "unprotected" && known && (lbl == l3 || lbl == l258 || lbl == l259 || lbl == l260):
				r.ob("R12.4", fmt.Sprintf("%s:unprotected:%d", shortFn(fn), lbl), fn, nil, fmt.Sprintf("label %d is never accepted in the unprotected bucket", lbl)).fail("an entry with this label can be passed over without an error")
			case lr.bucket == "protected" && known && lbl == l3:
				r.ob("R12.4", shortFn(fn)+":protected:3", fn, nil, "content type (3) is never accepted in the protected bucket").fail("an entry with label 3 can be passed over without an error")
			case lr.bucket == "protected" && known && lbl == l258:
				o := r.ob("R12.4", id+":258", fn, nil, "258 accepted only as Algorithm|int, and then the found flag is set")
				o.check((isAlg || predTrue("int")) && carried == "true", "typed and found=true", fmt.Sprintf("typed (Algorithm|int): %v; found flag carried: %q", isAlg || predTrue("int"), carried))
			case lr.bucket == "protected" && known && lbl == l259:
				r.ob("R12.4", id+":259", fn, nil, "259 accepted only as uint|tstr").check(predTrue("uint") || predTrue("tstr"), "uint|tstr", "label 259 accepted without the uint/tstr test")
			case lr.bucket == "protected" && known && lbl == l260:
				r.ob("R12.4", id+":260", fn, nil, "260 accepted only as tstr").check(predTrue("tstr"), "tstr", "label 260 accepted without the tstr test")
			}
			if lr.bucket == "protected" && !(known && lbl == l258) && found != nil && carried == "true" {
				r.ob("R12.4", id+":found-only-258", fn, nil, "the found flag is set only by a typed label 258").fail("the found flag becomes true on a path that is not the label-258 arm")
			}
		}
		if lr.bucket == "protected" {
			for _, k := range []int64{l258, l259, l260} {
				if !seen[k] {
					r.ob("R12.4", fmt.Sprintf("%s:protected:%d:arm", shortFn(fn), k), fn, nil, fmt.Sprintf("label %d has a typed arm", k)).fail("no accepting path specific to this label: its value is unconstrained")
				}
			}
			// success requires found
			o := r.ob("R12.4", shortFn(fn)+":found-required", fn, nil, "success requires the found flag, which starts false")
			okReq := false
			if found != nil {
				ft := P.terms.of(found)
				for _, x := range P.factsOf(fn).exits {
					if x.kind != exitFailure && x.facts.has(Fact{ft, true}) {
						okReq = true
					}
					if x.kind != exitFailure && !x.facts.has(Fact{ft, true}) {
						okReq = false
						break
					}
				}
				init := false
				for i, pr := range L.header.Preds {
					if !L.blocks[pr] {
						if c, ok := found.Edges[i].(*ssa.Const); ok && c.Value != nil && c.Value.String() == "false" {
							init = true
						}
					}
				}
				okReq = okReq && init
			}
			o.check(okReq, "every success exit holds found == true; found starts false", "success is reachable without the payload-hash-algorithm label having been found (or the flag does not start false)")
		}
	}
	// one function for producer and verifier: by role discovery (called by both)
	r.ob("R12.4", shortFn(fn)+":shared", fn, nil, "producer and verifier call the same rule function").ok("called by both "+shortFn(E.sign)+" and "+shortFn(E.verify), false)
}

// bodyViews: the paths through a loop body with their conditions expanded
// through the helpers whose outcome they test (one view per combination of
// helper paths) and their terms expanded, so that a label normalised or
// compared inside a helper reads like the inline code.
func (P *Prog) bodyViews(fn *ssa.Function, L *loopInfo) []*Path {
	var out []*Path
	// the rules' own vocabulary stays unexpanded
	vocab := map[*ssa.Function]bool{P.labelNormalizer(): true}
	for _, pc := range P.valuePredicates() {
		vocab[pc.fn] = true
	}
	keep := func(f *ssa.Function) bool { return vocab[f] }
	for _, p := range P.enumPaths(fn, L.body, func(b *ssa.BasicBlock) bool { return b == L.header }, false) {
		if !p.feasible() {
			continue
		}
		for _, alt := range P.expandCondsF(p.conds, 0, keep) {
			q := *p
			q.conds = nil
			for _, c := range alt {
				q.conds = append(q.conds, c)
				if c.Pred.contains(func(u *Term) bool { return u.Op == "call" && P.calleeOfTerm(u) != nil }) {
					if e := normFact(P.terms.expand(c.Pred, 1), c.Val); e.String() != c.String() {
						q.conds = append(q.conds, e)
					}
				}
			}
			if q.feasible() {
				out = append(out, &q)
			}
		}
	}
	return out
}

// tableKeysTested: the condition is a lookup of the normalised label in a
// constant package-level map: returns the map's integer keys.
func (P *Prog) tableKeysTested(c Fact, norm *ssa.Function) ([]int64, bool) {
	t := c.Pred
	if !(t.Op == "res" && t.S == "1" && len(t.Args) == 1 && t.Args[0].Op == "lookup" && len(t.Args[0].Args) == 2) {
		return nil, false
	}
	lk := t.Args[0]
	if !(lk.Args[0].Op == "load" && lk.Args[0].Args[0].Op == "global") || !strings.Contains(lk.Args[1].String(), "call<"+shortFn(norm)+">") {
		return nil, false
	}
	tab, ok := P.constGlobalMap(lk.Args[0].Args[0].S)
	if !ok {
		return nil, false
	}
	var keys []int64
	for k := range tab {
		n, isInt := termConstInt(T("const", k))
		if !isInt {
			return nil, false
		}
		keys = append(keys, n)
	}
	return keys, true
}

func mutC12() []mutant {
	return []mutant{
		{Name: "D3 re-created: raw unprotected bytes survive into Sign1", File: "hash_envelope.go", Quick: true, Rule: "R12.3",
			Old: "\theaders.RawUnprotected = nil // emit the validated map, not caller-supplied raw bytes\n", New: ""},
		{Name: "setter writes through to the caller's map", File: "hash_envelope.go", Quick: true, Rule: "R12.1",
			Old: "\theader := maps.Clone(base)\n", New: "\theader := base\n\t_ = maps.Clone[ProtectedHeader]\n"},
		{Name: "259 written unconditionally", File: "hash_envelope.go", Rule: "R12.1",
			Old: "\tif payload.PreimageContentType != nil {\n\t\theader[HeaderLabelPayloadPreimageContentType] = payload.PreimageContentType\n\t}", New: "\theader[HeaderLabelPayloadPreimageContentType] = payload.PreimageContentType"},
		{Name: "RawProtected no longer cleared", File: "hash_envelope.go", Rule: "R12.3",
			Old: "\theaders.RawProtected = nil\n", New: ""},
		{Name: "rules checked before the protected header is set", File: "hash_envelope.go", Rule: "R12.1",
			Old: "\theaders.Protected = setHashEnvelopeProtectedHeader(headers.Protected, &payload)\n\theaders.RawProtected = nil\n\theaders.RawUnprotected = nil // emit the validated map, not caller-supplied raw bytes\n\tif err := validateHashEnvelopeHeaders(&headers); err != nil {\n\t\treturn nil, err\n\t}\n",
			New: "\tprot := setHashEnvelopeProtectedHeader(headers.Protected, &payload)\n\theaders.RawProtected = nil\n\theaders.RawUnprotected = nil // emit the validated map, not caller-supplied raw bytes\n\tcheck := headers\n\tcheck.Protected = prot\n\tif err := validateHashEnvelopeHeaders(&check); err != nil {\n\t\treturn nil, err\n\t}\n\tif len(headers.Unprotected) == 0 {\n\t\theaders.Protected = prot\n\t}\n"},
		{Name: "verifier returns the message although the rules failed", File: "hash_envelope.go", Rule: "R12.5",
			Old: "\tif err := validateHashEnvelopeHeaders(&message.Headers); err != nil {\n\t\treturn nil, err\n\t}\n\n\t// verify the Hash_Envelope object", New: "\tif err := validateHashEnvelopeHeaders(&message.Headers); err != nil && len(message.Payload) == 0 {\n\t\treturn nil, err\n\t}\n\n\t// verify the Hash_Envelope object"},
		{Name: "verifier returns the message with an error", File: "hash_envelope.go", Rule: "R12.5",
			Old: "\tif err := validateHash(hashAlgorithm, message.Payload); err != nil {\n\t\treturn nil, err\n\t}", New: "\tif err := validateHash(hashAlgorithm, message.Payload); err != nil {\n\t\treturn &message, err\n\t}"},
		{Name: "found flag starts true", File: "hash_envelope.go", Rule: "R12.4",
			Old: "\tvar foundPayloadHashAlgorithm bool\n", New: "\tfoundPayloadHashAlgorithm := true\n"},
		{Name: "unprotected 259 no longer refused", File: "hash_envelope.go", Rule: "R12.4",
			Old: "\t\tcase HeaderLabelPayloadPreimageContentType:\n\t\t\treturn errors.New(\"unprotected header parameter: payload preimage content type: not allowed\")\n", New: ""},
		{Name: "258 accepted with any type", File: "hash_envelope.go", Rule: "R12.4",
			Old: "\t\t\tif !isAlg && !canInt(value) {\n\t\t\t\treturn errors.New(\"protected header parameter: payload hash alg: require int type\")\n\t\t\t}\n", New: "\t\t\t_ = isAlg\n"},
		{Name: "digest check only refuses short values", File: "hash_envelope.go", Rule: "R12.6",
			Old: "if size := hash.Size(); size != len(value) {", New: "if size := hash.Size(); size > len(value) {"},
		{Name: "SHA-384 mapped to SHA-512", File: "algorithm.go", Rule: "R12.6",
			Old: "\tcase AlgorithmPS384, AlgorithmES384, AlgorithmSHA384:\n\t\treturn crypto.SHA384", New: "\tcase AlgorithmPS384, AlgorithmES384:\n\t\treturn crypto.SHA384\n\tcase AlgorithmSHA384:\n\t\treturn crypto.SHA512"},
		{Name: "envelope signed with external data", File: "hash_envelope.go", Rule: "R12.1",
			Old: "\treturn Sign1(rand, signer, headers, payload.HashValue, nil)", New: "\treturn Sign1(rand, signer, headers, payload.HashValue, payload.HashValue)"},
	}
}

// checkEnvelopeRawNil: R12.3 alone (shared with C08's closure-under-decoder rule).
func checkEnvelopeRawNil(r *Report, rule string) {
	P := r.P
	E := P.envelopeRoles()
	sign1 := P.mustFn("Sign1")
	for _, x := range P.factsOf(E.sign).exits {
		if x.kind == exitFailure {
			continue
		}
		c := delegCall(x.errTerm)
		id := shortFn(E.sign) + ":exit:" + exitID(P, E.sign, x)
		if c == nil || c.S != shortFn(sign1) || len(c.Args) != 5 {
			r.ob(rule, id+":delegated", E.sign, x.ret, "the envelope producer emits through the Sign1 helper").fail("not delegated to " + shortFn(sign1))
			continue
		}
		for _, f := range []string{"RawProtected", "RawUnprotected"} {
			v := projectField(c.Args[2], f)
			r.ob(rule, id+":"+f+"-nil", E.sign, x.ret, "Headers."+f+" handed to Sign1 is the nil constant (what is emitted is what was validated)").check(v.Op == "nil" || v.Op == "zero", f+" = nil", "Headers."+f+" handed to Sign1 is "+v.String())
		}
	}
}

// hashTableFunc: by role, the method of Algorithm returning a crypto.Hash.
func (P *Prog) hashTableFunc() *ssa.Function {
	for _, fn := range P.Funcs {
		if fn.Signature.Recv() != nil && isNamed(fn.Signature.Recv().Type(), cosePath, "Algorithm") && fn.Signature.Params().Len() == 0 && fn.Signature.Results().Len() == 1 && fn.Signature.Results().At(0).Type().String() == "crypto.Hash" {
			return fn
		}
	}
	undecidedf("anchor not found: Algorithm -> crypto.Hash table")
	return nil
}

// setterRoles: parameter indexes of the hash-envelope header setter by type:
// the payload (HashEnvelopePayload, by value or pointer) and the base map.
func setterRoles(fn *ssa.Function) (payload, base int) {
	payload, base = -1, -1
	for i, p := range fn.Params {
		switch {
		case isNamed(deref(p.Type()), cosePath, "HashEnvelopePayload"):
			payload = i
		case isNamed(p.Type(), cosePath, "ProtectedHeader"):
			base = i
		}
	}
	return
}

package main

// C05 — decoders accept only well-formed COSE of their own type.

import (
	"fmt"
	"go/token"
	"go/types"
	"sort"
	"strconv"
	"strings"

	"golang.org/x/tools/go/ssa"
)

func init() {
	register(&propSpec{id: "C05", title: "decoders accept only well-formed COSE of their own type (repository's share)", run: runC05, mutants: mutC05, design: "DESIGN.md section 3, C05"})
}

// ---------------------------------------------------------------------------
// roles

// headerValidator: the in-package func(map[any]any, bool) error called by the
// protected-bucket encoder.
func (P *Prog) headerValidator() *ssa.Function {
	counts := map[*ssa.Function]int{}
	for _, tn := range []string{"ProtectedHeader", "UnprotectedHeader"} {
		for _, mn := range []string{"MarshalCBOR", "UnmarshalCBOR"} {
			fn := P.methodOf(P.mustNamed(tn), mn)
			if fn == nil {
				continue
			}
			for _, ci := range callsIn(fn, nil) {
				c := staticCallee(ci)
				if c == nil || !P.inPkg(c) || len(c.Params) != 2 || errIndex(c) != 0 || c.Signature.Results().Len() != 1 {
					continue
				}
				if _, ok := c.Params[0].Type().Underlying().(*types.Map); !ok {
					continue
				}
				if b, ok := c.Params[1].Type().Underlying().(*types.Basic); ok && b.Kind() == types.Bool {
					counts[c]++
				}
			}
		}
	}
	var best *ssa.Function
	for f, n := range counts {
		if best == nil || n > counts[best] || (n == counts[best] && f.String() < best.String()) {
			best = f
		}
	}
	if best == nil {
		undecidedf("anchor not found: header validator (func(map[any]any, bool) error called by the bucket (un)marshalers)")
	}
	return best
}

// labelScan: the in-package func([]byte) error that decodes into a map whose
// key type is an in-package type with its own UnmarshalCBOR.
func (P *Prog) labelScan() (*ssa.Function, *types.Named) {
	for _, fn := range P.Funcs {
		if len(fn.Params) != 1 || !isByteSlice(fn.Params[0].Type()) || errIndex(fn) != 0 || fn.Signature.Recv() != nil {
			continue
		}
		for _, ci := range callsIn(fn, nil) {
			c := ci.Common()
			if !(c.IsInvoke() && c.Method.Name() == "Unmarshal" && isCBORMode(c.Value.Type()) && len(c.Args) == 2) {
				continue
			}
			mi, ok := c.Args[1].(*ssa.MakeInterface)
			if !ok {
				continue
			}
			m, ok := deref(mi.X.Type()).Underlying().(*types.Map)
			if !ok {
				continue
			}
			if n, ok := m.Key().(*types.Named); ok && n.Obj().Pkg() != nil && n.Obj().Pkg().Path() == cosePath && P.methodOf(n, "UnmarshalCBOR") != nil {
				return fn, n
			}
		}
	}
	undecidedf("anchor not found: header label scan")
	return nil, nil
}

// bstrNilType: the type of the wire structs' signature slot (the "bstr / nil" type).
func (P *Prog) bstrNilType() *types.Named {
	for _, w := range P.wireStructs() {
		st := w.Underlying().(*types.Struct)
		for i := 0; i < st.NumFields(); i++ {
			if st.Field(i).Name() == "Signature" {
				if n, ok := st.Field(i).Type().(*types.Named); ok {
					return n
				}
			}
		}
	}
	undecidedf("anchor not found: bstr / nil type (type of a wire struct's Signature slot)")
	return nil
}

// ivCheck: func(*Headers) error called both by the encoder-side header
// marshaller and by the decoder-side UnmarshalFromRaw.
func (P *Prog) ivCheck() *ssa.Function {
	h := P.mustNamed("Headers")
	ufr := P.methodOf(h, "UnmarshalFromRaw")
	if ufr == nil {
		undecidedf("anchor not found: Headers.UnmarshalFromRaw")
	}
	isCand := func(c *ssa.Function) bool {
		if c == nil || !P.inPkg(c) || errIndex(c) != 0 || c.Signature.Results().Len() != 1 {
			return false
		}
		// check(h *Headers) or check(protected, unprotected)
		if len(c.Params) == 1 && isNamed(deref(c.Params[0].Type()), cosePath, "Headers") {
			return true
		}
		return len(c.Params) == 2 && isNamed(c.Params[0].Type(), cosePath, "ProtectedHeader") && isNamed(c.Params[1].Type(), cosePath, "UnprotectedHeader")
	}
	// the encoder-side callers' callees
	encSide := map[*ssa.Function]bool{}
	for _, fn := range P.Funcs {
		callsMP := false
		for _, ci := range callsIn(fn, nil) {
			if c := staticCallee(ci); c != nil && c.Name() == "MarshalProtected" {
				callsMP = true
			}
		}
		if !callsMP {
			continue
		}
		for _, ci := range callsIn(fn, nil) {
			if c := staticCallee(ci); isCand(c) {
				encSide[c] = true
			}
		}
	}
	// decoder side: reachable from the structure decoders
	var decSide []*ssa.Function
	for f := range P.decoderFamily() {
		for _, ci := range callsIn(f, nil) {
			if c := staticCallee(ci); isCand(c) {
				decSide = append(decSide, c)
			}
		}
	}
	decSide = uniqFuncs(decSide)
	for _, c := range decSide {
		if encSide[c] {
			return c
		}
	}
	if len(decSide) > 0 {
		return decSide[0]
	}
	var es []*ssa.Function
	for c := range encSide {
		es = append(es, c)
	}
	if es = uniqFuncs(es); len(es) > 0 {
		return es[0]
	}
	undecidedf("anchor not found: cross-bucket IV check")
	return nil
}

// ivOKs: the fact patterns "the cross-bucket IV check succeeded on the
// Headers at pointer pattern H" for either calling convention of the check
// (the buckets being the untouched fields, or the freshly decoded values).
func ivOKs(iv *ssa.Function, H string) []string {
	if len(iv.Params) == 2 {
		dp := "mod(call<invoke:cbor.DecMode.Unmarshal>(%IM1, *" + H + ".RawProtected, iface<*ProtectedHeader>(" + H + ".Protected)), " + H + ").Protected"
		du := "mod(call<invoke:cbor.DecMode.Unmarshal>(%IM2, *" + H + ".RawUnprotected, iface<*UnprotectedHeader>(" + H + ".Unprotected)), " + H + ").Unprotected"
		return []string{
			okp("call<" + shortFn(iv) + ">(*" + H + ".Protected, *" + H + ".Unprotected)"),
			okp("call<" + shortFn(iv) + ">(" + dp + ", " + du + ")"),
		}
	}
	return []string{okp("call<" + shortFn(iv) + ">(" + H + ")")}
}

func tagHead(tag int64) []byte {
	switch {
	case tag < 0:
		return nil
	case tag < 24:
		return []byte{0xc0 | byte(tag)}
	case tag < 256:
		return []byte{0xd8, byte(tag)}
	case tag < 65536:
		return []byte{0xd9, byte(tag >> 8), byte(tag)}
	}
	return []byte{0xda, byte(tag >> 24), byte(tag >> 16), byte(tag >> 8), byte(tag)}
}

// evalByte evaluates a term to a constant byte: a constant, or an element of a
// constant package-level byte slice.
func (P *Prog) evalByte(t *Term) (byte, bool) {
	if n, ok := termConstInt(t); ok && n >= 0 && n < 256 {
		return byte(n), true
	}
	if t.Op == "load" && t.Args[0].Op == "index" {
		ix := t.Args[0]
		if c, ok := P.foldIntG(ix.Args[1]); ok && ix.Args[0].Op == "load" && ix.Args[0].Args[0].Op == "global" {
			if b, ok := P.globalBytes(ix.Args[0].Args[0].S); ok && c >= 0 && int(c) < len(b) {
				return b[c], true
			}
		}
	}
	return 0, false
}

func (P *Prog) evalBytes(t *Term) ([]byte, bool) {
	if t.Op == "load" && t.Args[0].Op == "global" {
		return P.globalBytes(t.Args[0].S)
	}
	return byteArr(t)
}

// prefixEstablished: the facts imply that data starts with the bytes exp:
// bytes.HasPrefix(data, P) with P evaluating to exp, or len(data) >= len(exp)
// together with data[i] == exp[i] for every i.
func (P *Prog) prefixEstablished(fs factSet, data *Term, exp []byte) (bool, string) {
	why := "no prefix fact on the input in the success summary"
	for _, b := range fs.matchAll([]factPat{fp("call<bytes.HasPrefix>(%D, %P)")}, bindings{"D": data}) {
		if bs, ok := P.evalBytes(b["P"]); ok {
			if string(bs) == string(exp) {
				return true, fmt.Sprintf("bytes.HasPrefix(input, % x)", bs)
			}
			why = fmt.Sprintf("prefix checked is % x, expected % x", bs, exp)
		}
	}
	// bytes.Equal(input[:n], prefix) with n == len(prefix) and len(input) >= n
	// (the definition of bytes.HasPrefix written out)
	for _, pat := range []string{"call<bytes.Equal>(slice(%D, %L, %H, _()), %P)", "call<bytes.Equal>(%P, slice(%D, %L, %H, _()))"} {
		for _, b := range fs.matchAll([]factPat{fp(pat)}, bindings{"D": data}) {
			if lo := b["L"]; lo.Op != "_" {
				if n, ok := P.foldIntG(lo); !ok || n != 0 {
					continue
				}
			}
			bs, ok := P.evalBytes(b["P"])
			if !ok {
				continue
			}
			if n, ok := P.foldIntG(b["H"]); !ok || n != int64(len(bs)) {
				continue
			}
			if string(bs) != string(exp) {
				why = fmt.Sprintf("prefix checked is % x, expected % x", bs, exp)
				continue
			}
			if fs.lenLowerBound(data, P.foldIntG) >= int64(len(exp)) {
				return true, fmt.Sprintf("bytes.Equal(input[:%d], % x) with len(input) >= %d", len(bs), bs, len(bs))
			}
			why = "input[:n] compared but the input length is not bounded below"
		}
	}
	// a hand-written prefix predicate
	for _, pr := range P.prefixFacts(fs) {
		if pr[0].eq(data) {
			if bs, ok := P.evalBytes(pr[1]); ok {
				if string(bs) == string(exp) {
					return true, fmt.Sprintf("prefix predicate established input starts with % x", bs)
				}
				why = fmt.Sprintf("prefix checked is % x, expected % x", bs, exp)
			}
		}
	}
	// byte-wise
	got := map[int64]byte{}
	for _, b := range fs.matchAll([]factPat{fp("binop<==>(*index(%D, %I), %X)")}, bindings{"D": data}) {
		i, okI := termConstInt(b["I"])
		v, okV := P.evalByte(b["X"])
		if okI && okV {
			got[i] = v
		}
	}
	if len(got) > 0 {
		all := true
		for i, e := range exp {
			if v, ok := got[int64(i)]; !ok || v != e {
				all = false
				if ok {
					why = fmt.Sprintf("byte %d compared with %#x, expected %#x", i, v, e)
				}
			}
		}
		if all {
			if len(exp) == 1 || fs.lenLowerBound(data, P.foldIntG) >= int64(len(exp)) {
				return true, fmt.Sprintf("input[i] == % x byte by byte", exp)
			}
			why = "bytes compared but the input length is not bounded below"
		}
	}
	return false, why
}

// storedValue: the whole-value store `*recv = V` of a decoder; returns the
// term of V and the root alloc of V when V is a local built in place.
func (P *Prog) receiverStores(fn *ssa.Function) []*ssa.Store {
	var out []*ssa.Store
	seen := map[*ssa.Function]bool{}
	var visit func(f *ssa.Function, depth int)
	derives := func(v ssa.Value, f *ssa.Function) bool {
		for {
			switch x := v.(type) {
			case *ssa.ChangeType:
				v = x.X
				continue
			case *ssa.Call:
				if a, ok := P.identityArg(x); ok {
					v = a
					continue
				}
				return false
			case *ssa.Parameter:
				return paramIndex(x) == 0 && x.Parent() == f
			}
			return false
		}
	}
	visit = func(f *ssa.Function, depth int) {
		if f == nil || seen[f] || !P.inPkg(f) || depth > 4 {
			return
		}
		seen[f] = true
		for _, b := range f.Blocks {
			for _, in := range b.Instrs {
				switch in := in.(type) {
				case *ssa.Store:
					if derives(in.Addr, f) {
						out = append(out, in)
					}
				case ssa.CallInstruction:
					c := in.Common()
					if callee := c.StaticCallee(); callee != nil && len(c.Args) > 0 && derives(c.Args[0], f) && callee.Signature.Recv() != nil {
						visit(callee, depth+1)
					}
				}
			}
		}
	}
	visit(fn, 0)
	return out
}

// recvWrite: one assignment of a whole structure value to the receiver of a
// decoder: a whole-value store `*m = v`, or the stores of a composite literal
// assigned in place (`*m = T{...}` compiled to one store per field, all in
// one block); the value is assembled from the field stores in that case.
type recvWrite struct {
	fn       *ssa.Function
	at       ssa.Instruction // first store of the group (facts are taken before it)
	stores   []*ssa.Store
	val      *Term
	complete bool     // every field of the structure is written
	fields   []string // field-wise groups: the fields written
	// root: the local the stored value is loaded from (value built in place)
	root *ssa.Alloc
}

func (P *Prog) receiverWrites(fn *ssa.Function) []*recvWrite {
	var out []*recvWrite
	seen := map[*ssa.Function]bool{}
	isRecv := func(v ssa.Value, f *ssa.Function) bool {
		for {
			switch x := v.(type) {
			case *ssa.ChangeType:
				v = x.X
				continue
			case *ssa.Call:
				if a, ok := P.identityArg(x); ok {
					v = a
					continue
				}
				return false
			case *ssa.Parameter:
				return paramIndex(x) == 0 && x.Parent() == f
			}
			return false
		}
	}
	var visit func(f *ssa.Function, depth int)
	visit = func(f *ssa.Function, depth int) {
		if f == nil || seen[f] || !P.inPkg(f) || depth > 4 {
			return
		}
		seen[f] = true
		for _, b := range f.Blocks {
			var grp *recvWrite
			for _, in := range b.Instrs {
				switch in := in.(type) {
				case *ssa.Store:
					if isRecv(in.Addr, f) {
						w := &recvWrite{fn: f, at: in, stores: []*ssa.Store{in}, val: P.terms.of(in.Val), complete: true}
						if u, ok := in.Val.(*ssa.UnOp); ok {
							if a, ok := u.X.(*ssa.Alloc); ok {
								w.root = a
							}
						}
						out = append(out, w)
						continue
					}
					fa, ok := in.Addr.(*ssa.FieldAddr)
					if !ok || !isRecv(fa.X, f) {
						continue
					}
					st, ok := deref(fa.X.Type()).Underlying().(*types.Struct)
					if !ok {
						continue
					}
					if grp == nil {
						grp = &recvWrite{fn: f, at: in, val: &Term{Op: "load", Args: []*Term{T("param", "0")}}}
						out = append(out, grp)
					}
					name := st.Field(fa.Field).Name()
					grp.stores = append(grp.stores, in)
					grp.fields = append(grp.fields, name)
					grp.val = updatePath(grp.val, []string{name}, P.terms.of(in.Val))
					have := map[string]bool{}
					for _, n := range grp.fields {
						have[n] = true
					}
					grp.complete = len(have) == st.NumFields()
				case ssa.CallInstruction:
					c := in.Common()
					if callee := c.StaticCallee(); callee != nil && len(c.Args) > 0 && isRecv(c.Args[0], f) && callee.Signature.Recv() != nil {
						visit(callee, depth+1)
					}
				}
			}
		}
	}
	visit(fn, 0)
	// a complete in-place literal overwrites everything: nothing of the old
	// value remains
	for _, w := range out {
		if w.complete && len(w.fields) > 0 {
			var strip func(t *Term) *Term
			strip = func(t *Term) *Term {
				if t.Op == "update" && len(t.Args) == 2 {
					return &Term{Op: "update", S: t.S, Args: []*Term{strip(t.Args[0]), t.Args[1]}}
				}
				if t.Op == "load" && t.Args[0].Op == "param" && t.Args[0].S == "0" {
					return T("zero", "")
				}
				return t
			}
			w.val = strip(w.val)
		}
	}
	return out
}

type shape struct {
	tag int64
	n   int
}

// expectedShapes: the property's envelope table.
var expectedShapes = map[string]shape{
	"Sign1Message":         {18, 4},
	"UntaggedSign1Message": {-1, 4},
	"SignMessage":          {98, 4},
	"Signature":            {-1, 3},
	"Countersignature":     {-1, 3},
}

// checkStoredSignatureNonEmpty: the Signature field of the one whole value a
// structure decoder stores is known to be non-empty at the store.
func checkStoredSignatureNonEmpty(r *Report, rule, name string, st *recvWrite) {
	P := r.P
	sg := projectField(st.val, "Signature")
	fs := P.factsBefore(st.at)
	okNE := fs.holdsNonEmpty(sg)
	if call := helperResult(P, sg); !okNE && call != nil && (sg.Op == "field" || sg.Op == "load") {
		// the value comes from a helper: non-empty on each of its delivering exits
		h := P.calleeOfTerm(call)
		if ei := errIndex(h); ei >= 0 && fs.has(okFact(&Term{Op: "res", S: itoa(int64(ei)), Args: []*Term{call}})) {
			okNE = true
			n := 0
			for _, hx := range P.factsOf(h).exits {
				if hx.kind == exitFailure {
					continue
				}
				n++
				hv := hx.results[0]
				if a, isPtr := hx.ret.Results[0].(*ssa.Alloc); isPtr {
					hv = P.terms.loadPath(a, nil, hx.ret)
				}
				if !exitFacts(P, hx).holdsNonEmpty(projectField(hv, "Signature")) {
					okNE = false
				}
			}
			okNE = okNE && n > 0
		}
	}
	r.ob(rule, name+":nonempty-signature", st.fn, st.at, "stored Signature is non-empty").check(okNE, "fact len("+sg.String()+") != 0", "the decoder can store an empty signature: no fact len("+sg.String()+") != 0 before the store")
}

// checkDecodersRefuseEmptySignature (R05.4; shared with C11): every structure
// decoder other than the COSE_Sign body (whose elements go through the
// Signature decoder, R11.3) stores a non-empty signature.
func checkDecodersRefuseEmptySignature(r *Report, rule string) {
	P := r.P
	n := 0
	for _, T := range P.structureTypes() {
		name := T.Obj().Name()
		D := P.methodOf(T, "UnmarshalCBOR")
		if D == nil || name == "SignMessage" {
			continue
		}
		sts := P.receiverWrites(D)
		if len(sts) != 1 || !sts[0].complete {
			r.ob(rule, name+":stored-value", D, nil, "the decoder stores exactly one whole value into its receiver").fail(fmt.Sprintf("%d assignments to the receiver in the decoder's call tree", len(sts)))
			continue
		}
		n++
		checkStoredSignatureNonEmpty(r, rule, name, sts[0])
	}
	r.floor(rule, n, 3, "structure decoders that store a signature")
}

func runC05(r *Report, tier string) {
	P := r.P
	r.rule("R05.1", "both decode modes are built from constant options DupMapKey=EnforcedAPF, IndefLength=Forbidden, IntDec=ConvertSigned (the envelope mode additionally TagsMd=Forbidden), no acceptance-widening option is set, and each mode variable is assigned exactly once, in init.")
	r.rule("R05.2", "every CBOR decode in non-test code is <mode var>.Unmarshal / .Wellformed on one of those mode variables; package-level cbor.Unmarshal, UnmarshalFirst, NewDecoder, Valid are not used; decodes into wire structs and the bstr/nil slot use the tags-forbidden mode.")
	r.rule("R05.3", "each structure decoder's success summary carries the prefix fact for head(tag K) || 0x80+n with K and n of the property's table (tag 18+4, bare 4, tag 98+4, bare 3), the slice handed to the mode starts right after the tag head, n is the wire struct's field count, and the first bytes of the prefixes are pairwise different.")
	r.rule("R05.4", "each structure decoder refuses an empty signature (COSE_Sign: an empty list, and per element ok(Signature decoder)).")
	r.rule("R05.5", "header layers: every structure decoder's success carries ok(decode RawProtected -> Protected), ok(decode RawUnprotected -> Unprotected) and ok(cross-bucket IV check) on the Headers of the value it stores; where the IV check is called the two buckets already hold their decoded values and are not changed afterwards; the bucket decoders require bstr-or-reject, non-nil, map major type, label-type scan, mode decode and the validator (true/false), per entry value decoding with labels 7/11 routed to the countersignature decoder; the label scan admits only major types 0, 1, 3 and refuses integers beyond int64.")
	r.rule("R05.6", "the bstr/nil decoder assigns nil only under data == [f6] and otherwise requires major type 2 before delegating to the tags-forbidden mode.")
	r.rule("R05.7", "the validator's value predicate for labels 7 and 11 accepts only a non-nil *Countersignature or a non-empty []*Countersignature without nil elements (COSE_Countersignature / [+ COSE_Countersignature]).")
	r.assumes("A1: DecMode.Unmarshal checks well-formedness of the whole input and rejects trailing bytes", "A7: a toarray struct decodes only from an array of exactly its field count", "A3/A2 as stated in DESIGN.md section 1")

	// R05.1 -----------------------------------------------------------------
	cfgs := P.modeConfigs()
	var tagsForbidden, plain []string
	nDec := 0
	for _, mc := range cfgs {
		if mc.enc {
			continue
		}
		nDec++
		want := map[string]int64{
			"DupMapKey":   P.cborConst("DupMapKeyEnforcedAPF"),
			"IndefLength": P.cborConst("IndefLengthForbidden"),
			"IntDec":      P.cborConst("IntDecConvertSigned"),
		}
		checkModeOptions(r, "R05.1", mc, want, []string{"MapKeyByteString", "UTF8", "DefaultMapType", "BigIntDec", "TimeTag", "DefaultByteStringType", "ByteStringToString", "FieldNameByteString", "FieldNameMatching"})
		if mc.opts["TagsMd"] == P.cborConst("TagsForbidden") {
			tagsForbidden = append(tagsForbidden, mc.global)
		} else {
			plain = append(plain, mc.global)
			r.ob("R05.1", mc.global+":option:TagsMd", mc.fn, mc.call, "the header mode leaves TagsMd at a constant").check(mc.opts["TagsMd"] == 0, "TagsMd unset", fmt.Sprintf("TagsMd = %d", mc.opts["TagsMd"]))
		}
	}
	r.floor("R05.1", nDec, 2, "decode mode constructions")
	r.ob("R05.1", "modes:tags-forbidden-exists", nil, nil, "a tags-forbidden decode mode exists for the envelope").check(len(tagsForbidden) >= 1, "tags-forbidden mode(s): "+strings.Join(tagsForbidden, ","), "no decode mode is built with TagsMd=Forbidden")
	modeOK := map[string]bool{}
	for _, g := range P.modeGlobals() {
		sts := P.globalStores(g)
		o := r.ob("R05.1", g.Name()+":assigned-once-in-init", nil, nil, "mode variable is assigned exactly once, in init")
		okInit := len(sts) == 1 && isInitFunc(sts[0].Parent())
		o.check(okInit, "one store, in "+fmt.Sprint(len(sts) > 0 && isInitFunc(sts[0].Parent())), fmt.Sprintf("%d stores to %s (must be exactly one, in init)", len(sts), g.Name()))
		hasCfg := false
		for _, mc := range cfgs {
			if mc.global == g.Name() {
				hasCfg = true
			}
		}
		if okInit && hasCfg {
			modeOK[g.Name()] = true
		} else if !hasCfg {
			r.ob("R05.1", g.Name()+":constructed-from-options", nil, nil, "mode variable receives the result of an Options.XxxMode() call").fail("no EncMode()/DecMode() construction stores into " + g.Name())
		}
	}
	isTF := func(name string) bool {
		for _, t := range tagsForbidden {
			if t == name {
				return true
			}
		}
		return false
	}

	// R05.2 -----------------------------------------------------------------
	wire := map[string]bool{}
	for _, w := range P.wireStructs() {
		wire[w.Obj().Name()] = true
	}
	nd := 0
	for _, fn := range P.Funcs {
		for _, ci := range callsIn(fn, nil) {
			c := ci.Common()
			if sc := c.StaticCallee(); sc != nil && sc.Pkg != nil && sc.Pkg.Pkg.Path() == cborPath {
				switch sc.Name() {
				case "Unmarshal", "UnmarshalFirst", "Valid", "Wellformed", "NewDecoder", "DiagnoseFirst":
					if sc.Signature.Recv() == nil {
						r.ob("R05.2", shortFn(fn)+":pkg-level:"+sc.Name(), fn, ci, "no package-level cbor decode function is used").fail("cbor." + sc.Name() + " uses the library's default options (duplicate keys, tags, indefinite lengths allowed)")
					}
				}
				continue
			}
			if !c.IsInvoke() || !isCBORNamed(c.Value.Type(), "DecMode") {
				continue
			}
			nd++
			mt := P.terms.of(c.Value)
			key := shortFn(fn) + ":" + c.Method.Name() + ":" + mt.String()
			o := r.ob("R05.2", key+"#"+strconv.Itoa(nd), fn, ci, "decode goes through a checked mode variable with an allowed method")
			gname := ""
			if mt.Op == "load" && mt.Args[0].Op == "global" {
				gname = mt.Args[0].S
			}
			switch {
			case c.Method.Name() != "Unmarshal" && c.Method.Name() != "Wellformed":
				o.fail("DecMode." + c.Method.Name() + " does not give the whole-input guarantee (A1)")
				continue
			case !modeOK[gname]:
				o.fail("mode value " + mt.String() + " is not one of the package's init-only mode variables")
				continue
			}
			o.ok("mode "+gname+"."+c.Method.Name(), true)
			if c.Method.Name() == "Unmarshal" && len(c.Args) == 2 {
				if mi, ok := c.Args[1].(*ssa.MakeInterface); ok {
					dt := deref(mi.X.Type())
					needTF := false
					if n, ok := dt.(*types.Named); ok && wire[n.Obj().Name()] {
						needTF = true
					}
					if isByteSlice(dt) {
						needTF = true
					}
					if needTF {
						r.ob("R05.2", key+":tags-forbidden#"+strconv.Itoa(nd), fn, ci, "envelope / byte-string slot is decoded with the tags-forbidden mode").check(isTF(gname), "mode "+gname+" has TagsMd=Forbidden", "destination "+shortType(dt)+" is decoded with "+gname+", which allows tags")
					}
				}
			}
		}
	}
	r.floorSoft("R05.2", nd, 12, "DecMode call sites")

	// R05.3 / R05.4 / R05.5(layer) per structure decoder ---------------------
	ivFn := P.ivCheck()
	firsts := map[string]byte{}
	nsd := 0
	for _, T := range P.structureTypes() {
		name := T.Obj().Name()
		D := P.methodOf(T, "UnmarshalCBOR")
		if D == nil {
			continue
		}
		nsd++
		sh, known := expectedShapes[name]
		if !known {
			// a new structure kind: tag from an exported CBORTag<Name> constant, else untagged
			sh = shape{-1, 0}
			if v, ok := P.constVal("CBORTag" + name); ok {
				sh.tag = v
			}
		} else if sh.tag >= 0 {
			v, ok := P.constVal("CBORTag" + name)
			r.ob("R05.3", name+":tag-constant", D, nil, fmt.Sprintf("exported tag constant of %s is %d", name, sh.tag)).check(ok && v == sh.tag, fmt.Sprintf("CBORTag%s = %d", name, v), fmt.Sprintf("CBORTag%s = %d (found: %v), the property requires %d", name, v, ok, sh.tag))
		}
		sum := P.successFacts(D)
		r.analysed(D)
		// the envelope decode
		ms := sum.matchAll([]factPat{fp(okp("call<invoke:cbor.DecMode.Unmarshal>(%M, %SRC, iface<%>(%DST))"))}, nil)
		var env bindings
		var W *types.Named
		for _, b := range ms {
			// destination type is a wire struct
			for _, f := range sum {
				if f.Val && f.Pred.Op == "binop" {
					for _, a := range f.Pred.Args {
						if a.Op == "call" && len(a.Args) == 3 && a.Args[1].eq(b["SRC"]) && a.Args[2].Op == "iface" && a.Args[2].Args[0].eq(b["DST"]) {
							tn := strings.TrimPrefix(a.Args[2].S, "*")
							if wire[tn] {
								env = b
								W = P.namedType(tn)
							}
						}
					}
				}
			}
		}
		o := r.ob("R05.3", name+":envelope-decode", D, nil, "success implies ok(tags-forbidden mode.Unmarshal(input after the tag head, &wire struct))")
		if env == nil {
			o.fail("no ok(DecMode.Unmarshal(..., &<wire struct>)) in the decoder's success summary")
			continue
		}
		mname := ""
		if m := env["M"]; m.Op == "load" && m.Args[0].Op == "global" {
			mname = m.Args[0].S
		}
		o.check(isTF(mname), "mode "+mname+" into *"+W.Obj().Name(), "the envelope is decoded with mode "+env["M"].String()+", which does not forbid tags")
		if !known {
			sh.n = wireFieldCount(W)
		}
		exp := append(tagHead(sh.tag), byte(0x80+sh.n))
		firsts[name] = exp[0]
		r.ob("R05.3", name+":array-length", D, nil, fmt.Sprintf("wire struct has %d slots", sh.n)).check(wireFieldCount(W) == sh.n, fmt.Sprintf("%s has %d non-blank fields", W.Obj().Name(), wireFieldCount(W)), fmt.Sprintf("%s has %d non-blank fields, the property requires a %d-array", W.Obj().Name(), wireFieldCount(W), sh.n))
		// offset
		k := int64(-1)
		src := env["SRC"]
		switch {
		case src.String() == "$1":
			k = 0
		case src.Op == "slice" && src.Args[0].String() == "$1" && src.Args[2].Op == "_" && src.Args[3].Op == "_":
			if n, ok := termConstInt(src.Args[1]); ok {
				k = n
			}
		}
		r.ob("R05.3", name+":offset", D, nil, "the mode receives the input starting exactly after the tag head").check(k == int64(len(exp)-1), fmt.Sprintf("input[%d:]", k), fmt.Sprintf("the mode receives %s, expected the input from offset %d (tag head of %d bytes)", src, len(exp)-1, len(exp)-1))
		// prefix fact
		op := r.ob("R05.3", name+":prefix", D, nil, fmt.Sprintf("success implies the input starts with % x", exp))
		okPrefix, why := P.prefixEstablished(sum, T0p1(), exp)
		op.check(okPrefix, why, why)

		// stored value
		sts := P.receiverWrites(D)
		os := r.ob("R05.4", name+":stored-value", D, nil, "the decoder stores exactly one whole value into its receiver")
		if len(sts) != 1 || !sts[0].complete {
			os.fail(fmt.Sprintf("%d assignments to the receiver in the decoder's call tree (a field-wise one must cover every field)", len(sts)))
			continue
		}
		os.ok("one assignment at "+P.instrPos(sts[0].at), false)
		st := sts[0]
		// R05.4
		if name == "SignMessage" {
			checkSignMessageDecoderElems(r, "R05.4")
		} else {
			checkStoredSignatureNonEmpty(r, "R05.4", name, st)
		}
		checkDecoderLayer(r, "R05.5", name, st, W, ivFn)
	}
	r.floor("R05.3", nsd, 5, "structure decoders")
	// pairwise different first bytes
	{
		var ns []string
		for n := range firsts {
			ns = append(ns, n)
		}
		sort.Strings(ns)
		byFirst := map[byte][]string{}
		for _, n := range ns {
			// Countersignature and Signature share one shape by design (same structure)
			byFirst[firsts[n]] = append(byFirst[firsts[n]], n)
		}
		bad := ""
		for b, l := range byFirst {
			if len(l) > 1 && !(len(l) == 2 && l[0] == "Countersignature" && l[1] == "Signature") {
				bad += fmt.Sprintf("%#x shared by %v; ", b, l)
			}
		}
		r.ob("R05.3", "prefixes:pairwise-different", nil, nil, "no two structure kinds share a first byte (Signature/Countersignature are one shape)").check(bad == "", fmt.Sprint(firsts), bad)
	}

	// R05.5 where the IV check is called on the decode side ------------------
	nIV := 0
	for f := range P.decoderFamily() {
		for _, ci := range callsIn(f, nil) {
			if staticCallee(ci) != ivFn {
				continue
			}
			nIV++
			arg := ci.Common().Args[0]
			root, path := P.terms.pointerRoot(arg)
			if len(ivFn.Params) == 2 {
				// check(h.Protected, h.Unprotected): the Headers are where the first bucket is loaded from
				root, path = nil, nil
				if u, ok := arg.(*ssa.UnOp); ok && u.Op == token.MUL {
					if rr, pp := P.terms.addrPath(u.X); len(pp) > 0 && pp[len(pp)-1] == "Protected" {
						root, path = rr, pp[:len(pp)-1]
					}
				}
			}
			if root == nil {
				r.ob("R05.5", shortFn(f)+":iv-order", f, ci, "IV check sees the decoded buckets").fail("cannot resolve the Headers the IV check is applied to")
				continue
			}
			for _, bk := range [][2]string{{"Protected", "RawProtected"}, {"Unprotected", "RawUnprotected"}} {
				o := r.ob("R05.5", shortFn(f)+":iv-order:"+bk[0], f, ci, "when the IV check runs, Headers."+bk[0]+" already holds the value decoded from Headers."+bk[1]+", and it is not changed afterwards")
				cur := P.terms.loadPath(root, append(append([]string{}, path...), bk[0]), ci)
				// the value after the call, possibly written as a projection of
				// the whole object after the call
				inner, full := modBase(cur)
				b, ok := unify(mustPat("mod(call<invoke:cbor.DecMode.Unmarshal>(%M, %SRC, %D), %L)"), inner, bindings{})
				if ok && !(b["D"].Op == "iface" && len(b["D"].Args) == 1 && b["D"].Args[0].eq(full)) {
					ok = false
				}
				if !ok {
					o.fail("at the IV check Headers." + bk[0] + " is " + cur.String() + ", not the result of a mode decode")
					continue
				}
				rawLoc := P.terms.symbolicLoc(root, append(append([]string{}, path...), bk[1]))
				if !(b["SRC"].Op == "load" && b["SRC"].Args[0].eq(rawLoc)) {
					o.fail("Headers." + bk[0] + " is decoded from " + b["SRC"].String() + ", not from Headers." + bk[1])
					continue
				}
				same := true
				for _, x := range P.factsOf(f).exits {
					if x.kind == exitFailure {
						continue
					}
					end := P.terms.loadPath(root, append(append([]string{}, path...), bk[0]), x.ret)
					if !end.eq(cur) {
						same = false
					}
				}
				o.check(same, "decoded before the IV check and unchanged up to every success exit", "Headers."+bk[0]+" changes between the IV check and a success exit")
			}
		}
	}
	r.floor("R05.5", nIV, 1, "decode-side IV check call sites")

	c05Buckets(r, "R05.5")
	checkValidatorExhaustive(r, "R05.5")
	checkValuePredicateKinds(r, "R05.5")
	c05BstrNil(r, isTF)
	checkCountersigValuePredicate(r, "R05.7")
}

// modBase: for f1(...fn(mod(call, L))) the mod term and the full location
// L.fn...f1 the value lives at.
func modBase(t *Term) (*Term, *Term) {
	var fields []string
	for t.Op == "field" && len(t.Args) == 1 {
		fields = append(fields, t.S)
		t = t.Args[0]
	}
	if t.Op != "mod" || len(t.Args) != 2 {
		return t, nil
	}
	loc := t.Args[1]
	for i := len(fields) - 1; i >= 0; i-- {
		loc = &Term{Op: "field", S: fields[i], Args: []*Term{loc}}
	}
	return t, loc
}

// checkDecoderLayer: R05.5 layer facts on the Headers of the value a structure
// decoder stores (shared with R13.2).
func checkDecoderLayer(r *Report, rule, name string, st *recvWrite, W *types.Named, ivFn *ssa.Function) {
	P := r.P
	V := st.val
	ol := r.ob(rule, name+":layer", st.fn, st.at, "ok(decode RawProtected->Protected), ok(decode RawUnprotected->Unprotected), ok(IV check) hold for the Headers of the stored value")
	layerFacts := func(fs factSet, H *Term) string {
		miss := ""
		for _, ivp := range ivOKs(ivFn, "%H") {
			miss, _ = fs.firstMissing([]factPat{
				fp(okp("call<invoke:cbor.DecMode.Unmarshal>(%M1, *%H.RawProtected, iface<*ProtectedHeader>(%H.Protected))")),
				fp(okp("call<invoke:cbor.DecMode.Unmarshal>(%M2, *%H.RawUnprotected, iface<*UnprotectedHeader>(%H.Unprotected))")),
				fp(ivp),
			}, bindings{"H": H})
			if miss == "" {
				return ""
			}
		}
		return miss
	}
	HV := projectField(V, "Headers")
	fs := P.factsBefore(st.at)
	switch {
	case st.root != nil:
		// the whole value is a local built in place
		H := &Term{Op: "field", S: "Headers", Args: []*Term{P.terms.of(st.root)}}
		miss := layerFacts(fs, H)
		ol.check(miss == "", "three facts on "+H.String(), "missing before the store: "+miss)
	case helperResult(P, HV) != nil:
		// the Headers (or the whole value they are a field of) are produced by
		// a helper whose success is required here: every delivering exit of
		// the helper returns a local built in place that carries the three facts
		call := helperResult(P, HV)
		whole := HV.Op == "field" || HV.Op == "load"
		h := P.calleeOfTerm(call)
		ei := errIndex(h)
		why := ""
		if ei < 0 || !fs.has(okFact(&Term{Op: "res", S: itoa(int64(ei)), Args: []*Term{call}})) {
			why = "the Headers come from " + call.S + " without its success being required before the store"
		}
		m := map[string]*Term{}
		for i, a := range call.Args {
			m[itoa(int64(i))] = a
		}
		var hv *Term
		for _, hx := range P.factsOf(h).exits {
			if hx.kind == exitFailure || why != "" {
				continue
			}
			u, isLoad := hx.ret.Results[0].(*ssa.UnOp)
			var a *ssa.Alloc
			if isLoad {
				a, _ = u.X.(*ssa.Alloc)
			} else if whole {
				// the helper returns the address of its local
				a, _ = hx.ret.Results[0].(*ssa.Alloc)
			}
			if a == nil {
				why = "helper " + shortFn(h) + " returns " + truncate(hx.results[0].String(), 100) + ", not a local built in place"
				continue
			}
			hl := P.terms.of(a)
			if whole {
				hl = &Term{Op: "field", S: "Headers", Args: []*Term{hl}}
			}
			if miss := layerFacts(exitFacts(P, hx), hl); miss != "" {
				why = "in helper " + shortFn(h) + ": missing on a delivering exit: " + miss
			}
			rv := hx.results[0].subst(m)
			if _, isPtr := hx.ret.Results[0].(*ssa.Alloc); isPtr && whole {
				rv = P.terms.loadPath(a, nil, hx.ret).subst(m)
			}
			if whole {
				rv = projectField(rv, "Headers")
			}
			if hv != nil && !hv.eq(rv) {
				why = "helper " + shortFn(h) + " delivers different values on different exits"
			}
			hv = rv
		}
		if hv == nil && why == "" {
			why = "helper " + shortFn(h) + " never delivers a value"
		}
		ol.check(why == "", "three facts on the helper's local on every delivering exit of "+shortFn(h), why)
		if hv != nil {
			V = updatePath(V, []string{"Headers"}, hv)
		}
	default:
		ol.fail("the stored Headers are neither a local built in place nor a decoding helper's result: " + truncate(HV.String(), 160))
		return
	}
	// raw fields come from the wire struct
	for _, pr := range [][2]string{{"RawProtected", "Protected"}, {"RawUnprotected", "Unprotected"}} {
		hv := projectField(projectField(V, "Headers"), pr[0])
		okRaw := hv.Op == "field" && hv.S == pr[1] && hv.Args[0].Op == "mod" && (W == nil || strings.Contains(hv.Args[0].String(), "*"+W.Obj().Name()))
		r.ob(rule, name+":raw:"+pr[0], st.fn, st.at, "Headers."+pr[0]+" of the stored value is the wire struct's "+pr[1]+" slot").check(okRaw, hv.String(), "Headers."+pr[0]+" = "+hv.String())
	}
}

// c05Buckets: obligations inside the two bucket decoders, the per-entry
// routing and the label scan.
func c05Buckets(r *Report, rule string) {
	P := r.P
	val := shortFn(P.headerValidator())
	ls, _ := P.labelScan()
	bn := P.bstrNilType()
	bnDec := P.methodOf(bn, "UnmarshalCBOR")
	if bnDec == nil {
		undecidedf("anchor not found: bstr/nil decoder")
	}
	// protected bucket
	ph := P.methodOf(P.mustNamed("ProtectedHeader"), "UnmarshalCBOR")
	if ph == nil {
		undecidedf("anchor not found: ProtectedHeader.UnmarshalCBOR")
	}
	V := "mod(call<" + shortFn(bnDec) + ">(%E, $1), %E)"
	n := 0
	for _, pc := range P.successCases(ph) {
		n++
		r.paths++
		fs := pc.fs
		o := r.ob(rule, fmt.Sprintf("%s:path:%s#%d", shortFn(ph), pathID(pc.p), n), ph, pc.p.ret, "protected bucket: bstr-or-reject, non-nil, then empty or (map type, label scan, mode decode, validator(true))")
		miss, b := fs.firstMissing([]factPat{fp(okp("call<" + shortFn(bnDec) + ">(%E, $1)")), fp("!binop<==>(" + V + ", nil)")}, nil)
		if miss != "" {
			o.fail("missing on a success path: " + miss)
			continue
		}
		if fs.holdsEmpty(instantiate(mustPat(V), b)) {
			o.ok("empty byte string arm", true)
			continue
		}
		miss, _ = fs.firstMissing([]factPat{
			fp("binop<==>(5, binop<>>>(*index(" + V + ", 0), 5))"),
			fp(okp("call<" + shortFn(ls) + ">(" + V + ")")),
			fp(okp("call<invoke:cbor.DecMode.Unmarshal>(%M, " + V + ", iface<*map[any]any>(%H))")),
			fp(okp("call<" + val + ">(mod(call<invoke:cbor.DecMode.Unmarshal>(%M, " + V + ", iface<*map[any]any>(%H)), %H), true)")),
		}, b)
		o.check(miss == "", "map type, label scan, mode decode, validator(.., true) all on the decoded content", "missing on a non-empty success path: "+miss)
	}
	r.floor(rule, n, 2, "success paths of the protected-bucket decoder")
	// the content of the protected bstr is an item of its own: every mode
	// call on it (in the decoder or in a helper that receives it) uses a mode
	// that does not forbid tags (tags are only excluded from the envelope)
	if rule == "R07.5" || rule == "R13.2" { // an acceptance rule: C07, and C13 (the encoder admits tagged values in this bucket: so must the decoder)
		tagsOK := map[string]bool{}
		for _, mc := range P.modeConfigs() {
			if !mc.enc && mc.global != "" && mc.opts["TagsMd"] == 0 && len(mc.unknown) == 0 {
				tagsOK[mc.global] = true
			}
		}
		nm := 0
		var visit func(f *ssa.Function, isContent func(t *Term) bool, depth int)
		visit = func(f *ssa.Function, isContent func(t *Term) bool, depth int) {
			if depth > 3 {
				return
			}
			for _, ci := range callsIn(f, nil) {
				c := ci.Common()
				if c.IsInvoke() && isCBORMode(c.Value.Type()) && (c.Method.Name() == "Unmarshal" || c.Method.Name() == "Wellformed") && len(c.Args) >= 1 && isContent(P.terms.of(c.Args[0])) {
					nm++
					g, isM := P.isModeLoad(P.terms.of(c.Value), false)
					r.ob(rule, fmt.Sprintf("%s:content-mode:%s#%d", shortFn(ph), shortFn(f), nm), f, ci, "the protected bucket's content is decoded with a mode that admits tagged values").check(isM && tagsOK[g], "mode "+g, "the content of the protected header is handed to "+P.terms.of(c.Value).String()+", which forbids tags inside the protected bucket")
					continue
				}
				if h := staticCallee(ci); h != nil && P.inPkg(h) && h != bnDec {
					for k, a := range c.Args {
						if isContent(P.terms.of(a)) {
							kk := k
							visit(h, func(t *Term) bool { return t.Op == "param" && t.S == itoa(int64(kk)) }, depth+1)
						}
					}
				}
			}
		}
		vp := mustPat(V)
		visit(ph, func(t *Term) bool {
			t = P.resolveValue(t)
			if t.Op == "convert" && len(t.Args) == 1 {
				t = t.Args[0]
			}
			_, ok := unify(vp, t, bindings{})
			return ok
		}, 0)
		r.floor(rule, nm, 2, "mode calls on the protected bucket's content")
	}
	// what is stored is what was validated (or the fresh empty map)
	for _, st := range P.receiverStores(ph) {
		vt := P.resolveValue(P.terms.of(st.Val))
		o := r.ob(rule, shortFn(ph)+":stored", ph, st, "the stored header is the validated map or a fresh empty one")
		okS := vt.Op == "makemap"
		if !okS {
			fs := P.factsBefore(st)
			okS = len(fs.matchAll([]factPat{fp(okp("call<" + val + ">(%X, true)"))}, bindings{"X": vt})) > 0
		}
		o.check(okS, "stored "+truncate(vt.String(), 160), "stored value "+truncate(vt.String(), 200)+" has not passed the validator with protected=true on this path")
	}

	// unprotected bucket
	uh := P.methodOf(P.mustNamed("UnprotectedHeader"), "UnmarshalCBOR")
	if uh == nil {
		undecidedf("anchor not found: UnprotectedHeader.UnmarshalCBOR")
	}
	var perEntry *ssa.Function
	for _, x := range P.factsOf(uh).exits {
		if x.kind == exitFailure {
			continue
		}
		fs := exitFacts(P, x)
		o := r.ob(rule, shortFn(uh)+":exit:"+exitID(P, uh, x), uh, x.ret, "unprotected bucket: non-nil, non-empty, map type, label scan, mode decode, per-entry value decode, validator(false)")
		miss, b := fs.firstMissing([]factPat{
			fp("binop<==>(5, binop<>>>(*index($1, 0), 5))"),
			fp(okp("call<" + shortFn(ls) + ">($1)")),
			fp(okp("call<invoke:cbor.DecMode.Unmarshal>(%M, $1, iface<%>(%PH))")),
			fp(okp("call<" + val + ">(%HDR, false)")),
		}, nil)
		if miss == "" && !fs.holdsNonEmpty(T0p1()) {
			miss = "len(data) != 0"
		}
		if miss != "" {
			o.fail("missing on a success exit: " + miss)
			continue
		}
		partial := &Term{Op: "mod", Args: []*Term{{Op: "call", S: "invoke:cbor.DecMode.Unmarshal", Args: []*Term{b["M"], T0p1(), {Op: "iface", S: "*map[any]cbor.RawMessage", Args: []*Term{b["PH"]}}}}, b["PH"]}}
		// per-entry loop over the partially decoded map: in the decoder or in a
		// helper it calls with that map (and whose success it requires)
		type host struct {
			f *ssa.Function
			m map[string]*Term
		}
		hosts := []host{{uh, nil}}
		for _, ci := range callsIn(uh, nil) {
			if g := staticCallee(ci); g != nil && P.inPkg(g) && g.String() != P.headerValidator().String() {
				m := map[string]*Term{}
				for i, a := range ci.Common().Args {
					m[itoa(int64(i))] = P.terms.of(a)
				}
				if v, ok := ci.(ssa.Value); ok && errIndex(g) >= 0 {
					et := P.terms.of(v)
					if g.Signature.Results().Len() > 1 {
						et = &Term{Op: "res", S: itoa(int64(errIndex(g))), Args: []*Term{et}}
					}
					if fs.has(okFact(et)) {
						hosts = append(hosts, host{g, m})
					}
				}
			}
		}
		var L *loopInfo
		var H host
		for _, h := range hosts {
			for _, l := range findLoops(h.f) {
				if l.kind != "map-range" || l.over == nil {
					continue
				}
				ot := P.terms.of(l.over)
				if h.m != nil {
					ot = ot.subst(h.m)
				}
				if ot.Op == "mod" && ot.Args[1].eq(b["PH"]) || ot.eq(partial) {
					L, H = l, h
				}
			}
		}
		if L == nil {
			o.fail("no range loop over the partially decoded map (in the decoder or a helper whose success it requires)")
			continue
		}
		if H.f == uh && !(L.exit == x.ret.Block() || L.exit.Dominates(x.ret.Block())) {
			o.fail("success is reachable without completing the per-entry loop")
			continue
		}
		// the map the entries are put into must be the one that is validated
		hdr := P.resolveValue(b["HDR"])
		why := ""
		for _, p := range P.enumPaths(H.f, L.body, func(bb *ssa.BasicBlock) bool { return bb == L.header }, false) {
			if p.ret != nil {
				res := p.results()
				fs2 := factSet{}
				for _, c := range p.conds {
					fs2.add(c)
				}
				if k, _ := P.classifyErr(res[errIndex(H.f)], fs2); k != exitFailure {
					why = "the per-entry loop can return without an error"
				}
				continue
			}
			// an iteration that continues: must contain ok(per-entry decode(k, v)) and header[k] = result
			okIter := false
			p.instrs(func(in ssa.Instruction) {
				mu, isMU := in.(*ssa.MapUpdate)
				if !isMU {
					return
				}
				mt := p.eng.of(mu.Map)
				if H.m != nil {
					mt = mt.subst(H.m)
				}
				if !mt.eq(hdr) && !mt.eq(b["HDR"]) {
					return
				}
				vt := p.eng.of(mu.Value)
				if vt.Op == "res" && vt.S == "0" && vt.Args[0].Op == "call" {
					callee := P.calleeOfTerm(vt.Args[0])
					errT := &Term{Op: "res", S: "1", Args: []*Term{vt.Args[0]}}
					if callee != nil && p.has(okFact(errT)) {
						okIter = true
						perEntry = callee
					}
				}
			})
			if !okIter {
				why = "an entry can be kept without ok(per-entry value decode)"
			}
		}
		o.check(why == "", "all facts present; every kept entry passed the per-entry decoder "+shortFn(perEntry), why)
	}
	for _, st := range P.receiverStores(uh) {
		vt := P.terms.of(st.Val)
		fs := P.factsBefore(st)
		okS := len(fs.matchAll([]factPat{fp(okp("call<" + val + ">(%X, false)"))}, bindings{"X": vt})) > 0
		r.ob(rule, shortFn(uh)+":stored", uh, st, "the stored header is the validated map").check(okS, "stored "+truncate(vt.String(), 160), "stored value "+truncate(vt.String(), 200)+" has not passed the validator with protected=false on this path")
	}
	// per-entry routing: labels 7 and 11 -> countersignature decoder
	if perEntry != nil {
		l7, l11 := P.mustConst("HeaderLabelCounterSignature"), P.mustConst("HeaderLabelCounterSignatureV2")
		norm := P.labelNormalizer()
		routed := map[int64]bool{}
		var csDec *ssa.Function
		bad := ""
		for _, p := range P.allPaths(perEntry) {
			if !p.feasible() {
				continue
			}
			res := p.results()
			fsP := factSet{}
			for _, c := range p.conds {
				fsP.add(c)
			}
			if k, _ := P.classifyErr(res[len(res)-1], fsP); k == exitFailure {
				continue
			}
			call := res[0]
			if call.Op == "res" {
				call = call.Args[0]
			}
			callee := P.calleeOfTerm(call)
			if callee == nil {
				// a value decoded in place by a package mode from the entry's raw value
				if _, ok := unify(mustPat("mod(call<invoke:cbor.DecMode.Unmarshal>(%M, $1, iface<*interface{}>(%A)), %A)"), res[0], bindings{}); ok {
					if len(fsP.matchAll([]factPat{fp(okp("call<invoke:cbor.DecMode.Unmarshal>(%M, $1, iface<*interface{}>(%A))"))}, nil)) > 0 {
						continue
					}
				}
				if _, ok := unify(mustPat("mod(call<invoke:cbor.DecMode.Unmarshal>(%M, $1, iface<*any>(%A)), %A)"), res[0], bindings{}); ok {
					if len(fsP.matchAll([]factPat{fp(okp("call<invoke:cbor.DecMode.Unmarshal>(%M, $1, iface<*any>(%A))"))}, nil)) > 0 {
						continue
					}
				}
				bad = "a path of " + shortFn(perEntry) + " neither delegates to a value decoder nor returns a value decoded by a package mode: " + truncate(res[0].String(), 160)
				continue
			}
			// which label?
			lbl := int64(0)
			isLabel := false
			for _, c := range p.conds {
				if c.Val && c.Pred.Op == "binop" && c.Pred.S == "==" {
					for i := 0; i < 2; i++ {
						o := c.Pred.Args[1-i]
						if o.Op == "iface" {
							o = o.Args[0]
						}
						if n, ok := termConstInt(o); ok && strings.Contains(c.Pred.Args[i].String(), shortFn(norm)) {
							lbl, isLabel = n, true
						}
					}
				}
			}
			if isLabel && (lbl == l7 || lbl == l11) {
				routed[lbl] = true
				if csDec != nil && csDec != callee {
					bad = "labels 7 and 11 are routed to different decoders"
				}
				csDec = callee
			} else if rule != "R07.5" && !isGenericValueDecoder(P, callee) {
				// every other value must reach the validator as the CBOR type it
				// has on the wire: decoded into an empty interface, not into a
				// typed destination that also accepts other encodings
				what := "the default arm"
				if isLabel {
					what = fmt.Sprintf("label %d", lbl)
				}
				bad = what + " is routed to " + shortFn(callee) + ", which does not decode the value into an empty interface (a typed destination accepts encodings the parameter rules exclude)"
			}
		}
		o := r.ob(rule, shortFn(perEntry)+":routing", perEntry, nil, "labels 7 and 11 (normalised) are routed to the countersignature value decoder")
		o.check(bad == "" && routed[l7] && routed[l11] && csDec != nil, "both labels -> "+shortFn(csDec), fmt.Sprintf("%s routed 7:%v 11:%v", bad, routed[l7], routed[l11]))
		if csDec != nil {
			// the countersignature value decoder returns only values decoded into Countersignature / []*Countersignature
			for _, x := range P.factsOf(csDec).exits {
				if x.kind == exitFailure {
					continue
				}
				o := r.ob(rule, shortFn(csDec)+":exit:"+exitID(P, csDec, x), csDec, x.ret, "returned value was decoded by the mode into a Countersignature or a list of them")
				fs := exitFacts(P, x)
				ok1 := len(fs.matchAll([]factPat{fp(okp("call<invoke:cbor.DecMode.Unmarshal>(%M, $0, iface<*Countersignature>(%R))"))}, nil)) > 0 && x.results[0].Op == "iface" && x.results[0].S == "*Countersignature"
				ok2 := len(fs.matchAll([]factPat{fp(okp("call<invoke:cbor.DecMode.Unmarshal>(%M, $0, iface<*[]*Countersignature>(%R))"))}, nil)) > 0 && x.results[0].Op == "iface" && x.results[0].S == "[]*Countersignature"
				o.check(ok1 || ok2, "ok(decode into "+x.results[0].S+")", "success exit returns "+x.results[0].String()+" without a matching successful decode")
			}
			// ... and refuses a value only after both forms have been tried
			if rule != "R05.5" { // acceptance / both-directions rule: C07, C13 (and C08 directly)
				checkCountersigValueRefusal(r, rule, csDec)
			}
		}
	}
	c05LabelScanOnly(r, rule)
}

// isGenericValueDecoder: every non-failure exit of f returns the value a
// package mode decoded from f's parameter into an empty interface.
func isGenericValueDecoder(P *Prog, f *ssa.Function) bool {
	n := 0
	for _, x := range P.factsOf(f).exits {
		if x.kind == exitFailure || len(x.results) == 0 {
			continue
		}
		n++
		ok := false
		for _, it := range []string{"*interface{}", "*any"} {
			if _, m := unify(mustPat("mod(call<invoke:cbor.DecMode.Unmarshal>(%M, $0, iface<"+it+">(%A)), %A)"), x.results[0], bindings{}); m {
				if len(exitFacts(P, x).matchAll([]factPat{fp(okp("call<invoke:cbor.DecMode.Unmarshal>(%M, $0, iface<" + it + ">(%A))"))}, nil)) > 0 {
					ok = true
				}
			}
		}
		if !ok {
			return false
		}
	}
	return n > 0
}

// checkCountersigValueRefusal: the decoder of a countersignature header value
// refuses only after both the single-object and the list form failed.
func checkCountersigValueRefusal(r *Report, rule string, csDec *ssa.Function) {
	P := r.P
	for _, x := range P.factsOf(csDec).exits {
		if x.kind != exitFailure {
			continue
		}
		o := r.ob(rule, shortFn(csDec)+":refusal:"+exitID(P, csDec, x), csDec, x.ret, "a value is refused only after decoding it as one Countersignature and as a list of them have both failed")
		fs := x.facts
		f1 := len(fs.matchAll([]factPat{fp("!" + okp("call<invoke:cbor.DecMode.Unmarshal>(%M, $0, iface<*Countersignature>(%R))"))}, nil)) > 0
		f2 := len(fs.matchAll([]factPat{fp("!" + okp("call<invoke:cbor.DecMode.Unmarshal>(%M, $0, iface<*[]*Countersignature>(%R))"))}, nil)) > 0
		o.check(f1 && f2, "both attempts failed", fmt.Sprintf("refusal reachable with single-object attempt failed: %v, list attempt failed: %v", f1, f2))
	}
}

// countersigValueDecoder: the in-package function that decodes a header value
// into *Countersignature / []*Countersignature (by its mode calls).
func (P *Prog) countersigValueDecoder() *ssa.Function {
	for _, fn := range P.Funcs {
		single, list := false, false
		for _, ci := range callsIn(fn, nil) {
			c := ci.Common()
			if c.IsInvoke() && c.Method.Name() == "Unmarshal" && isCBORMode(c.Value.Type()) && len(c.Args) == 2 {
				switch shortType(c.Args[1].Type()) {
				case "*Countersignature":
					single = true
				case "*[]*Countersignature":
					list = true
				}
				if mi, ok := c.Args[1].(*ssa.MakeInterface); ok {
					switch shortType(mi.X.Type()) {
					case "*Countersignature":
						single = true
					case "*[]*Countersignature":
						list = true
					}
				}
			}
		}
		if single && list {
			return fn
		}
	}
	return nil
}

// c05LabelScanOnly: the raw label scan's key decoder (R05.5 / R13.4).
func c05LabelScanOnly(r *Report, rule string) {
	P := r.P
	_, lsKey := P.labelScan()
	// label scan key decoder: only major types 0, 1, 3; refuses big integers
	kd := P.methodOf(lsKey, "UnmarshalCBOR")
	if kd == nil {
		undecidedf("anchor not found: label-scan key decoder")
	}
	npaths := 0
	for _, p := range P.allPaths(kd) {
		if !p.feasible() {
			continue
		}
		res := p.results()
		fs := factSet{}
		for _, c := range p.conds {
			fs.add(c)
		}
		if k, _ := P.classifyErr(res[0], fs); k == exitFailure {
			continue
		}
		npaths++
		o := r.ob(rule, shortFn(kd)+":path:"+pathID(p), kd, p.ret, "label accepted only for major type 0, 1 or 3, decoded by the mode, and not a big integer")
		mt := false
		for _, c := range p.conds {
			if c.Val && c.Pred.Op == "binop" && c.Pred.S == "==" {
				for i := 0; i < 2; i++ {
					if n, ok := termConstInt(c.Pred.Args[i]); ok && (n == 0 || n == 1 || n == 3) && c.Pred.Args[1-i].String() == "binop<>>>(*index($1, 0), 5)" {
						mt = true
					}
				}
			}
		}
		if !mt {
			// any other spelling of the test (ranges, inverted early returns):
			// the values the path's conditions leave for data[0]>>5
			if dom, ok := smallDomainIn(mustPat("binop<>>>(*index($1, 0), 5)"), p.conds, 0, 7, 8); ok {
				mt = true
				for _, v := range dom {
					if v != 0 && v != 1 && v != 3 {
						mt = false
					}
				}
			}
		}
		dec := len(fs.matchAll([]factPat{fp(okp("call<invoke:cbor.DecMode.Unmarshal>(%M, $1, %D)"))}, nil)) > 0
		big := false
		for _, c := range p.conds {
			if !c.Val && c.Pred.Op == "res" && c.Pred.S == "1" && c.Pred.Args[0].Op == "typeassert" && strings.HasPrefix(c.Pred.Args[0].S, "math/big.Int") {
				big = true
			}
		}
		o.check(mt && dec && big, "major type in {0,1,3}, ok(decode), not big.Int", fmt.Sprintf("major type in {0,1,3}:%v ok(mode decode):%v big.Int refused:%v", mt, dec, big))
	}
	r.floor(rule, npaths, 1, "accepting paths of the label-scan key decoder")
}

// c05BstrNil: R05.6.
func c05BstrNil(r *Report, isTF func(string) bool) {
	P := r.P
	bn := P.bstrNilType()
	fn := P.methodOf(bn, "UnmarshalCBOR")
	n := 0
	for _, x := range P.factsOf(fn).exits {
		if x.kind == exitFailure {
			continue
		}
		n++
		o := r.ob("R05.6", shortFn(fn)+":exit:"+exitID(P, fn, x), fn, x.ret, "nil only for f6; otherwise major type 2 and the tags-forbidden mode")
		if x.delegated {
			c := delegCall(x.errTerm)
			mname := ""
			if c != nil && c.S == "invoke:cbor.DecMode.Unmarshal" && c.Args[0].Op == "load" && c.Args[0].Args[0].Op == "global" {
				mname = c.Args[0].Args[0].S
			}
			mt := len(x.facts.matchAll([]factPat{fp("binop<==>(2, binop<>>>(*index($1, 0), 5))")}, nil)) > 0
			okArgs := c != nil && len(c.Args) == 3 && c.Args[1].String() == "$1" && c.Args[2].Op == "iface" && c.Args[2].Args[0].String() == "$0"
			o.check(isTF(mname) && mt && okArgs, "major type 2, delegated to "+mname+".Unmarshal(data, receiver)", fmt.Sprintf("tags-forbidden mode:%v major type 2:%v decodes the whole input into the receiver:%v", isTF(mname), mt, okArgs))
			continue
		}
		f6 := isExactlyF6(x.facts)
		o.check(f6, "data == [f6]", "a success exit that is neither the f6 arm nor the delegated decode")
	}
	r.floor("R05.6", n, 2, "success exits of the bstr/nil decoder")
	// nil is stored only on the f6 path
	for _, st := range P.receiverStores(fn) {
		fs := P.factsBefore(st)
		vt := P.terms.of(st.Val)
		ok := vt.Op == "nil" && isExactlyF6(fs)
		r.ob("R05.6", shortFn(fn)+":store-nil", fn, st, "the only direct store is nil under data == [f6]").check(ok, "nil under data == [f6]", "store of "+vt.String()+" outside the f6 arm")
	}
}

func mutC05() []mutant {
	return []mutant{
		{Name: "decode mode tolerates duplicate map keys", File: "cbor.go", Quick: true, Rule: "R05.1",
			Old: "DupMapKey:   cbor.DupMapKeyEnforcedAPF,", New: "DupMapKey:   cbor.DupMapKeyQuiet,"},
		{Name: "envelope mode no longer forbids tags", File: "cbor.go", Rule: "R05.1",
			Old: "\tdecOpts.TagsMd = cbor.TagsForbidden\n", New: ""},
		{Name: "Signature decoder uses package-level cbor.Unmarshal", File: "sign.go", Quick: true, Rule: "R05.2",
			Old: "\tvar raw signature\n\tif err := decModeWithTagsForbidden.Unmarshal(data, &raw); err != nil {", New: "\tvar raw signature\n\tif err := cbor.Unmarshal(data, &raw); err != nil {"},
		{Name: "Sign1 envelope decoded with the tag-tolerant mode", File: "sign1.go", Rule: "R05.2",
			Old: "\tif err := decModeWithTagsForbidden.Unmarshal(data, &raw); err != nil {", New: "\tif err := decMode.Unmarshal(data, &raw); err != nil {"},
		{Name: "SignMessage decoder drops the prefix check", File: "sign.go", Rule: "R05.3",
			Old: "\tif !bytes.HasPrefix(data, signMessagePrefix) {\n\t\treturn errors.New(\"cbor: invalid COSE_Sign_Tagged object\")\n\t}\n", New: "\tif len(data) < 3 {\n\t\treturn errors.New(\"cbor: invalid COSE_Sign_Tagged object\")\n\t}\n"},
		{Name: "SignMessage decoder skips one byte too many", File: "sign.go", Rule: "R05.3",
			Old: "decModeWithTagsForbidden.Unmarshal(data[2:], &raw)", New: "decModeWithTagsForbidden.Unmarshal(data[3:], &raw)"},
		{Name: "COSE_Sign tagged 18", File: "sign.go", Rule: "R05.3",
			Old: "\t0xd8, 0x62, // #6.98\n", New: "\t0xd8, 0x12, // #6.98\n"},
		{Name: "Signature decoder accepts an empty signature", File: "sign.go", Rule: "R05.4", Nth: 1,
			Old: "\tif len(raw.Signature) == 0 {\n\t\treturn ErrEmptySignature\n\t}\n", New: ""},
		{Name: "UnmarshalFromRaw drops the cross-bucket IV check", File: "headers.go", Quick: true, Rule: "R05.5",
			Old: "\tif err := h.ensureIV(); err != nil {\n\t\treturn err\n\t}\n\treturn nil\n}\n\n// ensureSigningAlgorithm", New: "\treturn nil\n}\n\n// ensureSigningAlgorithm"},
		{Name: "IV check runs before the buckets are decoded", File: "headers.go", Rule: "R05.5",
			Old: "func (h *Headers) UnmarshalFromRaw() error {\n", New: "func (h *Headers) UnmarshalFromRaw() error {\n\tif err := h.ensureIV(); err != nil {\n\t\treturn err\n\t}\n"},
		{Name: "unprotected decoder drops the label scan", File: "headers.go", Rule: "R05.5",
			Old: "\tif err := validateHeaderLabelCBOR(data); err != nil {\n\t\treturn err\n\t}\n", New: ""},
		{Name: "protected decoder validates with protected=false", File: "headers.go", Rule: "R05.5",
			Old: "\t\tif err := validateHeaderParameters(candidate, true); err != nil {", New: "\t\tif err := validateHeaderParameters(candidate, false); err != nil {"},
		{Name: "label scan admits byte-string labels", File: "headers.go", Rule: "R05.5",
			Old: "\tcase 0, 1, 3:\n\t\terr := decMode.Unmarshal(data, &hlv.value)", New: "\tcase 0, 1, 2, 3:\n\t\terr := decMode.Unmarshal(data, &hlv.value)"},
		{Name: "label 11 not routed to the countersignature decoder", File: "headers.go", Rule: "R05.5",
			Old: "\t\tcase HeaderLabelCounterSignature, HeaderLabelCounterSignatureV2:\n\t\t\treturn unmarshalAsCountersignature(value)", New: "\t\tcase HeaderLabelCounterSignature:\n\t\t\treturn unmarshalAsCountersignature(value)"},
		{Name: "bstr/nil accepts undefined as nil", File: "cbor.go", Rule: "R05.6",
			Old: "\tif bytes.Equal(data, []byte{0xf6}) {", New: "\tif bytes.Equal(data, []byte{0xf6}) || bytes.Equal(data, []byte{0xf7}) {"},
		{Name: "bstr/nil drops the major type test", File: "cbor.go", Rule: "R05.6",
			Old: "\tif data[0]>>5 != 2 { // major type 2: bstr\n\t\treturn errors.New(\"cbor: require bstr type\")\n\t}\n\treturn decModeWithTagsForbidden.Unmarshal(data, (*[]byte)(s))", New: "\treturn decModeWithTagsForbidden.Unmarshal(data, (*[]byte)(s))"},
		{Name: "D4 re-created: countersignature lists may be empty or hold nil", File: "headers.go", Quick: true, Rule: "R05.7",
			Old: "\tcase []*Countersignature:\n\t\tif len(v) == 0 {\n\t\t\treturn false\n\t\t}\n\t\tfor _, countersignature := range v {\n\t\t\tif countersignature == nil {\n\t\t\t\treturn false\n\t\t\t}\n\t\t}\n\t\treturn true", New: "\tcase []*Countersignature:\n\t\treturn true"},
	}
}

func T0p1() *Term { return &Term{Op: "param", S: "1"} }

// isExactlyF6: the facts say the input is exactly the single byte f6 (CBOR
// null): bytes.Equal(data, [f6]) or len(data) == 1 with data[0] == f6.
func isExactlyF6(fs factSet) bool {
	if len(fs.matchAll([]factPat{fp("call<bytes.Equal>($1, arr<byte>(246))")}, nil)) > 0 {
		return true
	}
	return len(fs.matchAll([]factPat{fp("binop<==>(1, len($1))"), fp("binop<==>(246, *index($1, 0))")}, nil)) > 0
}

// checkStructurePrefixes: the prefix half of R05.3 alone (shared with C09: the
// tag head and the array head of the structures are shortest-form on accepted
// input, so re-encoding, which always emits them so, differs from the input in
// nothing but the widths the property names).
func checkStructurePrefixes(r *Report, rule string) {
	P := r.P
	n := 0
	for _, T := range P.structureTypes() {
		name := T.Obj().Name()
		D := P.methodOf(T, "UnmarshalCBOR")
		sh, known := expectedShapes[name]
		if D == nil || !known {
			continue
		}
		n++
		exp := append(tagHead(sh.tag), byte(0x80+sh.n))
		ok, why := P.prefixEstablished(P.successFacts(D), T0p1(), exp)
		r.ob(rule, name+":prefix", D, nil, fmt.Sprintf("success implies the input starts with % x", exp)).check(ok, why, why)
	}
	r.floor(rule, n, 5, "structure decoders")
}

// helperResult: t is result 0 of an in-package helper call, or a field of it
// (the helper returns the whole value): the call term.
func helperResult(P *Prog, t *Term) *Term {
	if t.Op == "field" && len(t.Args) == 1 {
		t = t.Args[0]
	}
	// a field of the value behind a returned pointer: *h(...).f is printed as
	// load(field(res<0>(h(...)), f))
	if t.Op == "load" && len(t.Args) == 1 {
		t = t.Args[0]
		for t.Op == "field" && len(t.Args) == 1 {
			t = t.Args[0]
		}
	}
	if t.Op == "res" && t.S == "0" && len(t.Args) == 1 && t.Args[0].Op == "call" && P.calleeOfTerm(t.Args[0]) != nil {
		return t.Args[0]
	}
	return nil
}

package main

// Loop recognisers (DESIGN.md 2.5 "full-range loop recogniser", R06.2).

import (
	"go/token"
	"go/types"

	"golang.org/x/tools/go/ssa"
)

type loopInfo struct {
	fn     *ssa.Function
	header *ssa.BasicBlock
	body   *ssa.BasicBlock // entry of the body (successor taken while iterating)
	exit   *ssa.BasicBlock // successor taken when the range is exhausted
	kind   string          // "slice-range", "counted", "map-range", "other"
	idx    ssa.Value       // index value as used in the body (slice-range: i+1 value; counted: the phi)
	over   ssa.Value       // slice/array/map/string ranged over (nil for "other")
	// fullRange: index covers 0..len(over)-1 in steps of 1
	fullRange bool
	// constBound: the loop condition compares the index with this constant
	// (range over an array); -1 otherwise
	constBound int64
	blocks     map[*ssa.BasicBlock]bool // natural loop body (blocks that reach the back edge)
}

// findLoops finds the natural loops of fn (back edges to a dominating header).
func findLoops(fn *ssa.Function) []*loopInfo {
	var out []*loopInfo
	seen := map[*ssa.BasicBlock]bool{}
	for _, b := range fn.Blocks {
		for _, s := range b.Succs {
			if s.Dominates(b) && !seen[s] { // back edge b -> s
				seen[s] = true
				out = append(out, classifyLoop(fn, s))
			}
		}
	}
	return out
}

func naturalLoop(header *ssa.BasicBlock) map[*ssa.BasicBlock]bool {
	in := map[*ssa.BasicBlock]bool{header: true}
	var work []*ssa.BasicBlock
	for _, p := range header.Preds {
		if header.Dominates(p) && p != header {
			if !in[p] {
				in[p] = true
				work = append(work, p)
			}
		}
	}
	for len(work) > 0 {
		b := work[0]
		work = work[1:]
		for _, p := range b.Preds {
			if !in[p] {
				in[p] = true
				work = append(work, p)
			}
		}
	}
	return in
}

func lenOperand(v ssa.Value) ssa.Value {
	c, ok := v.(*ssa.Call)
	if !ok {
		return nil
	}
	b, ok := c.Call.Value.(*ssa.Builtin)
	if !ok || b.Name() != "len" || len(c.Call.Args) != 1 {
		return nil
	}
	return c.Call.Args[0]
}

func isConstInt(v ssa.Value, n int64) bool {
	c, ok := v.(*ssa.Const)
	if !ok {
		return false
	}
	x, ok := constInt64(c.Value)
	return ok && x == n
}

func classifyLoop(fn *ssa.Function, h *ssa.BasicBlock) *loopInfo {
	li := &loopInfo{fn: fn, header: h, kind: "other", blocks: naturalLoop(h), constBound: -1}
	if len(h.Instrs) == 0 {
		return li
	}
	iff, ok := h.Instrs[len(h.Instrs)-1].(*ssa.If)
	if !ok {
		return li
	}
	t, f := h.Succs[0], h.Succs[1]
	switch {
	case li.blocks[t] && !li.blocks[f]:
		li.body, li.exit = t, f
	case li.blocks[f] && !li.blocks[t]:
		li.body, li.exit = f, t
	default:
		return li
	}
	// map range: cond = extract (next iter) #0
	if ex, ok := iff.Cond.(*ssa.Extract); ok && ex.Index == 0 {
		if nx, ok := ex.Tuple.(*ssa.Next); ok {
			if rg, ok := nx.Iter.(*ssa.Range); ok && li.body == t {
				li.kind = "map-range"
				if _, isStr := rg.X.Type().Underlying().(*types.Basic); isStr {
					li.kind = "string-range"
				}
				li.over = rg.X
				li.fullRange = true
				return li
			}
		}
	}
	cmp, ok := iff.Cond.(*ssa.BinOp)
	if !ok || li.body != t {
		return li
	}
	// a conjunctive loop condition (for i := 0; c && i < n; i++): the counter
	// test sits in a later block of the condition chain; every block of the
	// chain leaves the loop on its false edge and only computes the condition
	for hops := 0; hops < 3; hops++ {
		if ph, isPhi := cmp.X.(*ssa.Phi); cmp.Op == token.LSS && isPhi && ph.Block() == h {
			break
		}
		if inc, isInc := cmp.X.(*ssa.BinOp); cmp.Op == token.LSS && isInc && inc.Op == token.ADD {
			break
		}
		nb := li.body
		if len(nb.Preds) != 1 || len(nb.Succs) != 2 || !li.blocks[nb.Succs[0]] || li.blocks[nb.Succs[1]] {
			return li
		}
		pure := true
		for _, in := range nb.Instrs[:len(nb.Instrs)-1] {
			switch in.(type) {
			case *ssa.BinOp, *ssa.DebugRef:
			default:
				pure = false
			}
		}
		nif, isIf := nb.Instrs[len(nb.Instrs)-1].(*ssa.If)
		if !pure || !isIf {
			return li
		}
		ncmp, isCmp := nif.Cond.(*ssa.BinOp)
		if !isCmp {
			return li
		}
		cmp, li.body = ncmp, nb.Succs[0]
	}
	if cmp.Op != token.LSS {
		return li
	}
	over := lenOperand(cmp.Y)
	if c, ok := cmp.Y.(*ssa.Const); ok {
		if n, ok := constInt64(c.Value); ok && n >= 0 {
			li.constBound = n
		}
	}
	// slice-range: phi(-1, inc), inc = phi+1, cond inc < len(X)
	if inc, ok := cmp.X.(*ssa.BinOp); ok && inc.Op == token.ADD && isConstInt(inc.Y, 1) {
		if phi, ok := inc.X.(*ssa.Phi); ok && phi.Block() == h {
			okShape := true
			for i, e := range phi.Edges {
				if li.blocks[h.Preds[i]] && h.Preds[i] != h || h.Preds[i] == h {
					if e != inc {
						okShape = false
					}
				} else if !isConstInt(e, -1) {
					okShape = false
				}
			}
			if okShape {
				li.kind = "slice-range"
				li.idx = inc
				li.over = over
				li.fullRange = over != nil
				return li
			}
		}
	}
	// counted: phi(0, phi+1), cond phi < len(X) (or < any bound)
	if phi, ok := cmp.X.(*ssa.Phi); ok && phi.Block() == h {
		okShape := true
		for i, e := range phi.Edges {
			if li.blocks[h.Preds[i]] {
				inc, ok := e.(*ssa.BinOp)
				if !ok || inc.Op != token.ADD || inc.X != phi || !isConstInt(inc.Y, 1) {
					okShape = false
				}
			} else if !isConstInt(e, 0) {
				okShape = false
			}
		}
		if okShape {
			li.kind = "counted"
			li.idx = phi
			li.over = over
			li.fullRange = over != nil
			// an integer bound (for i := 0; i < n; i++) is still monotone
			return li
		}
	}
	return li
}

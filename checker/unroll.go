package main

// Constant-bound loops (range over a local array literal, `for i := 0; i <
// len(arr); i++` with arr an array): a call in the body whose success every
// continuing iteration requires is, at an exit behind the loop, a success of
// that call for every index 0..N-1. The instances are evaluated with the
// index fixed to each constant (element loads forward to the literal's
// stores) and added to the exit's facts.

import (
	"strconv"

	"golang.org/x/tools/go/ssa"
)

// withConst returns an engine in which the given SSA values are constants.
func (e *termEngine) withConst(vals map[ssa.Value]int64) *termEngine {
	n := newTermEngine(e.P)
	n.constIdx = vals
	return n
}

// unrolledOKFacts: ok(call_j) facts of constant-bound loops that x lies behind.
func (P *Prog) unrolledOKFacts(x *exitInfo) []Fact {
	fn := x.ret.Parent()
	var out []Fact
	for _, L := range findLoops(fn) {
		if L.constBound < 1 || L.constBound > 16 || L.idx == nil || !(L.kind == "counted" || L.kind == "slice-range") || L.exit == nil {
			continue
		}
		if !(L.exit == x.ret.Block() || L.exit.Dominates(x.ret.Block())) {
			continue
		}
		paths := P.enumPaths(fn, L.body, func(b *ssa.BasicBlock) bool { return b == L.header }, false)
		for b := range L.blocks {
			for _, in := range b.Instrs {
				ci, ok := in.(ssa.CallInstruction)
				if !ok || ci.Value() == nil {
					continue
				}
				h := staticCallee(ci)
				if h == nil || errIndex(h) < 0 {
					continue
				}
				errOf := func(t *Term) *Term {
					if h.Signature.Results().Len() > 1 {
						return &Term{Op: "res", S: strconv.Itoa(errIndex(h)), Args: []*Term{t}}
					}
					return t
				}
				// every continuing iteration passed ok(ci); returning ones fail
				always := len(paths) > 0
				for _, p := range paths {
					if p.ret != nil {
						fs := factSet{}
						for _, c := range p.conds {
							fs.add(c)
						}
						ei := errIndex(fn)
						if ei < 0 {
							always = false
						} else if k, _ := P.classifyErr(p.results()[ei], fs); k != exitFailure {
							always = false
						}
						continue
					}
					if !p.has(okFact(errOf(p.eng.of(ci.Value())))) {
						always = false
					}
				}
				if !always {
					continue
				}
				for j := int64(0); j < L.constBound; j++ {
					eng := P.terms.withConst(map[ssa.Value]int64{L.idx: j})
					out = append(out, okFact(errOf(eng.callTerm(ci.Common()))))
				}
			}
		}
	}
	return out
}

// instanceFacts: the branch conditions dominating instruction at, evaluated
// by engine eng (one iteration of a constant-bound loop: the index is a
// constant, element loads forward to the literal).
func instanceFacts(P *Prog, eng *termEngine, at ssa.Instruction) []Fact {
	var out []Fact
	b := at.Block()
	for d := b.Idom(); d != nil; b, d = d, d.Idom() {
		if len(d.Instrs) == 0 {
			continue
		}
		iff, ok := d.Instrs[len(d.Instrs)-1].(*ssa.If)
		if !ok || d.Succs[0] == d.Succs[1] {
			continue
		}
		t, f := d.Succs[0], d.Succs[1]
		// a successor that dominates the branching block is a back edge
		// (continue): it does not lead to b within this iteration
		leads := func(s *ssa.BasicBlock) bool { return s == b || (s.Dominates(b) && !s.Dominates(d)) }
		tOnly := leads(t) && !leads(f)
		fOnly := leads(f) && !leads(t)
		if !tOnly && !fOnly {
			continue
		}
		tmp := factSet{}
		P.addEdgeFacts(tmp, eng.of(iff.Cond), tOnly, iff)
		for _, x := range tmp {
			out = append(out, x)
		}
	}
	return out
}

package main

// C03 — Verify returns nil only through the primitive / the verifier.

import (
	"fmt"
	"go/types"
	"sort"
	"strings"

	"golang.org/x/tools/go/ssa"
)

func init() {
	register(&propSpec{id: "C03", title: "Verify accepts exactly the valid signatures (only-if skeleton)", run: runC03, mutants: mutC03, design: "DESIGN.md section 3, C03"})
}

// crypto verification primitives: argument roles and accepting outcome.
type primSpec struct {
	key, msg int
	sig      []int
	accept   string // "true" | "nil"
}

var verifyPrims = map[string]primSpec{
	"crypto/ecdsa.Verify":   {key: 0, msg: 1, sig: []int{2, 3}, accept: "true"},
	"crypto/ed25519.Verify": {key: 0, msg: 1, sig: []int{2}, accept: "true"},
	"crypto/rsa.VerifyPSS":  {key: 0, msg: 2, sig: []int{3}, accept: "nil"},
}

// paramsIn lists the parameter indexes occurring in t.
func paramsIn(t *Term) map[string]bool {
	out := map[string]bool{}
	t.walk(func(u *Term) {
		if u.Op == "param" {
			out[u.S] = true
		}
	})
	return out
}

func subset(a map[string]bool, allowed ...string) bool {
	for k := range a {
		ok := false
		for _, x := range allowed {
			if k == x {
				ok = true
			}
		}
		if !ok {
			return false
		}
	}
	return true
}

// acceptedPrim finds in fs the accepting fact of a verification primitive.
func acceptedPrim(fs factSet) (*Term, string) {
	for _, k := range fs.sorted() {
		f := fs[k]
		if f.Pred.Op == "call" && f.Val {
			if ps, ok := verifyPrims[f.Pred.S]; ok && ps.accept == "true" {
				return f.Pred, f.Pred.S
			}
		}
		if f.Val && f.Pred.Op == "binop" && f.Pred.S == "==" {
			for i := 0; i < 2; i++ {
				if f.Pred.Args[i].Op == "nil" && f.Pred.Args[1-i].Op == "call" {
					if ps, ok := verifyPrims[f.Pred.Args[1-i].S]; ok && ps.accept == "nil" {
						return f.Pred.Args[1-i], f.Pred.Args[1-i].S
					}
				}
			}
		}
	}
	return nil, ""
}

// builtinVerifierMethods: Verify/VerifyDigest of in-package Verifier /
// DigestVerifier implementations.
func (P *Prog) builtinVerifierMethods() []*ssa.Function {
	out := P.implementors(P.iface("Verifier"), "Verify")
	out = append(out, P.implementors(P.iface("DigestVerifier"), "VerifyDigest")...)
	return out
}

// verifyEntryPoints: exported functions/methods taking a Verifier or
// ...Verifier and returning an error last.
func (P *Prog) verifyEntryPoints() []*ssa.Function {
	var out []*ssa.Function
	for _, fn := range P.Funcs {
		if fn.Parent() != nil || fn.Object() == nil || !fn.Object().Exported() {
			continue
		}
		if errIndex(fn) < 0 {
			continue
		}
		has := false
		ps := fn.Signature.Params()
		for i := 0; i < ps.Len(); i++ {
			t := ps.At(i).Type()
			if s, ok := t.(*types.Slice); ok {
				t = s.Elem()
			}
			if isNamed(t, cosePath, "Verifier") {
				has = true
			}
		}
		if has {
			out = append(out, fn)
		}
	}
	return out
}

func (P *Prog) signEntryPoints() []*ssa.Function {
	var out []*ssa.Function
	for _, fn := range P.Funcs {
		if fn.Parent() != nil || fn.Object() == nil || !fn.Object().Exported() {
			continue
		}
		if errIndex(fn) < 0 {
			continue
		}
		has := false
		ps := fn.Signature.Params()
		for i := 0; i < ps.Len(); i++ {
			t := ps.At(i).Type()
			if s, ok := t.(*types.Slice); ok {
				t = s.Elem()
			}
			if isNamed(t, cosePath, "Signer") {
				has = true
			}
		}
		if has {
			out = append(out, fn)
		}
	}
	return out
}

// verifierOKIn: an ok-fact of an invoke of Verifier.Verify (any receiver
// unless recv != nil) is in fs.
func verifierOKIn(fs factSet, recv *Term) *Term {
	for _, c := range fs.findOK(func(call *Term) bool { return call.S == "invoke:Verifier.Verify" }) {
		if recv == nil || c.Args[0].eq(recv) {
			return c
		}
	}
	return nil
}

func exitFacts(P *Prog, x *exitInfo) factSet {
	fs := x.facts
	if x.delegated {
		fs = fs.clone()
		P.addEdgeFacts(fs, &Term{Op: "binop", S: "==", Args: []*Term{x.errTerm, tNil()}}, true, x.ret)
	}
	if un := P.unrolledOKFacts(x); len(un) > 0 {
		fs = fs.clone()
		for _, f := range un {
			fs.add(f)
		}
	}
	return fs
}

// contextConsts: the string constants that can reach element 0 of the encoded
// array in an (expanded) content term.
func contextConsts(t *Term) []string {
	set := map[string]bool{}
	var collect func(u *Term)
	collect = func(u *Term) {
		switch u.Op {
		case "const":
			set[u.S] = true
		case "phi", "alt":
			for _, a := range u.Args {
				collect(a)
			}
		case "gate":
			collect(u.Args[1])
			collect(u.Args[2])
		case "iface":
			collect(u.Args[0])
		default:
			set["?"+u.String()] = true
		}
	}
	for _, a := range encodedArrays(t) {
		if len(a.Args) > 0 {
			collect(a.Args[0])
		}
	}
	var out []string
	for k := range set {
		out = append(out, k)
	}
	sort.Strings(out)
	return out
}

// siteKind classifies a key site by the receiver type of its function.
func siteKind(s *keySite) string {
	if s.fn.Signature.Recv() != nil {
		t := s.fn.Signature.Recv().Type()
		if p, ok := t.(*types.Pointer); ok {
			t = p.Elem()
		}
		if n, ok := t.(*types.Named); ok {
			return n.Obj().Name()
		}
	}
	return s.fn.Name()
}

var expectedContexts = map[string][]string{
	"Sign1Message":       {`"Signature1"`},
	"Signature":          {`"Signature"`},
	"Countersignature":   {`"CounterSignature"`, `"CounterSignature0"`, `"CounterSignature0V2"`, `"CounterSignatureV2"`},
	"Countersign0":       {`"CounterSignature"`, `"CounterSignature0"`, `"CounterSignature0V2"`, `"CounterSignatureV2"`},
	"VerifyCountersign0": {`"CounterSignature"`, `"CounterSignature0"`, `"CounterSignature0V2"`, `"CounterSignatureV2"`},
}

var requiredContexts = map[string][]string{
	"Countersignature":   {`"CounterSignature"`, `"CounterSignatureV2"`},
	"Countersign0":       {`"CounterSignature0"`, `"CounterSignature0V2"`},
	"VerifyCountersign0": {`"CounterSignature0"`, `"CounterSignature0V2"`},
}

func runC03(r *Report, tier string) {
	P := r.P
	r.rule("R03.1", "in every built-in Verifier/DigestVerifier method each non-failure exit is dominated by the accepting outcome of the crypto primitive (ecdsa.Verify true, rsa.VerifyPSS nil, ed25519.Verify true) with message=content/digest param, signature args derived from the signature param only, key from the receiver, or is delegated to a sibling method under the same rule; failure exits return ErrVerification or the hash error.")
	r.rule("R03.2", "in every exported Verify entry point each non-failure exit carries ok(Verifier.Verify invoke) on the caller's verifier (directly, by delegation, or per element of a full-range loop).")
	r.rule("R03.3", "before the verifier invoke of each structure's Verify: signature non-empty, payload non-nil (where the structure has one), algorithm gate succeeded.")
	r.rule("R02.3", "(shared with C02) the bstr head normaliser applied to protected bytes returns its input unchanged for shortest-form heads and otherwise the same content under the shortest head; it refuses only malformed input.")
	r.rule("R16.3", "strict ECDSA decode (shared with C16): the decode helper succeeds only for len(sig) == 2n and splits at n, so no byte can be inserted into or removed from a signature without changing (r, s) or being refused.")
	r.rule("R03.4", "the context strings reaching element 0 of every ToBeSigned array are the six RFC constants, and Sign1 / Signature / countersignature builders produce disjoint sets.")
	r.assumes("crypto/ecdsa.Verify, crypto/rsa.VerifyPSS and crypto/ed25519.Verify accept only valid signatures (not analysed)")

	// R03.1
	vms := P.builtinVerifierMethods()
	r.floor("R03.1", len(vms), 5, "built-in verifier methods")
	inSet := map[string]bool{}
	for _, fn := range vms {
		inSet[shortFn(fn)] = true
	}
	for _, fn := range vms {
		fr := P.factsOf(fn)
		nparams := len(fn.Params)
		sigParam := fmt.Sprint(nparams - 1)
		msgParam := fmt.Sprint(nparams - 2)
		_ = fr
		// helpers that are neither verifier methods nor primitives are seen through
		for xi, x := range P.deepExits(fn, func(h *ssa.Function) bool { return !inSet[shortFn(h)] }) {
			r.paths++
			key := fmt.Sprintf("%s:exit:%s", shortFn(fn), exitID(P, fn, x))
			if x.pred == nil && len(P.factsOf(fn).exits) != len(P.deepExits(fn, func(h *ssa.Function) bool { return !inSet[shortFn(h)] })) {
				key += fmt.Sprintf("#%d", xi)
			}
			if x.kind == exitFailure {
				o := r.ob("R03.1", key+":failure-error", fn, x.ret, "failure exit returns ErrVerification or the hash error")
				et := x.errTerm
				okErr := et.Op == "load" && et.Args[0].Op == "global" && et.Args[0].S == "ErrVerification"
				if !okErr && (et.Op == "res" || et.Op == "call") {
					// error handed through from the hashing helper
					c := et
					if et.Op == "res" {
						c = et.Args[0]
					}
					if f := P.calleeOfTerm(c); f != nil && !inSet[shortFn(f)] {
						okErr = true
					}
				}
				o.check(okErr, "error term "+et.String(), "failure exit returns "+et.String()+", neither ErrVerification nor the hashing helper's error")
				continue
			}
			o := r.ob("R03.1", key, fn, x.ret, "non-failure exit is dominated by the primitive's accepting outcome")
			if x.kind == exitMixed {
				o.fail("exit may return nil without a decided verdict: " + x.errTerm.String())
				continue
			}
			// (a) delegated to a sibling
			if x.delegated {
				c := x.errTerm
				if c.Op == "res" {
					c = c.Args[0]
				}
				if inSet[c.S] && c.S != shortFn(fn) {
					// digest argument must be computed from the content param and the receiver only
					ps := paramsIn(c.Args[1])
					okArgs := len(c.Args) == 3 && c.Args[0].String() == "$0" && c.Args[2].String() == "$"+sigParam && ps[msgParam] && subset(ps, "0", msgParam)
					o.check(okArgs, "delegated to "+c.S+" with receiver, digest(content), signature", "delegation to "+c.S+" does not pass (receiver, digest of content, signature): "+c.String())
					continue
				}
				o.fail("exit hands through the verdict of " + c.S + ", which is not a verification primitive or sibling")
				continue
			}
			pc, name := acceptedPrim(x.facts)
			if pc == nil {
				o.fail("nil is returned on a path without the accepting outcome of a crypto verification primitive")
				continue
			}
			ps := verifyPrims[name]
			okKey := strings.Contains(pc.Args[ps.key].String(), "*$0.")
			okMsg := pc.Args[ps.msg].String() == "$"+msgParam
			okSig := true
			for _, i := range ps.sig {
				p := paramsIn(pc.Args[i])
				if !p[sigParam] || !subset(p, "0", sigParam) {
					okSig = false
				}
				// a primitive that takes the signature bytes themselves gets the
				// parameter itself: no re-sliced, padded or otherwise rebuilt copy
				// (whose acceptance would no longer be the received bytes')
				if len(ps.sig) == 1 && pc.Args[i].String() != "$"+sigParam {
					okSig = false
				}
			}
			o.check(okKey && okMsg && okSig, "accepting fact "+name+" with key=receiver field, message=param, signature from signature param",
				fmt.Sprintf("primitive %s is fed key=%s msg=%s (key from receiver:%v, message is the content/digest parameter:%v, signature args only from the signature parameter:%v)", name, pc.Args[ps.key], pc.Args[ps.msg], okKey, okMsg, okSig))
		}
	}

	checkVerifyEntryPoints(r, "R03.2")

	// exact-width ECDSA decoding: a changed signature cannot decode to the same (r, s)
	checkECDSAStrictDecode(r, "R16.3")
	// RSASSA-PSS parameters are the algorithm's: hash of the algorithm, salt
	// length fixed to the hash length (no auto-detection on verify)
	checkPSSOptions(r, "R03.1")
	// the protected bytes enter the signed structure as received: the head
	// normaliser changes nothing but the width of the length prefix
	checkHeadNormalizer(r, "R02.3")

	// R03.3 and R03.4 over key sites
	sites := P.keySites()
	r.sites += len(sites)
	nv := 0
	allCtx := map[string]bool{}
	kindCtx := map[string]map[string]bool{}
	for _, s := range sites {
		kind := siteKind(s)
		content := P.terms.expand(P.terms.of(s.content), 8)
		ctx := contextConsts(content)
		o := r.ob("R03.4", shortFn(s.fn)+":context", s.fn, s.call, "context constants at this key site are exactly those of its structure kind")
		exp := expectedContexts[kind]
		okCtx := exp != nil && strings.Join(ctx, ",") == strings.Join(exp, ",")
		if req, isCS := requiredContexts[kind]; isCS && exp != nil {
			// the builder serves both forms: the site's constants lie within the
			// countersignature set and include the two of the site's own form
			// (a term in which the form selector is already folded shows only those)
			in := func(set []string, c string) bool {
				for _, x := range set {
					if x == c {
						return true
					}
				}
				return false
			}
			okCtx = len(ctx) > 0
			for _, c := range ctx {
				okCtx = okCtx && in(exp, c)
			}
			for _, c := range req {
				okCtx = okCtx && in(ctx, c)
			}
		}
		o.check(okCtx, "contexts "+strings.Join(ctx, ","), fmt.Sprintf("contexts %v, expected %v for %s", ctx, exp, kind))
		ck := kind
		if strings.Contains(kind, "ountersign") {
			ck = "countersignature"
		}
		if kindCtx[ck] == nil {
			kindCtx[ck] = map[string]bool{}
		}
		for _, c := range ctx {
			allCtx[c] = true
			kindCtx[ck][c] = true
		}
		r.sample(map[string]any{"site": shortFn(s.fn), "pos": P.instrPos(s.call), "content_term": content.String()})
		if s.sign || s.fn.Signature.Recv() == nil {
			continue
		}
		// R03.3: structure Verify methods with headers
		nv++
		fs := P.factsBefore(s.call)
		sigT := P.terms.of(s.sig)
		o1 := r.ob("R03.3", shortFn(s.fn)+":nonempty-signature", s.fn, s.call, "len(signature) > 0 before the verifier is invoked")
		o1.check(fs.holdsNonEmpty(sigT), "fact len("+sigT.String()+")!=0", "no dominating non-empty check of "+sigT.String())
		o2 := r.ob("R03.3", shortFn(s.fn)+":gate", s.fn, s.call, "algorithm gate succeeded before the verifier is invoked")
		g := gateCallIn(fs, "invoke:Verifier.Algorithm", P.terms.of(s.recv))
		o2.check(g != nil, "ok("+fmt.Sprint(g)+")", "no dominating ok(gate(verifier.Algorithm(), ...))")
		// payload: last element of the encoded array
		if pl := payloadOfContent(content); pl != nil && kind != "Countersignature" {
			o3 := r.ob("R03.3", shortFn(s.fn)+":payload-nonnil", s.fn, s.call, "payload is non-nil before the verifier is invoked")
			o3.check(fs.holdsNonNil(pl), "fact "+pl.String()+"!=nil", "no dominating nil check of the payload "+pl.String())
		}
	}
	r.floor("R03.3", nv, 3, "structure Verify methods with a key site")
	// disjointness
	od := r.ob("R03.4", "contexts:disjoint", nil, nil, "Sign1, Signature and countersignature builders use disjoint context sets covering the six RFC constants")
	want := []string{`"CounterSignature"`, `"CounterSignature0"`, `"CounterSignature0V2"`, `"CounterSignatureV2"`, `"Signature"`, `"Signature1"`}
	var got []string
	for c := range allCtx {
		got = append(got, c)
	}
	sort.Strings(got)
	disj := true
	kinds := []string{}
	for k := range kindCtx {
		kinds = append(kinds, k)
	}
	sort.Strings(kinds)
	for i := 0; i < len(kinds); i++ {
		for j := i + 1; j < len(kinds); j++ {
			for c := range kindCtx[kinds[i]] {
				if kindCtx[kinds[j]][c] {
					disj = false
				}
			}
		}
	}
	od.check(disj && strings.Join(got, ",") == strings.Join(want, ","), "contexts "+strings.Join(got, ","), fmt.Sprintf("context sets %v (disjoint across kinds: %v), expected exactly %v", got, disj, want))
	// the verdict depends on protected bytes only, and on the bytes received
	r.rule("R04.2", "(shared with C04) the verification gate consults the protected alg through the one accessor and succeeds only for alg equal or alg absent with external data; it writes nothing.")
	checkGatesOnly(r)
	r.rule("R19.3", "(shared with C19) decoders keep no window into the caller's buffer: what Verify reads later is what was received.")
	checkInputNotRetained(r, "R19.3")
	r.rule("R02.4", "(shared with C02) nobody outside the decoders rewrites the retained raw header bytes of a value reached through a pointer: verification after decoding sees the protected bytes as received.")
	checkRawBucketWriters(r, "R02.4")
}

// exitID names an exit without line numbers: ordinal among the function's
// returns by kind and returned error term.
func exitID(P *Prog, fn *ssa.Function, x *exitInfo) string {
	fr := P.factsOf(fn)
	n := 0
	for _, y := range fr.exits {
		if y == x {
			break
		}
		if y.kind == x.kind {
			n++
		}
	}
	return fmt.Sprintf("%s#%d", x.kind, n)
}

// gateCallIn finds ok(f(..., algCall(recv), ...)) for an in-package f where
// algCall is the named invoke on recv.
func gateCallIn(fs factSet, algInvoke string, recv *Term) *Term {
	for _, c := range fs.findOK(func(call *Term) bool { return !strings.HasPrefix(call.S, "invoke:") }) {
		for _, a := range c.Args {
			if a.Op == "call" && a.S == algInvoke && len(a.Args) == 1 && a.Args[0].eq(recv) {
				return c
			}
		}
	}
	return nil
}

// encodedArrays: the base array literal(s) of the []any value handed to the
// encoder in a ToBeSigned term: Enc(iface<[]any>(X)) with X an arr, or
// gate/phi/alt over such, or append(arr, ...).
func encodedArrays(content *Term) []*Term {
	var out []*Term
	var base func(x *Term)
	base = func(x *Term) {
		switch x.Op {
		case "arr":
			out = append(out, x)
		case "append":
			base(x.Args[0])
		case "gate":
			base(x.Args[1])
			base(x.Args[2])
		case "phi", "alt":
			for _, a := range x.Args {
				base(a)
			}
		case "iface":
			base(x.Args[0])
		}
	}
	var top func(x *Term)
	top = func(x *Term) {
		switch x.Op {
		case "res":
			top(x.Args[0])
		case "alt", "phi", "choice":
			for _, a := range x.Args {
				top(a)
			}
		case "gate":
			top(x.Args[1])
			top(x.Args[2])
		case "call":
			if x.S == "invoke:cbor.EncMode.Marshal" && len(x.Args) == 2 {
				base(x.Args[1])
			}
		}
	}
	top(content)
	return out
}

// payloadOfContent: the last element of the array encoded as ToBeSigned.
func payloadOfContent(content *Term) *Term {
	var arr *Term
	for _, a := range encodedArrays(content) {
		if arr == nil && len(a.Args) >= 4 {
			arr = a
		}
	}
	if arr == nil {
		return nil
	}
	last := arr.Args[len(arr.Args)-1]
	if last.Op == "iface" {
		last = last.Args[0]
	}
	return last
}

func mutC03() []mutant {
	return []mutant{
		{Name: "ecdsa verifier returns nil on the wrong-length branch", File: "ecdsa.go", Quick: true, Rule: "R03.1",
			Old: "\tr, s, err := decodeECDSASignature(ev.key.Curve, signature)\n\tif err != nil {\n\t\treturn ErrVerification\n\t}",
			New: "\tr, s, err := decodeECDSASignature(ev.key.Curve, signature)\n\tif err != nil {\n\t\treturn nil\n\t}"},
		{Name: "rsa verifier ignores VerifyPSS error for some inputs", File: "rsa.go", Rule: "R03.1",
			Old: "}); err != nil {\n\t\treturn ErrVerification", New: "}); err != nil && len(signature) > 0 {\n\t\treturn ErrVerification"},
		{Name: "ed25519 verifier condition inverted", File: "ed25519.go", Rule: "R03.1",
			Old: "!verified {", New: "verified {"},
		{Name: "ed25519 verifier checks a different key", File: "ed25519.go", Rule: "R03.1",
			Old: "ed25519.Verify(ev.key, content, signature)", New: "ed25519.Verify(ed25519.PublicKey(signature), content, signature)"},
		{Name: "Sign1Message.Verify returns nil after a failed toBeSigned", File: "sign1.go", Quick: true, Rule: "R03.2",
			Old: "\ttoBeSigned, err := m.toBeSigned(external)\n\tif err != nil {\n\t\treturn err\n\t}\n\treturn verifier.Verify", New: "\ttoBeSigned, err := m.toBeSigned(external)\n\tif err != nil {\n\t\treturn nil\n\t}\n\treturn verifier.Verify"},
		{Name: "VerifyHashEnvelope skips message.Verify for empty payloads", File: "hash_envelope.go", Rule: "R03.2",
			Old: "if err := message.Verify(nil, verifier); err != nil {", New: "if err := message.Verify(nil, verifier); err != nil && len(message.Payload) > 0 {"},
		{Name: "Countersignature built with context \"Signature\"", File: "countersign.go", Rule: "R03.4",
			Old: "context = \"CounterSignature\"\n", New: "context = \"Signature\"\n"},
		{Name: "Signature.Verify drops the empty-signature pre-check", File: "sign.go", Rule: "R03.3",
			Old: "\tif len(s.Signature) == 0 {\n\t\treturn ErrEmptySignature\n\t}\n\tif len(protected) == 0", New: "\tif len(protected) == 0"},
		{Name: "SignMessage.Verify stops after the first valid signature", File: "sign.go", Rule: "R03.2",
			Old: "\t\tif err := signature.Verify(verifiers[i], protected, m.Payload, external); err != nil {\n\t\t\treturn err\n\t\t}\n\t}\n\treturn nil", New: "\t\tif err := signature.Verify(verifiers[i], protected, m.Payload, external); err == nil {\n\t\t\treturn nil\n\t\t}\n\t}\n\treturn ErrVerification"},
	}
}

// checkVerifyEntryPoints: R03.2 - every exported Verify entry point returns
// nil only under ok(Verifier.Verify) on the caller's verifier (per element and
// per index for COSE_Sign): a verifier's error is never turned into success.
func checkVerifyEntryPoints(r *Report, rule string) {
	P := r.P
	eps := P.verifyEntryPoints()
	r.floor(rule, len(eps), 7, "Verify entry points")
	for _, fn := range eps {
		fr := P.factsOf(fn)
		// the verifier parameter
		var vterm *Term
		variadic := false
		for i, p := range fn.Params {
			t := p.Type()
			if s, ok := t.(*types.Slice); ok && isNamed(s.Elem(), cosePath, "Verifier") {
				vterm, variadic = T("param", fmt.Sprint(i)), true
			} else if isNamed(t, cosePath, "Verifier") {
				vterm = T("param", fmt.Sprint(i))
			}
		}
		for _, x := range fr.exits {
			r.paths++
			if x.kind == exitFailure {
				continue
			}
			o := r.ob(rule, fmt.Sprintf("%s:exit:%s", shortFn(fn), exitID(P, fn, x)), fn, x.ret, "non-failure exit carries ok(Verifier.Verify) on the caller's verifier")
			if x.kind == exitMixed {
				o.fail("exit may return nil without a decided verdict: " + x.errTerm.String())
				continue
			}
			if variadic {
				why := positionalLoopOK(P, fn, x, "invoke:Verifier.Verify")
				o.check(why == "", "every element of the full-range loop passed ok(Verify) with the verifier at the same index", why)
				continue
			}
			c := verifierOKIn(exitFacts(P, x), vterm)
			o.check(c != nil, "ok("+fmt.Sprint(c)+")", "success is returned on a path without ok(verifier.Verify(...)) on parameter "+vterm.String())
		}
	}

}

package main

// Case paths: the entry-to-return paths of a small function with one counted
// loop whose trip count depends on an integer that the conditions before the
// loop confine to a handful of values (e.g. the additional-information value
// of a CBOR head, 25..27, selecting 1, 2 or 4 bytes to inspect). The ordinary
// path enumeration cuts back edges, so a path that goes round such a loop
// twice does not exist for it; here the function is unfolded per value of the
// case variable and per iteration, with the case variable and the loop
// counter fixed to constants in the term engine. Used where a boolean
// helper's outcome is expanded into the conditions that produce it.

import (
	"go/token"
	"go/types"

	"golang.org/x/tools/go/ssa"
)

type countedLoop struct {
	L      *loopInfo
	phi    *ssa.Phi
	start  int64
	incl   bool      // i <= bound (otherwise i < bound)
	bound  ssa.Value // loop-invariant
	body   *ssa.BasicBlock
	exit   *ssa.BasicBlock
	caseV  ssa.Value // the non-constant leaf the bound depends on (nil: bound is a constant)
	header *ssa.BasicBlock
}

// monotoneLoop recognises `for i := c; i < B; i++` / `i <= B` with B defined
// outside the loop.
func monotoneLoop(fn *ssa.Function, L *loopInfo) *countedLoop {
	h := L.header
	if len(h.Instrs) == 0 || len(h.Succs) != 2 {
		return nil
	}
	iff, ok := h.Instrs[len(h.Instrs)-1].(*ssa.If)
	if !ok {
		return nil
	}
	cmp, ok := iff.Cond.(*ssa.BinOp)
	if !ok || (cmp.Op != token.LSS && cmp.Op != token.LEQ) {
		return nil
	}
	phi, ok := cmp.X.(*ssa.Phi)
	if !ok || phi.Block() != h {
		return nil
	}
	if !L.blocks[h.Succs[0]] || L.blocks[h.Succs[1]] {
		return nil
	}
	cl := &countedLoop{L: L, phi: phi, incl: cmp.Op == token.LEQ, bound: cmp.Y, body: h.Succs[0], exit: h.Succs[1], header: h}
	for i, e := range phi.Edges {
		if L.blocks[h.Preds[i]] {
			inc, ok := e.(*ssa.BinOp)
			if !ok || inc.Op != token.ADD || inc.X != ssa.Value(phi) || !isConstInt(inc.Y, 1) {
				return nil
			}
		} else {
			c, ok := constIntOf(e)
			if !ok {
				return nil
			}
			cl.start = c
		}
	}
	// the bound is loop-invariant
	if bi, ok := cmp.Y.(ssa.Instruction); ok && L.blocks[bi.Block()] {
		return nil
	}
	// its single non-constant leaf
	v := cmp.Y
	for depth := 0; depth < 6; depth++ {
		switch x := v.(type) {
		case *ssa.Const:
			return cl
		case *ssa.Convert:
			v = x.X
			continue
		case *ssa.BinOp:
			_, cx := x.X.(*ssa.Const)
			_, cy := x.Y.(*ssa.Const)
			switch x.Op {
			case token.ADD, token.SUB, token.MUL, token.SHL, token.SHR:
			default:
				// a masked or otherwise derived value is the case variable itself
				cx, cy = false, false
			}
			switch {
			case cx && !cy:
				v = x.Y
				continue
			case cy && !cx:
				v = x.X
				continue
			}
		}
		break
	}
	cl.caseV = v
	return cl
}

// smallDomain: the integer values the facts leave for term tv (at most max).
func smallDomain(tv *Term, fs []Fact, max int) ([]int64, bool) {
	return smallDomainIn(tv, fs, int64(-1<<62), int64(1<<62), max)
}

// smallDomainIn: smallDomain with bounds known beforehand (e.g. 0..7 for the
// major type of a CBOR head byte).
func smallDomainIn(tv *Term, fs []Fact, lo, hi int64, max int) ([]int64, bool) {
	if tv.Op == "binop" && tv.S == "&" && len(tv.Args) == 2 {
		for _, a := range tv.Args {
			if m, ok := termConstInt(a); ok && m >= 0 {
				lo, hi = 0, m
			}
		}
	}
	excl := map[int64]bool{}
	for _, f := range fs {
		p := f.Pred
		if p.Op != "binop" || len(p.Args) != 2 {
			continue
		}
		a, b := p.Args[0], p.Args[1]
		ca, aConst := termConstInt(a)
		cb, bConst := termConstInt(b)
		switch {
		case a.eq(tv) && bConst: // tv OP c
			switch p.S {
			case "<":
				if f.Val {
					hi = min64(hi, cb-1)
				} else {
					lo = max64(lo, cb)
				}
			case "<=":
				if f.Val {
					hi = min64(hi, cb)
				} else {
					lo = max64(lo, cb+1)
				}
			case "==":
				if f.Val {
					lo, hi = max64(lo, cb), min64(hi, cb)
				} else {
					excl[cb] = true
				}
			}
		case b.eq(tv) && aConst: // c OP tv
			switch p.S {
			case "<":
				if f.Val {
					lo = max64(lo, ca+1)
				} else {
					hi = min64(hi, ca)
				}
			case "<=":
				if f.Val {
					lo = max64(lo, ca)
				} else {
					hi = min64(hi, ca-1)
				}
			case "==":
				if f.Val {
					lo, hi = max64(lo, ca), min64(hi, ca)
				} else {
					excl[ca] = true
				}
			}
		}
	}
	if hi-lo < 0 || hi-lo > 64 {
		return nil, false
	}
	var out []int64
	for v := lo; v <= hi; v++ {
		if !excl[v] {
			out = append(out, v)
		}
	}
	if len(out) == 0 || len(out) > max {
		return nil, false
	}
	return out, true
}

func min64(a, b int64) int64 {
	if a < b {
		return a
	}
	return b
}

func max64(a, b int64) int64 {
	if a > b {
		return a
	}
	return b
}

// condsWith re-evaluates the branch conditions along blocks with engine eng.
func condsWith(eng *termEngine, blocks []*ssa.BasicBlock, stop *ssa.BasicBlock) []Fact {
	var out []Fact
	for i := 0; i < len(blocks); i++ {
		b := blocks[i]
		var next *ssa.BasicBlock
		if i+1 < len(blocks) {
			next = blocks[i+1]
		} else {
			next = stop
		}
		if next == nil || len(b.Instrs) == 0 {
			continue
		}
		if iff, ok := b.Instrs[len(b.Instrs)-1].(*ssa.If); ok && b.Succs[0] != b.Succs[1] {
			out = append(out, normFact(eng.of(iff.Cond), next == b.Succs[0]))
		}
	}
	return out
}

func (P *Prog) engineOn(blocks []*ssa.BasicBlock, consts map[ssa.Value]int64) *termEngine {
	e := P.terms.onPath(blocks)
	e.constIdx = consts
	return e
}

// casePaths returns the unfolded paths of fn, or nil when fn is not of the
// shape described above (callers then fall back to allPaths).
func (P *Prog) casePaths(fn *ssa.Function) []*Path {
	if P.casePathMemo == nil {
		P.casePathMemo = map[*ssa.Function][]*Path{}
	}
	if ps, ok := P.casePathMemo[fn]; ok {
		return ps
	}
	ps := P.casePathsRaw(fn)
	P.casePathMemo[fn] = ps
	return ps
}

func (P *Prog) casePathsRaw(fn *ssa.Function) []*Path {
	loops := findLoops(fn)
	if len(loops) != 1 || fn.Blocks == nil {
		return nil
	}
	cl := monotoneLoop(fn, loops[0])
	if cl == nil || cl.caseV == nil {
		return nil
	}
	var out []*Path
	isHeader := func(b *ssa.BasicBlock) bool { return b == cl.header }
	for _, pre := range P.enumPaths(fn, fn.Blocks[0], isHeader, false) {
		if pre.ret != nil {
			out = append(out, pre)
			continue
		}
		tv := pre.eng.of(cl.caseV)
		dom, ok := smallDomain(tv, pre.conds, 8)
		if !ok {
			return nil
		}
		for _, v := range dom {
			base := map[ssa.Value]int64{cl.caseV: v}
			engV := P.engineOn(pre.blocks, base)
			b, ok := P.foldIntG(engV.of(cl.bound))
			if !ok {
				return nil
			}
			last := b
			if !cl.incl {
				last = b - 1
			}
			if last-cl.start > 16 {
				return nil
			}
			prefix := append([]Fact{}, pre.conds...)
			prefix = append(prefix, normFact(tEq(tInt(v), tv), true))
			// partial paths: condition lists of the iterations completed so far
			partial := [][]Fact{prefix}
			for i := cl.start; i <= last; i++ {
				consts := map[ssa.Value]int64{cl.caseV: v, cl.phi: i}
				var next [][]Fact
				for _, bp := range P.enumPaths(fn, cl.body, isHeader, false) {
					blocks := append(append([]*ssa.BasicBlock{}, pre.blocks...), bp.blocks...)
					eng := P.engineOn(blocks, consts)
					cs := condsWith(eng, bp.blocks, bp.stop)
					for _, acc := range partial {
						all := append(append([]Fact{}, acc...), cs...)
						if bp.ret != nil {
							np := &Path{fn: fn, blocks: blocks, eng: eng, ret: bp.ret, conds: all}
							for _, rv := range bp.ret.Results {
								np.resOv = append(np.resOv, eng.of(rv))
							}
							if np.feasible() {
								out = append(out, np)
							}
							continue
						}
						next = append(next, all)
					}
				}
				partial = next
				if len(partial) > 64 {
					return nil
				}
			}
			// the loop is exhausted: from the exit block to the returns
			for _, ep := range P.enumPaths(fn, cl.exit, nil, false) {
				if ep.ret == nil {
					continue
				}
				blocks := append(append(append([]*ssa.BasicBlock{}, pre.blocks...), cl.header), ep.blocks...)
				eng := P.engineOn(blocks, map[ssa.Value]int64{cl.caseV: v, cl.phi: last + 1})
				cs := condsWith(eng, ep.blocks, nil)
				for _, acc := range partial {
					np := &Path{fn: fn, blocks: blocks, eng: eng, ret: ep.ret, conds: append(append([]Fact{}, acc...), cs...)}
					for _, rv := range ep.ret.Results {
						np.resOv = append(np.resOv, eng.of(rv))
					}
					if np.feasible() {
						out = append(out, np)
					}
				}
			}
		}
	}
	return out
}

// pathsForExpansion: the paths a helper's outcome is expanded into.
func (P *Prog) pathsForExpansion(fn *ssa.Function) []*Path {
	if ps := P.casePaths(fn); ps != nil {
		return ps
	}
	return P.allPaths(fn)
}

// inlineViews: the deep paths of fn where a result that is (a conversion of)
// result k of one in-package helper call is replaced by what the helper
// returns on each of its own paths, with the helper's conditions added and
// the caller's conditions about that call rewritten accordingly. A value
// computed by `if v, ok := helper(x); ok { return v, nil }` then reads like
// the helper's body written in place. keep lists rule vocabulary that stays.
func (P *Prog) inlineViews(fn *ssa.Function, keep func(*ssa.Function) bool) []*Path {
	var out []*Path
	for _, p := range P.deepPaths(fn) {
		out = append(out, P.inlineResultCalls(p, 0, keep)...)
	}
	return out
}

func (P *Prog) inlineResultCalls(p *Path, depth int, keep func(*ssa.Function) bool) []*Path {
	if depth >= 2 {
		return []*Path{p}
	}
	var call *Term
	var h *ssa.Function
	for _, r := range p.results() {
		v := r
		for v.Op == "convert" && len(v.Args) == 1 {
			v = v.Args[0]
		}
		c := v
		if v.Op == "res" && len(v.Args) == 1 {
			c = v.Args[0]
		}
		if c.Op != "call" {
			continue
		}
		g := P.calleeOfTerm(c)
		if g == nil || g == p.fn || (keep != nil && keep(g)) || len(findLoops(g)) > 0 {
			continue
		}
		call, h = c, g
		break
	}
	if call == nil {
		return []*Path{p}
	}
	qs := P.allPaths(h)
	if len(qs) > 48 {
		return []*Path{p}
	}
	m := map[string]*Term{}
	for i, a := range call.Args {
		m[itoa(int64(i))] = a
	}
	multi := h.Signature.Results().Len() > 1
	var out []*Path
	for _, q := range qs {
		if !q.feasible() {
			continue
		}
		var qres []*Term
		for _, r := range q.results() {
			qres = append(qres, r.subst(m))
		}
		repl := func(t *Term) *Term {
			return t.rewrite(func(u *Term) *Term {
				if multi {
					if u.Op == "res" && len(u.Args) == 1 && u.Args[0].eq(call) {
						if k := int(mustAtoi(u.S)); k < len(qres) {
							return qres[k]
						}
					}
					return nil
				}
				if u.eq(call) && len(qres) == 1 {
					return qres[0]
				}
				return nil
			})
		}
		np := *p
		np.conds = nil
		np.condAt = nil
		for _, c := range p.conds {
			np.conds = append(np.conds, normFact(repl(c.Pred), c.Val))
		}
		for _, c := range q.conds {
			np.conds = append(np.conds, normFact(c.Pred.subst(m), c.Val))
		}
		np.resOv = nil
		for _, r := range p.results() {
			np.resOv = append(np.resOv, repl(r))
		}
		np.via = append(append([]*ssa.Function{}, p.via...), h)
		if !np.feasible() {
			continue
		}
		out = append(out, P.inlineResultCalls(&np, depth+1, keep)...)
	}
	if len(out) == 0 {
		return []*Path{p}
	}
	return out
}

// expandStructCalls: calls of in-package helpers that return a small struct
// by value (flags or fields gathered in one place) are replaced by the struct
// they build, so that a field read of the result is the expression stored
// into that field. Nothing else is expanded.
func (P *Prog) expandStructCalls(t *Term) *Term {
	return t.rewrite(func(u *Term) *Term {
		if u.Op != "call" {
			return nil
		}
		h := P.calleeOfTerm(u)
		if h == nil || h.Signature.Results().Len() != 1 {
			return nil
		}
		if _, isStruct := h.Signature.Results().At(0).Type().Underlying().(*types.Struct); !isStruct {
			return nil
		}
		rt := P.terms.successResult(h, 0)
		if rt == nil || rt.Op == "alt" {
			return nil
		}
		m := map[string]*Term{}
		for i, a := range u.Args {
			m[itoa(int64(i))] = a
		}
		return rt.subst(m)
	})
}

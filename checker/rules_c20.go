package main

// C20 — a failing signer never yields a usable or half-signed message.

import (
	"fmt"
	"go/types"
	"strings"

	"golang.org/x/tools/go/ssa"
)

func init() {
	register(&propSpec{id: "C20", title: "failing signer: no bytes, no stored signature, errors propagate", run: runC20, mutants: mutC20, design: "DESIGN.md section 3, C20"})
}

func isByteSlice(t types.Type) bool {
	s, ok := t.Underlying().(*types.Slice)
	if !ok {
		return false
	}
	b, ok := s.Elem().Underlying().(*types.Basic)
	return ok && b.Kind() == types.Uint8
}

func (P *Prog) isStructureType(t types.Type) bool {
	n, ok := t.(*types.Named)
	if !ok {
		return false
	}
	for _, s := range P.structureTypes() {
		if s.Obj() == n.Obj() {
			return true
		}
	}
	return false
}

// decoderFamily: functions reachable from UnmarshalCBOR methods of structure types.
func (P *Prog) decoderFamily() map[*ssa.Function]bool {
	var roots []*ssa.Function
	for _, n := range P.structureTypes() {
		if f := P.methodOf(n, "UnmarshalCBOR"); f != nil {
			roots = append(roots, f)
		}
	}
	return P.reachable(roots)
}

func runC20(r *Report, tier string) {
	P := r.P
	r.rule("R20.1", "every store to a Signature field of a structure type is dominated by ok(signer invoke) and stores result 0 of that invoke, or targets a fresh local value; whole-value stores of structure types exist only in the decoder family.")
	r.rule("R20.2", "every function returning (byte slice, error): each exit returns (nil, e), (b, nil) or a pair delegated unchanged from one call.")
	r.rule("R20.3", "every structure encoder's non-failure exits carry len(recv.Signature) != 0; the Sign helpers' non-failure exits are delegated to such an encoder.")
	r.rule("R20.4", "on every exit reached with a non-nil signer error, that error (possibly wrapped) is what is returned.")
	r.rule("R20.5", "the rand argument of every signer invoke / signing primitive is the function's own io.Reader parameter; the package never reads from it.")
	r.assumes("foreign Signer / crypto.Signer implementations return no usable bytes together with an error", "EncMode.Marshal returns (nil, err) on error (A4)")

	decFam := P.decoderFamily()
	sites := P.keySites()
	// R20.1
	nStores := 0
	for _, fn := range P.Funcs {
		for _, b := range fn.Blocks {
			for _, in := range b.Instrs {
				st, ok := in.(*ssa.Store)
				if !ok {
					continue
				}
				// whole-value store of a structure type through a non-local pointer
				if P.isStructureType(st.Val.Type()) {
					root, _ := P.terms.addrPath(st.Addr)
					if _, local := root.(*ssa.Alloc); !local {
						nStores++
						o := r.ob("R20.1", shortFn(fn)+":whole-store:"+shortType(st.Val.Type()), fn, st, "whole-value store of a structure type only in the decoder family")
						o.check(decFam[fn], "function is in the decoder family", "a structure value (including its Signature) is overwritten outside the decoders")
					}
					continue
				}
				fa, ok := st.Addr.(*ssa.FieldAddr)
				if !ok {
					continue
				}
				stt := deref(fa.X.Type())
				if !P.isStructureType(stt) {
					continue
				}
				// a composite literal assigned in place to the receiver is a
				// whole-value store compiled field by field
				if fn.Signature.Recv() != nil {
					whole := false
					for _, w := range P.receiverWrites(fn) {
						if !w.complete || w.fn != fn {
							continue
						}
						for _, s2 := range w.stores {
							if s2 == st {
								whole = true
							}
						}
					}
					if whole {
						if st == firstFieldStore(P, fn, st) {
							nStores++
							o := r.ob("R20.1", shortFn(fn)+":whole-store:"+shortType(stt), fn, st, "whole-value store of a structure type only in the decoder family")
							o.check(decFam[fn], "function is in the decoder family", "a structure value (including its Signature) is overwritten outside the decoders")
						}
						continue
					}
				}
				fname := stt.Underlying().(*types.Struct).Field(fa.Field).Name()
				if fname != "Signature" && fname != "Signatures" {
					continue
				}
				root, _ := P.terms.addrPath(st.Addr)
				if _, local := root.(*ssa.Alloc); local {
					continue // fresh value under construction
				}
				nStores++
				o := r.ob("R20.1", shortFn(fn)+":store:"+shortType(stt)+"."+fname, fn, st, "signature stored only after the signer returned nil, and it is the signer's result")
				var site *keySite
				for _, s := range sites {
					if s.fn == fn && s.sign {
						site = s
					}
				}
				if site == nil {
					o.fail("a Signature field is written in a function that does not invoke a Signer")
					continue
				}
				inv := P.terms.of(site.call.Value())
				want := &Term{Op: "res", S: "0", Args: []*Term{inv}}
				errT := &Term{Op: "res", S: "1", Args: []*Term{inv}}
				val := P.terms.of(st.Val)
				fs := P.factsBefore(st)
				o.check(val.eq(want) && fs.has(okFact(errT)), "stores res<0>(signer.Sign) under ok(signer.Sign)",
					fmt.Sprintf("stored value is the signer's result: %v; dominated by ok(signer.Sign): %v", val.eq(want), fs.has(okFact(errT))))
			}
		}
	}
	r.floorSoft("R20.1", nStores, 6, "stores to Signature fields / whole structure values")

	// R20.2
	n2 := 0
	for _, fn := range P.Funcs {
		res := fn.Signature.Results()
		if res.Len() != 2 || errIndex(fn) != 1 || !isByteSlice(res.At(0).Type()) || fn.Blocks == nil {
			continue
		}
		n2++
		for _, x := range P.factsOf(fn).exits {
			r.paths++
			o := r.ob("R20.2", shortFn(fn)+":exit:"+exitID(P, fn, x), fn, x.ret, "no bytes together with a possibly non-nil error")
			b, e := x.results[0], x.results[1]
			switch {
			case e.Op == "nil":
				o.ok("error operand is nil", false)
			case x.kind == exitSuccess && !x.delegated:
				o.ok("error operand is nil on this exit by the dominating test", true)
			case b.Op == "zero":
				o.ok("byte operand is the unassigned (nil) result", false)
			case b.Op == "nil":
				o.ok("byte operand is nil", false)
			case pairDelegated(b, e):
				o.ok("pair delegated from "+delegCall(e).S, true)
			default:
				o.fail(fmt.Sprintf("returns bytes %s together with error %s", b, e))
			}
		}
	}
	r.floorSoft("R20.2", n2, 20, "functions returning (bytes, error)")
	// a COSE_Sign with an unsigned slot cannot be serialised: every element
	// passes the Signature encoder, which refuses empty signatures (R11.3)
	checkSignMessageEncoderElems(r, "R20.3")
	// an error from a verifier is propagated, never turned into success
	r.rule("R03.2", "(shared with C03) every exported Verify entry point returns nil only under ok(Verifier.Verify) on the caller's verifier.")
	checkVerifyEntryPoints(r, "R03.2")

	// R20.3
	nEnc := 0
	encs := map[string]bool{}
	for _, n := range P.structureTypes() {
		st := n.Underlying().(*types.Struct)
		hasSig := false
		for i := 0; i < st.NumFields(); i++ {
			if st.Field(i).Name() == "Signature" {
				hasSig = true
			}
		}
		fn := P.methodOf(n, "MarshalCBOR")
		if fn == nil {
			continue
		}
		encs[shortFn(fn)] = true
		if !hasSig {
			continue // SignMessage: R11.3
		}
		nEnc++
		sg := &Term{Op: "load", Args: []*Term{{Op: "field", S: "Signature", Args: []*Term{T("param", "0")}}}}
		for _, x := range P.factsOf(fn).exits {
			if x.kind == exitFailure {
				continue
			}
			o := r.ob("R20.3", shortFn(fn)+":exit:"+exitID(P, fn, x), fn, x.ret, "encoder refuses an empty signature")
			o.check(exitFacts(P, x).holdsNonEmpty(sg), "fact len(*$0.Signature)!=0", "a non-failure exit of the encoder is reachable with an empty signature")
		}
	}
	r.floor("R20.3", nEnc, 4, "structure encoders with a Signature field")
	for _, fn := range P.signEntryPoints() {
		res := fn.Signature.Results()
		if res.Len() != 2 || !isByteSlice(res.At(0).Type()) {
			continue
		}
		// helpers that return bytes: Sign1, Sign1Untagged, SignHashEnvelope (Countersign0 returns the raw signature, not a message)
		for _, x := range P.deepExits(fn, func(h *ssa.Function) bool { return !encs[shortFn(h)] }) {
			if x.kind == exitFailure {
				continue
			}
			isMsg := false
			fs := exitFacts(P, x)
			for _, c := range fs.findOK(func(call *Term) bool { return encs[call.S] }) {
				_ = c
				isMsg = true
			}
			if !isMsg {
				// returns something that is not an encoded message: must be the signer's own pair (Countersign0)
				o := r.ob("R20.3", shortFn(fn)+":exit:"+exitID(P, fn, x), fn, x.ret, "helper returns an encoded message (through an encoder that refuses empty signatures) or the signer's own result")
				c := delegCall(x.errTerm)
				o.check(c != nil && c.S == "invoke:Signer.Sign", "returns the signer's pair unchanged", "a Sign helper returns bytes that come neither from a structure encoder nor from the signer")
				continue
			}
			r.ob("R20.3", shortFn(fn)+":exit:"+exitID(P, fn, x), fn, x.ret, "helper's bytes come from a structure encoder").ok("ok(structure encoder) on the exit", true)
		}
	}

	// R20.4 / R20.5
	nSign := 0
	for _, s := range sites {
		if !s.sign {
			continue
		}
		nSign++
		fn := s.fn
		inv := P.terms.of(s.call.Value())
		errT := &Term{Op: "res", S: "1", Args: []*Term{inv}}
		bad := Fact{tEq(errT, tNil()), false}
		for _, x := range P.factsOf(fn).exits {
			if !x.facts.has(bad) {
				continue
			}
			o := r.ob("R20.4", shortFn(fn)+":signer-error:"+exitID(P, fn, x), fn, x.ret, "a non-nil signer error is returned")
			o.check(x.kind == exitFailure && x.errTerm.contains(func(u *Term) bool { return u.eq(errT) }), "returns "+x.errTerm.String(), "exit under a failed signer returns "+x.errTerm.String())
		}
		// ... and no exit behind the signer call reports success without the
		// signer having succeeded
		for _, x := range P.factsOf(fn).exits {
			if x.kind == exitFailure || !s.call.Block().Dominates(x.ret.Block()) {
				continue
			}
			o := r.ob("R20.4", shortFn(fn)+":signer-ok:"+exitID(P, fn, x), fn, x.ret, "success behind the signer call implies the signer returned nil")
			o.check(exitFacts(P, x).has(okFact(errT)), "ok(signer.Sign) holds", "an exit behind the signer call can report success although the signer failed (its error is not what decides the result)")
		}
		// rand
		o := r.ob("R20.5", shortFn(fn)+":rand", fn, s.call, "rand handed to the signer is the caller's io.Reader parameter")
		rt := P.terms.of(s.rand)
		o.check(rt.Op == "param", "rand = "+rt.String(), "rand argument is "+rt.String()+", not a parameter")
	}
	r.floor("R20.4", nSign, 4, "signer invoke sites")
	// built-in signers: rand forwarded to primitive
	for _, fn := range append(P.implementors(P.iface("Signer"), "Sign"), P.implementors(P.iface("DigestSigner"), "SignDigest")...) {
		for _, ci := range callsIn(fn, nil) {
			c := ci.Common()
			var randArg ssa.Value
			switch {
			case c.IsInvoke() && c.Method.Name() == "Sign" && len(c.Args) == 3: // crypto.Signer.Sign
				randArg = c.Args[0]
			case c.StaticCallee() != nil && c.StaticCallee().String() == "crypto/ecdsa.Sign":
				randArg = c.Args[0]
			case c.StaticCallee() != nil && P.inPkg(c.StaticCallee()) && len(c.Args) >= 2 && c.Args[1].Type().String() == "io.Reader":
				randArg = c.Args[1]
			default:
				continue
			}
			o := r.ob("R20.5", shortFn(fn)+":rand:"+calleeName(c), fn, ci, "built-in signer forwards its rand parameter")
			rt := P.terms.of(randArg)
			o.check(rt.String() == "$1", "rand = $1", "rand argument is "+rt.String())
		}
	}
	// nobody reads rand
	for _, fn := range P.Funcs {
		for _, ci := range callsIn(fn, nil) {
			c := ci.Common()
			if c.IsInvoke() && c.Method.Name() == "Read" && strings.Contains(c.Value.Type().String(), "io.Reader") {
				r.ob("R20.5", shortFn(fn)+":reads-rand", fn, ci, "the package does not read the entropy source itself").fail("io.Reader.Read is called in the package")
			}
		}
	}
}

func delegCall(e *Term) *Term {
	if e.Op == "res" && len(e.Args) == 1 && e.Args[0].Op == "call" {
		return e.Args[0]
	}
	if e.Op == "call" {
		return e
	}
	return nil
}

// firstFieldStore: the first store of the in-place literal group st belongs to.
func firstFieldStore(P *Prog, fn *ssa.Function, st *ssa.Store) *ssa.Store {
	for _, w := range P.receiverWrites(fn) {
		for _, s2 := range w.stores {
			if s2 == st {
				return w.stores[0]
			}
		}
	}
	return st
}

// pairDelegated: (b, e) are results 0 and 1 of the same call.
func pairDelegated(b, e *Term) bool {
	if b.Op != "res" || e.Op != "res" || b.S != "0" || e.S != "1" {
		return false
	}
	return b.Args[0].Op == "call" && b.Args[0].eq(e.Args[0])
}

func mutC20() []mutant {
	return []mutant{
		{Name: "Sign1Message.Sign stores the signature before testing the error", File: "sign1.go", Quick: true, Rule: "R20.1",
			Old: "\tsig, err := signer.Sign(rand, toBeSigned)\n\tif err != nil {\n\t\treturn err\n\t}\n\n\tm.Signature = sig",
			New: "\tsig, err := signer.Sign(rand, toBeSigned)\n\tm.Signature = sig\n\tif err != nil {\n\t\treturn err\n\t}\n"},
		{Name: "Sign1 returns encoded bytes together with the sign error", File: "sign1.go", Quick: true, Rule: "R20.2", Nth: 1,
			Old: "\terr := msg.Sign(rand, external, signer)\n\tif err != nil {\n\t\treturn nil, err\n\t}",
			New: "\terr := msg.Sign(rand, external, signer)\n\tif err != nil {\n\t\tb, _ := msg.MarshalCBOR()\n\t\treturn b, err\n\t}"},
		{Name: "ECDSA helper returns the half-filled buffer with the I2OSP error", File: "ecdsa.go", Rule: "R20.2",
			Old: "\tif err := I2OSP(s, sig[n:]); err != nil {\n\t\treturn nil, err\n\t}", New: "\tif err := I2OSP(s, sig[n:]); err != nil {\n\t\treturn sig, err\n\t}"},
		{Name: "Sign1Message encoder drops the empty-signature refusal", File: "sign1.go", Rule: "R20.3",
			Old: "\tif len(m.Signature) == 0 {\n\t\treturn sign1Message{}, ErrEmptySignature\n\t}\n", New: ""},
		{Name: "Countersignature.Sign returns a shadowed (nil) error when the signer fails", File: "countersign.go", Rule: "R20.4", Key: "signer-ok",
			Old: "\tsig, err := signer.Sign(rand, toBeSigned)\n\tif err != nil {\n\t\treturn err\n\t}\n\n\ts.Signature = sig\n\treturn nil", New: "\tif sig, err := signer.Sign(rand, toBeSigned); err == nil {\n\t\ts.Signature = sig\n\t}\n\treturn err"},
		{Name: "Signature.Sign swallows the signer error", File: "sign.go", Rule: "R20.4",
			Old: "\tsig, err := signer.Sign(rand, toBeSigned)\n\tif err != nil {\n\t\treturn err\n\t}\n\n\ts.Signature = sig", New: "\tsig, err := signer.Sign(rand, toBeSigned)\n\tif err != nil {\n\t\treturn nil\n\t}\n\n\ts.Signature = sig"},
		{Name: "Countersignature.Sign passes a nil entropy source", File: "countersign.go", Rule: "R20.5",
			Old: "sig, err := signer.Sign(rand, toBeSigned)", New: "sig, err := signer.Sign(nil, toBeSigned)"},
		{Name: "rsaSigner.SignDigest ignores the caller's rand", File: "rsa.go", Rule: "R20.5",
			Old: "return rs.key.Sign(rand, digest, &rsa.PSSOptions{", New: "return rs.key.Sign(nil, digest, &rsa.PSSOptions{"},
		{Name: "a helper resets Signature outside sign/decode", File: "sign1.go", Rule: "R20.1",
			Old: "func (m *Sign1Message) getContent() (sign1Message, error) {\n\tif m == nil {", New: "func (m *Sign1Message) getContent() (sign1Message, error) {\n\tif m != nil && m.Payload == nil {\n\t\tm.Signature = []byte{0}\n\t}\n\tif m == nil {"},
	}
}

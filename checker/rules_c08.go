package main

// C08 — encoding is deterministic, canonical and always decodable.

import (
	"fmt"
	"go/types"
	"strconv"
	"strings"

	"golang.org/x/tools/go/ssa"
)

func init() {
	register(&propSpec{id: "C08", title: "encoder configuration, who may encode, no map order in output, validate before encode", run: runC08, mutants: mutC08, design: "DESIGN.md section 3, C08"})
}

func runC08(r *Report, tier string) {
	P := r.P
	r.rule("R08.1", "the package's only encode mode is built from constant options Sort = bytewise lexical (= CoreDeterministic = CTAP2) and IndefLength = forbidden, and its variable is assigned once, in init.")
	r.rule("R08.2", "who may encode: every CBOR encode is <that mode var>.Marshal; cbor.Marshal (unsorted), NewEncoder and other EncMode values are not used; every MarshalCBOR method returns that encoder's output, except hand-assembled constants whose bytes are the canonical encoding they stand for (a0 for an empty unprotected header).")
	r.rule("R08.3", "signed = emitted: R01.2.")
	r.rule("R08.4", "map iteration never reaches an ordered sink: in every function reachable from an encoder or Sign helper the body of a range over a map does not append, write slice elements, copy, or call an encoder.")
	r.rule("R08.5", "validate before encode: bucket encoders validate non-empty headers with the right flag; accepted entries have unique normalised labels; structure encoders pass the cross-bucket IV check and refuse an empty signature.")
	r.rule("R08.6", "closure under the decoder (structural part): encoder and decoder of each bucket call the same validator with the same flag (R13.2, via R08.5); keyed label lookups are spelling-insensitive (R13.6); where an encoder would emit caller-supplied raw bytes instead of a validated map in the hash-envelope producer, those bytes are nil (R12.3); decoder limits are not narrowed below what the encoder can emit (R07.3); COSE_Key labels are normalised and de-duplicated before encoding.")
	r.assumes("A4: the library's encoder with these options produces shortest-form, definite-length, bytewise-sorted output", "which error is returned for a doubly invalid header may depend on map iteration order; the property is about bytes")

	// R08.1
	ne := 0
	var encGlobal string
	for _, mc := range P.modeConfigs() {
		if !mc.enc {
			continue
		}
		ne++
		encGlobal = mc.global
		checkModeOptions(r, "R08.1", mc, map[string]int64{"Sort": P.cborConst("SortBytewiseLexical"), "IndefLength": P.cborConst("IndefLengthForbidden")}, []string{"TagsMd"})
	}
	r.ob("R08.1", "modes:one-encoder", nil, nil, "exactly one encode mode is constructed").check(ne == 1, encGlobal, fmt.Sprintf("%d encode mode constructions", ne))
	for _, g := range P.modeGlobals() {
		if !isCBORNamed(deref(g.Type()), "EncMode") {
			continue
		}
		sts := P.globalStores(g)
		r.ob("R08.1", g.Name()+":assigned-once-in-init", nil, nil, "encoder variable is assigned exactly once, in init").check(len(sts) == 1 && isInitFunc(sts[0].Parent()), "one store in init", fmt.Sprintf("%d stores", len(sts)))
	}
	// alias values of the Sort constant
	for _, a := range []string{"SortCoreDeterministic", "SortCTAP2", "SortBytewiseLexical"} {
		r.ob("R08.1", "const:"+a, nil, nil, "cbor."+a+" == 2 (A6: compared by value, not by name)").check(P.cborConst(a) == 2, "2", fmt.Sprintf("%d", P.cborConst(a)))
	}

	// R08.2
	nenc := 0
	for _, fn := range P.Funcs {
		for _, ci := range callsIn(fn, nil) {
			c := ci.Common()
			if sc := c.StaticCallee(); sc != nil && sc.Pkg != nil && sc.Pkg.Pkg.Path() == cborPath && sc.Signature.Recv() == nil {
				switch sc.Name() {
				case "Marshal", "NewEncoder", "MarshalToBuffer":
					r.ob("R08.2", shortFn(fn)+":pkg-level:"+sc.Name(), fn, ci, "no package-level cbor encode function is used").fail("cbor." + sc.Name() + " uses the library's default options (map keys unsorted)")
				}
				continue
			}
			if !c.IsInvoke() || !isCBORNamed(c.Value.Type(), "EncMode") {
				continue
			}
			nenc++
			mt := P.terms.of(c.Value)
			o := r.ob("R08.2", shortFn(fn)+":"+c.Method.Name()+"#"+strconv.Itoa(nenc), fn, ci, "encode goes through the package encoder variable's Marshal")
			g, isM := P.isModeLoad(mt, true)
			o.check(isM && g == encGlobal && c.Method.Name() == "Marshal", g+".Marshal", "encode through "+mt.String()+"."+c.Method.Name())
		}
	}
	r.floorSoft("R08.2", nenc, 12, "EncMode call sites")
	nm := 0
	for _, fn := range P.methodsNamed("MarshalCBOR", "") {
		for _, x := range P.factsOf(fn).exits {
			if x.kind == exitFailure {
				continue
			}
			nm++
			o := r.ob("R08.2", shortFn(fn)+":output:"+exitID(P, fn, x), fn, x.ret, "returned bytes are the package encoder's output or a canonical constant")
			res := P.terms.expand(x.results[0], 8)
			okAll, why := true, ""
			var check func(u *Term)
			check = func(u *Term) {
				switch u.Op {
				case "alt", "phi", "choice":
					for _, a := range u.Args {
						check(a)
					}
				case "gate":
					check(u.Args[1])
					check(u.Args[2])
				case "res":
					if u.S == "0" && u.Args[0].Op == "call" && u.Args[0].S == "invoke:cbor.EncMode.Marshal" {
						if g, isM := P.isModeLoad(u.Args[0].Args[0], true); isM && g == encGlobal {
							return
						}
					}
					okAll, why = false, "returns "+truncate(u.String(), 160)
				case "arr":
					b, ok := byteArr(u)
					rt := deref(fn.Signature.Recv().Type())
					_, isMap := rt.Underlying().(*types.Map)
					empty := x.facts.holdsEmpty(T0())
					if !(ok && len(b) == 1 && b[0] == 0xa0 && isMap && empty && isNamed(rt, cosePath, "UnprotectedHeader")) {
						okAll, why = false, fmt.Sprintf("hand-assembled bytes % x are not the canonical empty map of an empty unprotected header", b)
					}
				default:
					okAll, why = false, "returns "+truncate(u.String(), 160)
				}
			}
			check(res)
			o.check(okAll, truncate(res.String(), 100), why)
		}
	}
	r.floor("R08.2", nm, 8, "MarshalCBOR success exits")

	// R08.3
	checkNoWriteAfterBuilder(r, "R08.3")

	// R08.4
	var roots []*ssa.Function
	roots = append(roots, P.methodsNamed("MarshalCBOR", "")...)
	roots = append(roots, P.signEntryPoints()...)
	scope := P.reachable(roots)
	nl := 0
	for fn := range scope {
		r.analysed(fn)
		for _, l := range findLoops(fn) {
			if l.kind != "map-range" {
				continue
			}
			nl++
			o := r.ob("R08.4", shortFn(fn)+":map-range:"+P.terms.of(l.over).String(), fn, l.header.Instrs[len(l.header.Instrs)-1], "a range over a map feeds no ordered sink")
			bad := ""
			for b := range l.blocks {
				for _, in := range b.Instrs {
					switch in := in.(type) {
					case *ssa.Call:
						if bi, ok := in.Call.Value.(*ssa.Builtin); ok && (bi.Name() == "append" || bi.Name() == "copy") {
							bad = bi.Name() + " at " + P.instrPos(in)
						}
						if in.Call.IsInvoke() && isCBORMode(in.Call.Value.Type()) && in.Call.Method.Name() == "Marshal" {
							bad = "encoder call at " + P.instrPos(in)
						}
						if sc := in.Call.StaticCallee(); sc != nil && !P.inPkg(sc) {
							name := shortFn(sc)
							if strings.Contains(name, "Buffer).Write") || strings.Contains(name, "Builder).Write") || strings.HasPrefix(name, "fmt.Fprint") {
								bad = "buffer write " + name + " at " + P.instrPos(in)
							}
						}
					case *ssa.Store:
						if ia, ok := in.Addr.(*ssa.IndexAddr); ok {
							if _, isSlice := ia.X.Type().Underlying().(*types.Slice); isSlice {
								bad = "slice element store at " + P.instrPos(in)
							}
						}
					case *ssa.MapUpdate:
						// an insertion under a key other than the range key itself can
						// collide for two source entries: which value survives then depends
						// on the iteration order, unless duplicates are refused first
						if _, isSet := in.Value.Type().Underlying().(*types.Struct); isSet {
							continue // a seen-set
						}
						kt := P.terms.of(in.Key)
						rk := &Term{Op: "res", S: "1", Args: []*Term{{Op: "next", Args: []*Term{{Op: "range", Args: []*Term{P.terms.of(l.over)}}}}}}
						if kt.eq(rk) {
							continue
						}
						if kt.Op == "const" || (kt.Op == "iface" && len(kt.Args) == 1 && kt.Args[0].Op == "const") {
							continue // a fixed key
						}
						tested := false
						for _, p := range P.enumPaths(fn, l.body, func(bb *ssa.BasicBlock) bool { return bb == l.header }, false) {
							if !p.contains(in.Block()) {
								continue
							}
							if t, _ := P.dupTested(p.conds, P.labelNormalizer()); t {
								tested = true
							} else {
								tested = false
								break
							}
						}
						if !tested {
							bad = "map insertion under a transformed key (" + truncate(kt.String(), 60) + ") without a duplicate test at " + P.instrPos(in) + ": colliding entries are merged in iteration order"
						}
					}
				}
			}
			o.check(bad == "", "body only tests, inserts into maps/sets and returns", "iteration order can reach the output: "+bad)
		}
	}
	r.floorSoft("R08.4", nl, 3, "map range loops on encode paths")

	// R08.5
	checkBucketEncoders(r, "R08.5")
	checkValidatorUniqueness(r, "R08.5")
	checkValidatorExhaustive(r, "R08.5")
	checkStructureEncodersIV(r, "R08.5")
	checkEncodersRefuseEmptySignature(r, "R08.5")

	// R08.6
	checkLabelLookups(r, "R13.6", "C08")
	checkEnvelopeRawNil(r, "R12.3")
	checkDecoderLimits(r, "R07.3")
	// decodes to an equivalent value: the structure decoders store the wire
	// slots themselves (an attached empty payload stays attached)
	r.rule("R09.1", "(shared with C09) every structure decoder stores the same-named wire slots unchanged.")
	checkDecoderSlots(r, "R09.1")
	checkUnprotectedEncoderTagFree(r, "R08.6")
	r.rule("R08.7", "closure under the decoder, value level (D7): on every success path of the two bucket encoders the encoded header map has passed a full generic decode (DecMode.Unmarshal into map[any]any / any) under a package decode mode whose options, TagsMd apart, equal those of the modes the bucket's decoder reaches - header values are arbitrary Go values, so this is the only way integers beyond int64, invalid UTF-8 text and the like cannot be emitted and then refused by the library's own decoder.")
	checkBucketEncoderValueClosure(r, "R08.7")
	// what the bucket marshalers hand to the wire struct is raw bytes only
	// when there are any: an empty non-nil raw slice is not "the raw bytes"
	// (it would be emitted as null, which the decoder refuses)
	r.rule("R09.2", "(shared with C09) MarshalProtected / MarshalUnprotected return the raw bytes exactly when len > 0, otherwise the validated encoding of the map.")
	checkMarshalBuckets(r, "R09.2")
	// what the unprotected encoder can emit under labels 7 / 11 (one
	// countersignature or a list of any length) is not refused by head byte
	if cs := P.countersigValueDecoder(); cs != nil {
		checkCountersigValueRefusal(r, "R08.6", cs)
	} else {
		r.ob("R08.6", "countersignature-value-decoder", nil, nil, "the countersignature header value decoder tries both forms").fail("no function decodes a header value both as *Countersignature and as []*Countersignature")
	}
	// COSE_Key encoder: labels normalised and de-duplicated
	if kt := P.namedType("Key"); kt != nil {
		if enc := P.methodOf(kt, "MarshalCBOR"); enc != nil {
			norm := P.labelNormalizer()
			var L *loopInfo
			for _, l := range findLoops(enc) {
				if l.kind == "map-range" {
					L = l
				}
			}
			o := r.ob("R08.6", shortFn(enc)+":labels", enc, nil, "every COSE_Key parameter label is normalised and checked against duplicates before it is encoded")
			if L == nil {
				o.fail("no range over the key parameters")
			} else {
				why := ""
				for _, p := range P.enumPaths(enc, L.body, func(b *ssa.BasicBlock) bool { return b == L.header }, false) {
					if p.ret != nil {
						continue
					}
					okN, okD := false, false
					for _, c := range p.conds {
						if c.Val && c.Pred.Op == "res" && c.Pred.S == "1" && c.Pred.Args[0].Op == "call" && c.Pred.Args[0].S == shortFn(norm) {
							okN = true
						}
					}
					tested, inserted := P.dupTested(p.conds, norm)
					okD = tested
					if !inserted {
						p.instrs(func(in ssa.Instruction) {
							if mu, ok := in.(*ssa.MapUpdate); ok && strings.Contains(p.eng.of(mu.Key).String(), "call<"+shortFn(norm)+">") && p.eng.of(mu.Map).Op == "makemap" && mu.Value.Type().String() == "struct{}" {
								inserted = true
							}
						})
					}
					// the entry itself goes into the output under the normalised
					// label: stored under the caller's spelling, int(2) and the
					// field emitted as int64(2) are two Go keys and one CBOR key
					rawKey := ""
					p.instrs(func(in ssa.Instruction) {
						if mu, ok := in.(*ssa.MapUpdate); ok && mu.Value.Type().String() != "struct{}" {
							if ks := p.eng.of(mu.Key).String(); strings.Contains(ks, "range(") && !strings.Contains(ks, "call<"+shortFn(norm)+">") {
								rawKey = ks
							}
						}
					})
					if rawKey != "" {
						why = "a parameter is stored in the output map under its un-normalised label " + truncate(rawKey, 60) + ": a label spelt with another Go integer type than the one already present is emitted twice"
					} else if !okN || !okD {
						why = fmt.Sprintf("a parameter can be copied without normalisation (%v) / duplicate test (%v)", okN, okD)
					} else if !inserted {
						why = "a copied parameter's normalised label is not recorded in the seen-set"
					}
				}
				o.check(why == "", "normalised and unique", why)
			}
		}
	}
}

func mutC08() []mutant {
	return []mutant{
		{Name: "encoder no longer sorts map keys", File: "cbor.go", Quick: true, Rule: "R08.1",
			Old: "Sort:        cbor.SortCoreDeterministic, // sort map keys", New: "Sort:        cbor.SortNone, // sort map keys"},
		{Name: "Signature encoder uses the library default encoder", File: "sign.go", Quick: true, Rule: "R08.2",
			Old: "\t\tSignature:   s.Signature,\n\t}\n\treturn encMode.Marshal(sig)", New: "\t\tSignature:   s.Signature,\n\t}\n\treturn cbor.Marshal(sig)"},
		{Name: "unprotected encoder assembles its output pair by pair", File: "headers.go", Rule: "R08.4",
			Old: "\tif err := validateHeaderParameters(h, false); err != nil {\n\t\treturn nil, fmt.Errorf(\"unprotected header: %w\", err)\n\t}\n\tencoded, err := encMode.Marshal(map[any]any(h))", New: "\tif err := validateHeaderParameters(h, false); err != nil {\n\t\treturn nil, fmt.Errorf(\"unprotected header: %w\", err)\n\t}\n\tif len(h) > 40 {\n\t\tout := []byte{0xb8, byte(len(h))}\n\t\tfor k, v := range h {\n\t\t\tkb, _ := encMode.Marshal(k)\n\t\t\tvb, _ := encMode.Marshal(v)\n\t\t\tout = append(append(out, kb...), vb...)\n\t\t}\n\t\treturn out, nil\n\t}\n\tencoded, err := encMode.Marshal(map[any]any(h))"},
		{Name: "D6 re-created: the unprotected encoder emits tagged values unchecked", File: "headers.go", Quick: true, Rule: "R08.6", Key: "tag-free",
			Old: "\tvar decoded map[any]any\n\tif err := decModeWithTagsForbidden.Unmarshal(encoded, &decoded); err != nil {\n\t\treturn nil, fmt.Errorf(\"unprotected header: %w\", err)\n\t}\n\treturn encoded, nil", New: "\treturn encoded, nil"},
		{Name: "D7 re-created: the unprotected encoder checks well-formedness only", File: "headers.go", Quick: true, Rule: "R08.7", Key: "decodable",
			Old: "\tvar decoded map[any]any\n\tif err := decModeWithTagsForbidden.Unmarshal(encoded, &decoded); err != nil {", New: "\tif err := decModeWithTagsForbidden.Wellformed(encoded); err != nil {"},
		{Name: "D7 re-created: the protected encoder emits its map without the trial decode", File: "headers.go", Quick: true, Rule: "R08.7", Key: "decodable",
			Old: "\t\tvar decoded map[any]any\n\t\tif err := decMode.Unmarshal(encoded, &decoded); err != nil {\n\t\t\treturn nil, fmt.Errorf(\"protected header: %w\", err)\n\t\t}\n", New: ""},
		{Name: "trial decode into a raw message (no value-level decode)", File: "headers.go", Rule: "R08.7", Key: "decodable",
			Old: "\t\tvar decoded map[any]any\n\t\tif err := decMode.Unmarshal(encoded, &decoded); err != nil {", New: "\t\tvar decoded cbor.RawMessage\n\t\tif err := decMode.Unmarshal(encoded, &decoded); err != nil {"},
		{Name: "protected encoder drops the validator", File: "headers.go", Rule: "R08.5",
			Old: "\t\terr := validateHeaderParameters(h, true)\n\t\tif err != nil {\n\t\t\treturn nil, fmt.Errorf(\"protected header: %w\", err)\n\t\t}\n\t\tencoded, err = encMode.Marshal(map[any]any(h))", New: "\t\tvar err error\n\t\tencoded, err = encMode.Marshal(map[any]any(h))"},
		{Name: "empty unprotected header emitted as an indefinite-length map", File: "headers.go", Rule: "R08.2",
			Old: "\t\treturn []byte{0xa0}, nil", New: "\t\treturn []byte{0xbf, 0xff}, nil"},
		{Name: "protected header's outer byte string assembled by hand", File: "headers.go", Rule: "R08.2",
			Old: "\treturn encMode.Marshal(encoded)\n}", New: "\tif len(encoded) < 23 {\n\t\treturn append([]byte{0x40 | byte(len(encoded))}, encoded...), nil\n\t}\n\treturn encMode.Marshal(encoded)\n}"},
		{Name: "Key.MarshalCBOR stores a parameter under the caller's spelling of its label", File: "key.go", Rule: "R08.6", Key: "labels",
			Old: "\t\ttmp[lbl] = v\n", New: "\t\ttmp[label] = v\n"},
		{Name: "Key.MarshalCBOR copies parameters without the duplicate test", File: "key.go", Rule: "R08.6",
			Old: "\t\tif _, ok := existing[lbl]; ok {\n\t\t\treturn nil, fmt.Errorf(\"duplicate label %v\", lbl)\n\t\t}\n", New: ""},
		{Name: "a second encode mode with different options", File: "cbor.go", Rule: "R08.1",
			Old: "\tencMode, err = encOpts.EncMode()\n\tif err != nil {\n\t\tpanic(err)\n\t}\n", New: "\tencMode, err = encOpts.EncMode()\n\tif err != nil {\n\t\tpanic(err)\n\t}\n\tif m2, err2 := (cbor.EncOptions{}).EncMode(); err2 == nil && m2 == nil {\n\t\tencMode = m2\n\t}\n"},
	}
}

#!/bin/sh
# check.sh <property id> quick|thorough  -- runs the static checker on /repo's current tree
export GOFLAGS=-mod=mod GOPROXY=off GOSUMDB=off GOTOOLCHAIN=local GOWORK=off
cd /verif || exit 2
if [ ! -x /verif/bin/cosecheck ] || [ -n "$(find /verif/checker -name '*.go' -newer /verif/bin/cosecheck 2>/dev/null | head -1)" ]; then
  (cd /verif/checker && go build -o /verif/bin/cosecheck .) || { echo "CHECKER-ERROR: build failed"; exit 2; }
fi
exec /verif/bin/cosecheck -repo /repo -verif /verif -property "$1" -tier "${2:-quick}"

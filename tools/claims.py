TB = "Trusted base: go/types, x/tools go/ssa, the external contract table (DESIGN.md App. A), fxamacker/cbor and the Go standard library (bodies not analysed)."

claim("C03",
 "Decides for all inputs the only-if skeleton: every built-in verifier returns nil only on paths dominated by the crypto primitive's accepting outcome with message/signature/key wired to its own parameters and receiver (R03.1); every exported Verify entry point returns nil only under ok(Verifier.Verify) on the caller's verifier, per element and per index for COSE_Sign (R03.2); signature/payload/algorithm pre-checks dominate the key (R03.3); context strings are the six RFC constants, disjoint per structure kind (R03.4). Does not decide that the primitives reject every invalid signature nor the 'if' direction.",
 "Assumes crypto/ecdsa.Verify, rsa.VerifyPSS, ed25519.Verify accept only valid signatures. " + TB,
 "must-pass-through dataflow on SSA CFG + value-flow terms")
claim("C11",
 "Decides the code shape the property is about: count gate facts (payload non-nil, signatures non-empty, equal counts) on every non-failure exit of SignMessage.Sign/Verify (R11.1); the per-signature call sits in a full-range index loop, receiver and key indexed by the same SSA value, error tested each iteration and returned, success only from the loop exit (R11.2); encoder/decoder refuse zero or empty signatures per element (R11.3); elements go through the Signature key site (R11.4). The cryptographic verdict per position is C03's gap.",
 TB,
 "loop recogniser + path enumeration over the loop body + must-facts")
claim("C20",
 "Decides: who may write Signature fields and that the store is dominated by ok(signer) and stores the signer's result (R20.1); no function returning (bytes, error) pairs bytes with a possibly non-nil error (R20.2); encoders refuse empty signatures and Sign helpers return only encoder output (R20.3); signer errors are returned unchanged (R20.4); rand is only forwarded (R20.5). Does not decide what the standard library does on short reads.",
 "Assumes foreign Signer/crypto.Signer implementations return no usable bytes with an error and EncMode.Marshal returns (nil, err). " + TB,
 "who-may-write + dominance facts + exit-pair classification")
claim("C04",
 "Decides for all inputs: every key invocation in a method with Headers is dominated by the successful algorithm gate fed with Algorithm() of the very signer/verifier that is then invoked, the Headers whose protected bytes are signed and the signed external data, with no header write in between (R04.1); by path enumeration of both gates, success is only (a) alg equal, (b) not-found with external data, (c) sign-side insertion of alg under label 1 into the current protected map when no raw bytes exist; verify gate is write-free; mismatch wraps ErrAlgorithmMismatch (R04.2); injection precedes the ToBeSigned builder (R04.3); decoded Protected comes only from decoding RawProtected of the same Headers (R04.4); label lookups are spelling-insensitive (R13.6). Does not decide Signer implementations whose Algorithm() varies, nor consistency of caller-supplied RawProtected with the map.",
 "Assumes the CBOR decoder yields the alg encoded in RawProtected (A1). " + TB,
 "dominance must-facts + path enumeration of the gate functions + write-effect summaries")

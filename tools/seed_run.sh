#!/bin/bash
# seed_run.sh <seed dir> [property ids...]  -- applies the patch to /repo, runs the given checks
# (default: the seed's own property), and restores /repo straight afterwards.
set -u
d=$(realpath "$1"); shift
props="$*"; [ -z "$props" ] && props=$(python3 -c "import json;print(json.load(open('$d/meta.json'))['property'])")
[ -n "$(git -C /repo status --porcelain)" ] && { echo "/repo not clean"; exit 2; }
git -C /repo apply "$d/patch.diff" || { echo "patch does not apply"; exit 2; }
trap 'git -C /repo checkout -- . ' EXIT
for p in $props; do
  out=$(/verif/check.sh $p quick 2>&1); rc=$?
  echo "== $p exit=$rc"; echo "$out" | grep -A1 "^VIOLATION\|CHECKER-ERROR" | cut -c1-400 | head -12
done

#!/bin/bash
# seed_par.sh [-b <checker binary>] [pattern]  -- like seed_all.py, but every seed is applied in its own scratch
# worktree of /repo HEAD (removed afterwards) and checked there through cosecheck's -repo flag, 8 at a time;
# /repo itself is not touched. Writes seeded/RESULTS.md when run without a pattern.
export GOFLAGS=-mod=mod GOPROXY=off GOSUMDB=off GOTOOLCHAIN=local GOWORK=off
BIN=/verif/bin/cosecheck
if [ "$1" = "-b" ]; then BIN=$2; shift 2; fi
pat=${1:-}
export BIN
one() {
  d=$1; s=$(basename $d); w=/tmp/wt/sp_$s; v=/tmp/wt/spv_$s
  props=$(python3 -c "import json;m=json.load(open('$d/meta.json'));print(' '.join([m['property']]+m.get('also_check',[])))")
  git -C /repo worktree add -q --detach $w HEAD 2>/dev/null || { echo "| $s | - | worktree failed | |"; return; }
  if ! git -C $w apply $d/patch.diff 2>/dev/null; then echo "| $s | ${props%% *} | patch no longer applies | |"; else
    for p in $props; do
      mkdir -p $v/evidence/replay; cp /verif/known_findings.txt $v/
      out=$($BIN -repo $w -verif $v -property $p -tier quick 2>&1); e=$?
      rules=$(echo "$out" | grep '^  rule ' | awk '{print $2}' | sort -u | tr '\n' ' ')
      case $e in 0) st="MISSED (exit 0)";; 1) st="caught";; 2) st="undecided (exit 2)";; *) st="exit $e";; esac
      echo "| $s | $p | $st | $rules|"
    done
  fi
  git -C /repo worktree remove --force $w >/dev/null 2>&1; rm -rf $v
}
export -f one
mkdir -p /tmp/wt
ls -d /verif/seeded/C*-* | grep -- "$pat" | xargs -P 8 -I{} bash -c 'one {}' | sort > /tmp/seed_par.out
cat /tmp/seed_par.out | grep -v "| caught |"
echo "caught: $(grep -c '| caught |' /tmp/seed_par.out) of $(wc -l < /tmp/seed_par.out)"
if [ -z "$pat" ]; then { echo '| seed | check | verdict | rules reporting |'; echo '|---|---|---|---|'; cat /tmp/seed_par.out; } > /verif/seeded/RESULTS.md; fi

#!/bin/bash
# seed_keep.sh <Cxx> <variant> [srcroot] [dstvariant] : after seed_confirm.sh succeeded, keep the seed under /verif/seeded/<Cxx>-<dstvariant>/
set -e
src=${3:-/tmp/seed}/$1/$2; dst=/verif/seeded/$1-${4:-$2}
mkdir -p $dst; cp $src/patch.diff $src/demo_test.go $dst/
python3 - "$src/meta.json" "$dst/meta.json" "$(git -C /repo log --format=%h -1)" <<'P'
import json,sys
m=json.load(open(sys.argv[1]))
m["confirmed_on_repo_commit"]=sys.argv[3]
m["confirmed_by"]="tools/seed_confirm.sh in a scratch worktree of /repo HEAD: demo passes without the patch; with the patch the full existing suite passes and the demo fails"
json.dump(m,open(sys.argv[2],"w"),indent=1)
P
echo kept $dst

#!/usr/bin/env python3
"""scratch_run.py <worktree> <cosecheck binary> seeds|benign [filters...]
Runs the given checker binary against seeds (own property must report, exit 1) or benign
refactorings (all 20 checks must exit 0) applied in a scratch worktree of /repo, so that
/repo itself stays untouched (e.g. while another run is using it)."""
import json, os, subprocess, sys, glob
from concurrent.futures import ThreadPoolExecutor
wt, binary, mode = sys.argv[1], sys.argv[2], sys.argv[3]
filters = sys.argv[4:]
vdir = wt.rstrip('/') + 'v'
os.makedirs(vdir + '/evidence/replay', exist_ok=True)
subprocess.run(['cp', '/verif/known_findings.txt', vdir + '/'])
def reset():
    subprocess.run(['git', '-C', wt, 'checkout', '-q', '--', '.']); subprocess.run(['git', '-C', wt, 'clean', '-fdq'])
def check(p):
    return p, subprocess.run([binary, '-repo', wt, '-verif', vdir, '-property', p, '-tier', 'quick'], capture_output=True, text=True)
props = ['C%02d' % i for i in range(1, 21)]
bad = 0; n = 0
if mode == 'seeds':
    for d in sorted(glob.glob('/verif/seeded/C*-*')):
        if filters and not any(f in d for f in filters): continue
        m = json.load(open(d + '/meta.json')); reset()
        if subprocess.run(['git', '-C', wt, 'apply', d + '/patch.diff']).returncode != 0:
            print(d, 'does not apply'); continue
        p, r = check(m['property']); n += 1
        if r.returncode != 1:
            bad += 1; print(os.path.basename(d), m['property'], 'NOT CAUGHT rc=%d' % r.returncode, flush=True)
    reset(); print('seeds: %d not caught of %d' % (bad, n))
else:
    for d in sorted(glob.glob('/verif/benign/*/')):
        if filters and not any(f in d for f in filters): continue
        for diff in sorted(glob.glob(d + '*.diff')):
            reset()
            if subprocess.run(['git', '-C', wt, 'apply', diff]).returncode != 0:
                print(diff, 'does not apply'); continue
            with ThreadPoolExecutor(max_workers=6) as ex:
                res = list(ex.map(check, props))
            al = ['%s rc=%d %s' % (p, r.returncode, ' '.join(sorted({l.split()[1] for l in r.stdout.splitlines() if l.startswith('  rule ')}))) for p, r in res if r.returncode != 0]
            n += 1
            if al:
                bad += 1; print(diff.replace('/verif/benign/', ''), 'ALARM', '; '.join(al)[:300], flush=True)
    reset(); print('benign: %d alarms of %d' % (bad, n))

#!/bin/bash
# seed_allchecks.sh <seed dir> : which of the 20 checks report under this seed
d=$(realpath $1)
[ -n "$(git -C /repo status --porcelain)" ] && { echo "/repo not clean"; exit 2; }
git -C /repo apply "$d/patch.diff" || exit 2
trap 'git -C /repo checkout -- . ; git -C /repo clean -fdq' EXIT
for p in $(seq -w 1 20); do
  out=$(/verif/check.sh C$p quick 2>&1); rc=$?
  [ $rc -ne 0 ] && echo "C$p rc=$rc $(echo "$out" | grep '^  rule' | awk '{print $2}' | sort -u | tr '\n' ' ') $(echo "$out" | grep '^CHECKER-ERROR' | head -1 | cut -c1-150)"
done
true

#!/usr/bin/env python3
"""Regenerates /verif/MANIFEST.json from the table below. Properties without an
entry in CLAIMS are listed under not_applicable with the reason in NA."""
import json, sys

ALL = ["C%02d" % i for i in range(1, 21)]

# id -> (text, note, technique, design_ref)
CLAIMS = {}
NA = {}

def claim(pid, text, note, technique):
    CLAIMS[pid] = (text, note, technique, "DESIGN.md section 3, " + pid)

exec(open('/verif/tools/claims.py').read())

checks = []
for pid in ALL:
    if pid not in CLAIMS:
        continue
    text, note, tech, ref = CLAIMS[pid]
    checks.append({
        "property_id": pid,
        "quick_cmd": "/verif/check.sh %s quick" % pid,
        "thorough_cmd": "/verif/check.sh %s thorough" % pid,
        "evidence_file": "/verif/evidence/%s.json" % pid,
        "replay_cmd_template": "/verif/check.sh %s quick # re-evaluates every rule instance incl. the one recorded in {path}" % pid,
        "engine": "cosecheck",
        "level_claimed": {"category": "other", "text": text, "design_ref": ref},
        "level_note": note,
        "technique": tech,
    })
na = [{"property_id": p, "reason": NA.get(p, "static check not armed yet (implementation in progress, see DESIGN.md section 3)")} for p in ALL if p not in CLAIMS]
m = {
    "version": 1,
    "setup_cmd": "cd /verif/checker && GOFLAGS=-mod=mod GOPROXY=off GOSUMDB=off GOTOOLCHAIN=local GOWORK=off go build -o /verif/bin/cosecheck .",
    "hooks": {
        "guard": "verif",
        "enable": "none needed: the checks read /repo's source through go/packages and go/ssa; /repo is never built with hooks nor executed",
        "baseline_off_cmd": "cd /repo && go test -mod=mod -vet=off -count=1 ./...",
        "source_commits": [],
        "add_only": True,
    },
    "engines": [{
        "name": "cosecheck",
        "path": "/verif/checker",
        "serves_properties": sorted(CLAIMS),
        "kind_free_text": "repository-specific static analyser over go/ssa: value-flow terms with store-to-load forwarding, success-path must-facts, write-effect summaries, path enumeration / decision tables, panic-site audit, CBOR option reconstruction; positive controls through in-memory overlays",
    }],
    "checks": checks,
    "notes": "All checks are static analyses of /repo's current source (level 'other'); each decides structural clauses that are necessary conditions of the property, listed per rule in the evidence. Exit 1 + VIOLATION: an obligation failed. Exit 2 (no VIOLATION line): the checker could not decide (load error, anchor missing, instance floor, positive control missed).",
    "not_applicable": na,
}
json.dump(m, open('/verif/MANIFEST.json', 'w'), indent=1)
print("claimed:", sorted(CLAIMS), "n/a:", [x["property_id"] for x in na])

#!/bin/bash
# benign_par.sh "<props>" [dir pattern] -- every refactoring is applied in its own scratch worktree of /repo HEAD
# and the named checks run there through -repo (no suite run; /repo untouched). Prints alarms only.
export GOFLAGS=-mod=mod GOPROXY=off GOSUMDB=off GOTOOLCHAIN=local GOWORK=off
export PROPS="$1"; pat=${2:-}
one() {
  f=$1; n=$(basename $(dirname $f))_$(basename $f .diff); w=/tmp/wt/bp_$n; v=/tmp/wt/bpv_$n
  git -C /repo worktree add -q --detach $w HEAD 2>/dev/null || return
  if git -C $w apply $f 2>/dev/null; then
    res=""
    for p in $PROPS; do
      mkdir -p $v/evidence/replay; cp /verif/known_findings.txt $v/
      out=$(/verif/bin/cosecheck -repo $w -verif $v -property $p -tier quick 2>&1); e=$?
      if [ $e -ne 0 ]; then res="$res $p(exit$e: $(echo "$out" | grep '^  rule ' | awk '{print $2}' | sort -u | tr '\n' ' '))"; fi
    done
    [ -n "$res" ] && echo "$n ALARM $res" || echo "$n silent"
  else echo "$n does-not-apply"; fi
  git -C /repo worktree remove --force $w >/dev/null 2>&1; rm -rf $v
}
export -f one
mkdir -p /tmp/wt
ls /verif/benign/*/*.diff | grep -- "$pat" | xargs -P 14 -I{} bash -c 'one {}' | sort > /tmp/benign_par.out
grep -v " silent" /tmp/benign_par.out; echo "silent: $(grep -c ' silent' /tmp/benign_par.out) of $(wc -l < /tmp/benign_par.out)"

#!/bin/bash
# regress.sh [tier] : run all 20 checks on /repo's tree; print only the ones that are not clean
tier=${1:-thorough}
bad=0
for p in $(seq -w 1 20); do
  out=$(/verif/check.sh C$p $tier 2>&1); rc=$?
  last=$(echo "$out" | tail -1)
  c=$(echo "$last" | sed -n 's/.*controls \([0-9]*\)\/\([0-9]*\) caught (\([0-9]*\) inapplicable).*/\1 \2 \3/p')
  set -- $c
  if [ $rc -ne 0 ] || [ "$1" != "$2" ] || [ "$3" != "0" ] || ! echo "$last" | grep -q " 0 violated"; then
    bad=1; echo "C$p rc=$rc: $last" | cut -c1-300; echo "$out" | grep "^CHECKER-ERROR\|^VIOLATION" | head -3 | cut -c1-300
  fi
done
[ $bad = 0 ] && echo "all 20 clean ($tier)"

#!/usr/bin/env python3
"""Runs every kept seeded change against the checks of its property (and any listed in meta.also_check):
applies the patch to /repo, runs /verif/check.sh <id> quick, restores /repo. Writes seeded/RESULTS.md."""
import json, os, subprocess, sys, glob
os.chdir('/verif')
claimed = {c['property_id'] for c in json.load(open('MANIFEST.json'))['checks']}
rows = []
only = sys.argv[1:]
for d in sorted(glob.glob('seeded/C*-*')):
    if only and not any(o in d for o in only): continue
    m = json.load(open(d + '/meta.json'))
    props = [m['property']] + m.get('also_check', [])
    if subprocess.run(['git', '-C', '/repo', 'status', '--porcelain'], capture_output=True, text=True).stdout.strip():
        sys.exit('/repo not clean')
    ap = subprocess.run(['git', '-C', '/repo', 'apply', os.path.abspath(d + '/patch.diff')], capture_output=True, text=True)
    if ap.returncode != 0:
        rows.append((d, m['property'], 'patch no longer applies', '')); continue
    try:
        res = []
        for p in props:
            if p not in claimed:
                res.append((p, 'not claimed', '')); continue
            r = subprocess.run(['/verif/check.sh', p, 'quick'], capture_output=True, text=True)
            rules = sorted({l.split()[1] for l in r.stdout.splitlines() if l.startswith('  rule ')})
            res.append((p, {0: 'MISSED (exit 0)', 1: 'caught', 2: 'undecided (exit 2)'}.get(r.returncode, str(r.returncode)), ' '.join(rules)))
    finally:
        subprocess.run(['git', '-C', '/repo', 'checkout', '--', '.'])
    for p, st, rules in res:
        rows.append((d.split('/')[1], p, st, rules))
        print(d.split('/')[1], p, st, rules, flush=True)
if not only:
    with open('seeded/RESULTS.md', 'w') as f:
        f.write('| seed | check | verdict | rules reporting |\n|---|---|---|---|\n')
        for r in rows: f.write('| %s | %s | %s | %s |\n' % r)

#!/bin/bash
# benign_why.sh <diff> <prop> : show the violations of one check under one refactoring
git -C /repo apply "$(realpath $1)" || exit 1
/verif/check.sh $2 quick | grep -A1 "^VIOLATION\|^CHECKER" | grep "rule\|CHECKER" | cut -c1-${3:-420}
git -C /repo checkout -- . ; git -C /repo clean -fdq

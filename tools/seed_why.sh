#!/bin/bash
# seed_why.sh <seed dir> <prop> [width] : the violations one check reports under one seed
d=$(realpath $1)
git -C /repo apply "$d/patch.diff" || exit 1
/verif/check.sh $2 quick | grep -A1 "^VIOLATION\|^CHECKER" | grep "rule\|CHECKER" | cut -c1-${3:-420}
git -C /repo checkout -- . ; git -C /repo clean -fdq

#!/usr/bin/env python3
"""benign_run.py [dir ...]  -- for every behaviour-preserving refactoring (<dir>/*.diff, default /verif/benign/*):
apply it to /repo, build+test it, run all claimed checks (quick), restore /repo. Any non-zero exit is a false alarm.
Writes /verif/benign/RESULTS.md when run without arguments."""
import json, os, subprocess, sys, glob
from concurrent.futures import ThreadPoolExecutor
os.chdir('/verif')
env = dict(os.environ, GOFLAGS='-mod=mod', GOPROXY='off', GOSUMDB='off', GOTOOLCHAIN='local', GOWORK='off')
claimed = [c['property_id'] for c in json.load(open('MANIFEST.json'))['checks']]
dirs = sys.argv[1:] or sorted(glob.glob('/verif/benign/*/'))
rows = []
bad = 0
for d in dirs:
    for diff in sorted(glob.glob(os.path.join(d, '*.diff'))):
        name = os.path.basename(os.path.dirname(diff.rstrip('/'))) + '/' + os.path.basename(diff)
        if subprocess.run(['git', '-C', '/repo', 'status', '--porcelain'], capture_output=True, text=True).stdout.strip():
            sys.exit('/repo not clean')
        ap = subprocess.run(['git', '-C', '/repo', 'apply', os.path.abspath(diff)], capture_output=True, text=True)
        if ap.returncode != 0:
            rows.append((name, 'patch does not apply', '')); print(name, 'patch does not apply'); continue
        try:
            # SKIPTEST=1: the suite was already run on this refactoring in an earlier pass
            t = subprocess.run(['true'] if os.environ.get('SKIPTEST') else ['go', 'test', '-vet=off', '-count=1', './...'], cwd='/repo', env=env, capture_output=True, text=True)
            if t.returncode != 0:
                rows.append((name, 'suite fails with the refactoring (not benign)', '')); print(name, 'SUITE FAILS'); continue
            alarms = []
            # the checks only read /repo and write their own evidence file: run them side by side
            with ThreadPoolExecutor(max_workers=8) as ex:
                results = list(ex.map(lambda p: (p, subprocess.run(['/verif/check.sh', p, 'quick'], capture_output=True, text=True)), claimed))
            for p, r in results:
                if r.returncode != 0:
                    rules = sorted({l.split()[1] for l in r.stdout.splitlines() if l.startswith('  rule ')})
                    errs = [l for l in r.stdout.splitlines() if l.startswith('CHECKER-ERROR')]
                    alarms.append('%s exit %d %s %s' % (p, r.returncode, ' '.join(rules), ' | '.join(e[:160] for e in errs[:2])))
        finally:
            subprocess.run(['git', '-C', '/repo', 'checkout', '--', '.'])
            subprocess.run(['git', '-C', '/repo', 'clean', '-fdq'])
        if alarms:
            bad += 1
        rows.append((name, 'FALSE ALARM' if alarms else 'silent', '; '.join(alarms)))
        print(name, 'FALSE ALARM' if alarms else 'silent', '; '.join(alarms), flush=True)
if len(sys.argv) == 1:
    with open('/verif/benign/RESULTS.md', 'w') as f:
        f.write('| refactoring | all 20 checks | details |\n|---|---|---|\n')
        for r in rows: f.write('| %s | %s | %s |\n' % r)
print('false alarms:', bad, 'of', len(rows))

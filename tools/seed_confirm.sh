#!/bin/bash
# seed_confirm.sh <seed dir containing patch.diff, demo_test.go, meta.json>
# Confirms in a scratch worktree of /repo HEAD (removed afterwards): patch applies, builds,
# the full existing suite passes with it, the demo fails with it and passes without it.
set -u
export GOFLAGS=-mod=mod GOPROXY=off GOSUMDB=off GOTOOLCHAIN=local GOWORK=off
d=$(realpath "$1"); w=/tmp/wt/confirm.$$
git -C /repo worktree add -q --detach "$w" HEAD || exit 2
trap 'git -C /repo worktree remove --force "$w" >/dev/null 2>&1' EXIT
cd "$w"
name=$(python3 -c "import json,sys;print(json.load(open('$d/meta.json'))['demo_test_name'])")
race=""; grep -qi '"-race\|-race ' "$d/meta.json" && race="-race"
cp "$d/demo_test.go" ./zz_seed_demo_test.go
out0=$(go test -vet=off -count=1 $race -run "^${name}\$" . 2>&1); r0=$?
rm -f zz_seed_demo_test.go
git apply "$d/patch.diff" || { echo "RESULT $d: patch does not apply on HEAD"; exit 1; }
go build ./... || { echo "RESULT $d: does not build"; exit 1; }
outs=$(go test -vet=off -count=1 ./... 2>&1); rs=$?
cp "$d/demo_test.go" ./zz_seed_demo_test.go
out1=$(go test -vet=off -count=1 $race -run "^${name}\$" . 2>&1); r1=$?
echo "RESULT $d: demo_without_patch=$r0 suite_with_patch=$rs demo_with_patch=$r1 race='$race'"
if [ $r0 -eq 0 ] && [ $rs -eq 0 ] && [ $r1 -ne 0 ]; then echo "CONFIRMED $d"; exit 0; fi
echo "--- demo without patch:"; echo "$out0" | tail -5
echo "--- suite with patch:"; echo "$outs" | tail -5
echo "--- demo with patch:"; echo "$out1" | tail -5
exit 1
